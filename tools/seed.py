#!/usr/bin/env python3
"""Development helper (never part of a registered command):
   seed.py verify <srcdir> <name> <pid>   confirm a candidate seeded change and store it under seeded/<name>/
   seed.py run <name> [pid ...]           apply seeded/<name>/patch.diff to /repo, run the checks, undo"""
import json, os, re, shutil, subprocess, sys, time
VERIF = os.path.dirname(os.path.dirname(os.path.abspath(__file__)))
REPO = "/repo"


def sh(cmd, **kw):
    return subprocess.run(cmd, shell=True, capture_output=True, text=True, **kw)


def verify(src, name, pid):
    wt = "/tmp/seedverify_%s" % name
    sh("git -C %s worktree remove --force %s" % (REPO, wt))
    assert sh("git -C %s worktree add --detach %s HEAD" % (REPO, wt)).returncode == 0
    try:
        patch = os.path.join(src, "patch.diff")
        demo = os.path.join(src, "demo.py")
        r0 = sh("/venv/bin/python %s %s" % (demo, wt), timeout=600)
        a = sh("git -C %s apply %s" % (wt, patch))
        if a.returncode:
            return {"ok": False, "why": "patch does not apply: " + a.stderr[-300:]}
        t = sh("cd %s/python && /venv/bin/python -m pytest -q -p no:cacheprovider 2>&1 | tail -1" % wt, timeout=900)
        r1 = sh("/venv/bin/python %s %s" % (demo, wt), timeout=600)
        res = {"pristine_demo_exit": r0.returncode, "changed_demo_exit": r1.returncode, "tests": t.stdout.strip(),
               "demo_output": r1.stdout[-600:]}
        res["ok"] = r0.returncode == 0 and r1.returncode == 1 and "30 passed" in t.stdout
        if res["ok"]:
            dst = os.path.join(VERIF, "seeded", name)
            os.makedirs(dst, exist_ok=True)
            shutil.copy(patch, os.path.join(dst, "patch.diff"))
            shutil.copy(demo, os.path.join(dst, "demo.py"))
            notes = open(os.path.join(src, "notes.txt")).read() if os.path.exists(os.path.join(src, "notes.txt")) else ""
            meta = {"property": pid, "needs": notes.strip(), "confirmed": {
                "tests_with_change": t.stdout.strip(), "demo_exit_with_change": 1, "demo_exit_pristine": 0,
                "how": "scratch worktree of /repo HEAD; git apply patch.diff; cd python && pytest -q; demo.py <worktree>; then pristine"},
                "detected_by": {}}
            json.dump(meta, open(os.path.join(dst, "meta.json"), "w"), indent=1)
        return res
    finally:
        sh("git -C %s worktree remove --force %s" % (REPO, wt))


def run(name, pids):
    """Runs in a scratch copy of /verif against a scratch worktree of /repo with the patch applied
    (same effect as `git -C /repo apply` + check + `git -C /repo checkout -- .`, but lets several runs
    go in parallel and leaves /repo and /verif/coq/gen alone)."""
    dst = os.path.join(VERIF, "seeded", name)
    meta = json.load(open(os.path.join(dst, "meta.json")))
    pids = pids or [meta["property"]]
    wt = "/tmp/seedrun_%s" % name
    vc = "/tmp/vrun_%s" % name
    sh("git -C %s worktree remove --force %s" % (REPO, wt))
    sh("rm -rf %s" % vc)
    assert sh("git -C %s worktree add --detach %s HEAD" % (REPO, wt)).returncode == 0
    out = {}
    try:
        a = sh("git -C %s apply %s" % (wt, os.path.join(dst, "patch.diff")))
        assert a.returncode == 0, a.stderr
        assert sh("cp -r %s %s" % (VERIF, vc)).returncode == 0
        for pid in pids:
            t0 = time.time()
            r = sh("cd %s && VERIF_REPO=%s ./check %s --tier quick" % (vc, wt, pid), timeout=1500)
            lines = [l for l in r.stdout.split("\n") if l.startswith("VIOLATION") or l.startswith("  ")]
            out[pid] = {"exit": r.returncode, "first": [l.replace(vc, "/verif") for l in lines[:2]], "wall": round(time.time() - t0)}
            print(name, pid, "exit", r.returncode, (lines[:2] or [r.stdout[-200:]]), flush=True)
            if os.environ.get("KEEP_REPLAY") and lines:
                m = re.search(r"replay=(\S+)", lines[0])
                if m and os.path.exists(m.group(1)):
                    shutil.copy(m.group(1), "/tmp/replay_%s_%s.json" % (name, pid))
    finally:
        sh("git -C %s worktree remove --force %s" % (REPO, wt))
        sh("rm -rf %s" % vc)
    meta["detected_by"].update({p: (v["exit"] == 1) for p, v in out.items()})
    meta.setdefault("runs", {}).update(out)
    json.dump(meta, open(os.path.join(dst, "meta.json"), "w"), indent=1)
    return out


def table():
    rows = ["| seeded change | property | needs | reported by | through |", "|---|---|---|---|---|"]
    for name in sorted(os.listdir(os.path.join(VERIF, "seeded"))):
        m = json.load(open(os.path.join(VERIF, "seeded", name, "meta.json")))
        det = ",".join(sorted(k for k, v in m.get("detected_by", {}).items() if v)) or "NOT REPORTED"
        first = ""
        for pid, r in m.get("runs", {}).items():
            if r.get("exit") == 1 and len(r.get("first", [])) > 1:
                first = r["first"][1].strip()[:90]
                if pid == m["property"]:
                    break
        needs = " ".join(m.get("needs", "").split())[:110].replace("|", "/")
        rows.append("| %s | %s | %s | %s | %s |" % (name, m["property"], needs, det, first.replace("|", "/")))
    print("\n".join(rows))


if __name__ == "__main__":
    if sys.argv[1] == "table":
        table()
    elif sys.argv[1] == "verify":
        print(json.dumps(verify(sys.argv[2], sys.argv[3], sys.argv[4]), indent=1))
    else:
        run(sys.argv[2], sys.argv[3:])
