"""Shared paths and environment for the verification tools."""
import os
import sys

VERIF = os.path.dirname(os.path.dirname(os.path.abspath(__file__)))
REPO = os.environ.get("VERIF_REPO", "/repo")
PYDIR = os.path.join(REPO, "python")
COQ = os.path.join(VERIF, "coq")
GEN = os.path.join(COQ, "gen")
GMODEL = os.path.join(COQ, "extract", "gmodel")
EVIDENCE = os.path.join(VERIF, "evidence")
REPLAY = os.path.join(VERIF, "replay")
SEED = int(os.environ.get("VERIF_SEED", "0") or 0)
TIER = os.environ.get("VERIF_TIER", "quick")
JOBS = int(os.environ.get("VERIF_JOBS", "16"))


def use_repo():
    """Make `import gherkin` resolve to /repo/python (never to an installed copy)."""
    sys.dont_write_bytecode = True
    if PYDIR in sys.path:
        sys.path.remove(PYDIR)
    sys.path.insert(0, PYDIR)
    for k in [k for k in sys.modules if k == "gherkin" or k.startswith("gherkin.")]:
        del sys.modules[k]
    import gherkin  # noqa
    assert os.path.dirname(os.path.abspath(gherkin.__file__)) == os.path.join(PYDIR, "gherkin"), gherkin.__file__
