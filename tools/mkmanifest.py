#!/usr/bin/env python3
"""Writes MANIFEST.json from the registry (claimed = properties with a props file)."""
import json, os, sys
sys.dont_write_bytecode = True
sys.path.insert(0, os.path.dirname(os.path.abspath(__file__)))
from common import VERIF, COQ

TECH = {
 "C01": "Coq: totality/crash-freedom invariants of the generic interpreter + error-cap lemma; correspondence + exception-type and linearity oracles",
 "C02": "Coq: verified bisimulation certificate (table NFA = grammar derivatives), rule-stack abstract interpretation (nesting), sibling table equality by vm_compute on regenerated data; match_token probe",
 "C03": "Coq: builder/description lemmas over the executable model; correspondence on AST (ids, locations erased) + generator's intended AST",
 "C04": "Coq: column invariants of split_table_cells / tags by induction; correspondence on all locations + source slicing oracle",
 "C05": "Coq: title/step keyword lemmas for every dialect + clash side-conditions by vm_compute on the regenerated dialect table; exhaustive keyword enumeration",
 "C06": "Coq: compile = threaded map of compile_unit over declarative units (induction); correspondence on Compiler.compile",
 "C07": "Coq: per-unit step-source/argument equations + background-scope theorem; correspondence on Compiler.compile",
 "C08": "Coq: per-unit tag equation + scope theorem; correspondence on Compiler.compile",
 "C09": "Coq: replace_all = leftmost non-overlapping rewrite (relation Repl, join/pieces identity), placeholder lemmas; exhaustive _interpolate enumeration",
 "C10": "Coq: type chain (carry) equation for all step lists, outline = plain; exhaustive keyword-type sequences",
 "C11": "Coq: id threading lemmas (pickle ids consecutive from the counter); correspondence on every id + density/reference oracle",
 "C12": "Coq: split_table_cells = segments/unescape/trim specification, escape round-trip, first ragged row; exhaustive rows",
 "C13": "Coq: doc-string states test only [separator; other] (vm_compute) + per-line opacity lemma; correspondence on doc strings",
 "C14": "Coq: add_error invariants (dedupe, cap), error-tail recovery, expected lists = siblings' (vm_compute); (state x kind) enumeration",
 "C15": "Coq: parse result is a function of the reset state (reset theorem); histories, reused-vs-fresh, interleaving harness",
 "C16": "Coq: line-equivalence lemmas (CRLF / final newline) at scanner+matcher level; layout-transformation oracle",
 "C17": "Coq: envelope order theorem for enum_source / enum_sources; schema checker + order oracle on the implementation",
 "C18": "Coq: queue invariant and delivery theorem for the generic interpreter; recording builder + reference token listings",
 "C19": "Coq: Markdown title/step/table/tag line lemmas + side-conditions on the dialect table; exhaustive header/bullet enumeration",
}
props = [json.loads(l) for l in open(os.path.join(VERIF, "properties.jsonl"), encoding="utf8")]
pending = {}
pf = os.path.join(VERIF, "tools", "not_applicable.json")
if os.path.exists(pf):
    pending = json.load(open(pf))
checks, na = [], []
for p in props:
    pid = p["id"]
    if os.path.exists(os.path.join(COQ, "props", pid + ".v")) and pid not in pending:
        checks.append({
            "property_id": pid,
            "quick_cmd": "./check %s --tier quick" % pid,
            "thorough_cmd": "./check %s --tier thorough" % pid,
            "evidence_file": "evidence/%s.json" % pid,
            "replay_cmd_template": "./check %s --replay {path}" % pid,
            "engine": "coq+correspondence",
            "level_claimed": {"category": "proof",
                              "text": "Theorems in coq/props/%s.v about the executable Gallina model (all inputs, no bound), finite side-conditions decided by vm_compute on data regenerated from /repo on every run; the hand-written model is tied to the code by a correspondence check (extracted model vs implementation on the property's projection)." % pid,
                              "design_ref": "DESIGN.md section 6, %s" % pid},
            "level_note": "Trusted: Coq 8.16.1 kernel + VM, translators (tools/regen.py), extraction (ExtrOcamlBasic only) and driver, the correspondence harness; the Python code is modelled, not verified. See DESIGN.md section 8.",
            "technique": TECH[pid],
        })
    else:
        na.append({"property_id": pid, "reason": pending.get(pid, "check not built yet in this round (work in progress; see DESIGN.md)")})
m = {
 "version": 1,
 "setup_cmd": "./setup.sh",
 "hooks": {"guard": "GHERKIN_VERIF", "enable": "no source hooks: observation by subclassing/duck-typing scanner, matcher and builder (tools/impl.py)",
           "baseline_off_cmd": "cd /repo && /venv/bin/python -m pytest -ra -q -p no:cacheprovider --timeout=900 --continue-on-collection-errors",
           "source_commits": [], "add_only": True},
 "engines": [{"name": "coq+correspondence", "path": "tools/check.py", "serves_properties": [c["property_id"] for c in checks],
              "kind_free_text": "Coq 8.16.1 development (coq/) + regenerated tables (tools/regen.py) + extracted model vs implementation (tools/corr.py)"}],
 "checks": checks,
 "notes": "Known findings: KNOWN_FINDINGS.txt. Fix commits in /repo: 1946e74 c9abe09 1543e21 a6ab0fa d68b7da 7310f07.",
 "not_applicable": na,
}
json.dump(m, open(os.path.join(VERIF, "MANIFEST.json"), "w"), indent=1)
print("claimed:", [c["property_id"] for c in checks], "not claimed:", [n["property_id"] for n in na])
