#!/usr/bin/env python3
"""Translators /repo -> /verif/coq/gen/*.v (the R-tie of DESIGN.md section 4.1).

Every translator is fail-closed: anything outside the shapes it knows raises
TranslationError.  Files are rewritten only when their content changes, so that
`make` is a no-op on an unchanged tree.

  parser.py               -> gen/Table.v      (Python `ast`, template comparison)
  gherkin.berp            -> gen/Grammar.v
  sibling generated parsers -> gen/Siblings.v (line scrapers)
  gherkin-languages.json (x2) -> gen/Dialects.v, gen/DialectsMaster.v
  testdata                -> gen/Corpus.v
"""
from __future__ import annotations

import ast
import hashlib
import json
import os
import re
import sys
import textwrap

REPO = os.environ.get("VERIF_REPO", "/repo")
VERIF = os.path.dirname(os.path.dirname(os.path.abspath(__file__)))
GEN = os.path.join(VERIF, "coq", "gen")

KINDS = ["EOF", "Empty", "Comment", "TagLine", "FeatureLine", "RuleLine",
         "BackgroundLine", "ScenarioLine", "ExamplesLine", "StepLine",
         "DocStringSeparator", "TableRow", "Language", "Other"]
RULES = ["GherkinDocument", "Feature", "FeatureHeader", "Rule", "RuleHeader",
         "Background", "ScenarioDefinition", "Scenario", "ExamplesDefinition",
         "Examples", "ExamplesTable", "Step", "DataTable", "DocString", "Tags",
         "Description"]


class TranslationError(Exception):
    pass


def need(cond, msg):
    if not cond:
        raise TranslationError(msg)


def sha(path):
    with open(path, "rb") as f:
        return hashlib.sha256(f.read()).hexdigest()


def write_if_changed(path, content):
    try:
        with open(path, encoding="utf8") as f:
            if f.read() == content:
                return False
    except FileNotFoundError:
        pass
    tmp = path + ".tmp%d" % os.getpid()
    with open(tmp, "w", encoding="utf8") as f:
        f.write(content)
    os.replace(tmp, path)
    return True


# ---------------------------------------------------------------------------
# parser.py

def _dump(node):
    return ast.dump(node, annotate_fields=True, include_attributes=False)


def _strip_annotations(fn: ast.FunctionDef):
    fn.returns = None
    for a in fn.args.args + fn.args.kwonlyargs:
        a.annotation = None
    fn.decorator_list = []
    return fn


def _self_call_name(c):
    need(isinstance(c, ast.Call) and isinstance(c.func, ast.Attribute)
         and isinstance(c.func.value, ast.Name) and c.func.value.id == "self",
         "expected a call self.<name>(...): " + _dump(c)[:120])
    return c.func.attr


def _args_are(c, names):
    need(len(c.args) == len(names) and not c.keywords, "unexpected arguments " + _dump(c)[:160])
    for a, n in zip(c.args, names):
        if n is None:
            continue
        need(isinstance(a, ast.Name) and a.id == n, "argument should be %s: %s" % (n, _dump(a)))


def _prods(body):
    out = []
    need(len(body) >= 2, "transition body too short")
    for stt in body[:-1]:
        need(isinstance(stt, ast.Expr), "production must be an expression statement")
        n = _self_call_name(stt.value)
        if n == "build":
            _args_are(stt.value, ["context", "token"])
            out.append(("B",))
        elif n in ("start_rule", "end_rule"):
            _args_are(stt.value, ["context", None])
            a = stt.value.args[1]
            need(isinstance(a, ast.Constant) and a.value in RULES, "unknown rule " + _dump(a))
            out.append(("S" if n == "start_rule" else "E", a.value))
        else:
            raise TranslationError("unknown production " + n)
    r = body[-1]
    need(isinstance(r, ast.Return) and isinstance(r.value, ast.Constant)
         and isinstance(r.value.value, int) and not isinstance(r.value.value, bool),
         "transition must end in `return <int>`")
    return out, r.value.value


TAIL_TEMPLATE = '''
state_comment = {comment!r}
token.detach
expected_tokens = {expected!r}
error = UnexpectedEOFException(token, expected_tokens, state_comment) if token.eof() else UnexpectedTokenException(token, expected_tokens, state_comment)
if self.stop_at_first_error:
    raise error
self.add_error(context, error)
return {ret!r}
'''

LOOKAHEAD_TEMPLATE = '''
def lookahead_{n}(self, context, currentToken):
    currentToken.detach
    token = None
    queue = []
    match = False
    while True:
        token = self.read_token(context)
        token.detach
        queue.append(token)

        if ({exp} or False):
            match = True
            break

        if not ({skip} or False):
            break

    context.token_queue.extend(queue)

    return match
'''

WRAPPER_TEMPLATE = '''
def match_{k}(self, context, token):
    if token.eof():
        return False
    return self.handle_external_error(context, False, token, context.token_matcher.match_{k})
'''
WRAPPER_EOF_TEMPLATE = '''
def match_EOF(self, context, token):
    return self.handle_external_error(context, False, token, context.token_matcher.match_EOF)
'''


def _same_stmts(actual, template_src, what):
    exp = ast.parse(textwrap.dedent(template_src)).body
    a = [_dump(x) for x in actual]
    e = [_dump(x) for x in exp]
    need(a == e, "%s does not have the template's shape" % what)


def _kinds_of_or(expr, what):
    """(self.match_A(context, token) or self.match_B(context, token) or False) -> [A, B]"""
    need(isinstance(expr, ast.BoolOp) and isinstance(expr.op, ast.Or), what + ": expected `or` chain")
    ks = []
    for v in expr.values[:-1]:
        n = _self_call_name(v)
        need(n.startswith("match_") and n[6:] in KINDS, what + ": unknown test " + n)
        ks.append(n[6:])
    need(isinstance(expr.values[-1], ast.Constant) and expr.values[-1].value is False, what + ": chain must end in False")
    return ks


def translate_state_method(f: ast.FunctionDef):
    s = int(f.name.rsplit("_", 1)[1])
    tests = []
    i = 0
    body = f.body
    while i < len(body) and isinstance(body[i], ast.If):
        stt = body[i]
        need(not stt.orelse, "state %d: else branch" % s)
        n = _self_call_name(stt.test)
        if n == "stop_at_first_error":
            break
        need(n.startswith("match_") and n[6:] in KINDS, "state %d: unknown test %s" % (s, n))
        _args_are(stt.test, ["context", "token"])
        b = stt.body
        if len(b) == 1 and isinstance(b[0], ast.If):
            need(not b[0].orelse, "state %d: else branch in guard" % s)
            g = _self_call_name(b[0].test)
            need(re.fullmatch(r"lookahead_\d+", g) is not None, "state %d: unknown guard %s" % (s, g))
            _args_are(b[0].test, ["context", "token"])
            la = int(g.split("_")[1])
            p, t = _prods(b[0].body)
        else:
            la = None
            p, t = _prods(b)
        tests.append((n[6:], la, p, t))
        i += 1
    tail = body[i:]
    need(len(tail) == 7, "state %d: error tail has %d statements" % (s, len(tail)))
    need(isinstance(tail[0], ast.Assign) and isinstance(tail[0].value, ast.Constant)
         and isinstance(tail[0].value.value, str), "state %d: state_comment" % s)
    comment = tail[0].value.value
    need(isinstance(tail[2], ast.Assign) and isinstance(tail[2].value, ast.List), "state %d: expected_tokens" % s)
    expected = []
    for e in tail[2].value.elts:
        need(isinstance(e, ast.Constant) and isinstance(e.value, str) and e.value.startswith("#")
             and e.value[1:] in KINDS, "state %d: bad expected token" % s)
        expected.append(e.value)
    need(isinstance(tail[6], ast.Return) and isinstance(tail[6].value, ast.Constant)
         and isinstance(tail[6].value.value, int), "state %d: error return" % s)
    ret = tail[6].value.value
    _same_stmts(tail, TAIL_TEMPLATE.format(comment=comment, expected=expected, ret=ret),
                "state %d error tail" % s)
    return s, tests, [e[1:] for e in expected], ret


def _strip_inert(tree):
    """remove statements that are a bare constant (docstrings, stray string / number literals): evaluating a constant has
    no effect, so they are not part of the program's behaviour; a body that would become empty is left as it is"""
    for node in ast.walk(tree):
        for field in ("body", "orelse", "finalbody"):
            body = getattr(node, field, None)
            if isinstance(body, list) and body and all(isinstance(x, ast.stmt) for x in body):
                kept = [x for x in body if not (isinstance(x, ast.Expr) and isinstance(x.value, ast.Constant))]
                if kept and len(kept) != len(body):
                    setattr(node, field, kept)
    return tree


def translate_parser_py(path):
    src = open(path, encoding="utf8").read()
    tree = _strip_inert(ast.parse(src))
    cls = [n for n in tree.body if isinstance(n, ast.ClassDef) and n.name == "Parser"]
    need(len(cls) == 1, "class Parser not found")
    cls = cls[0]
    table = {}
    lookaheads = {}
    wrappers = set()
    helpers = {}
    state_map = None
    start_state = None
    error_cap = None
    for f in cls.body:
        need(isinstance(f, ast.FunctionDef), "non-function member in Parser: " + _dump(f)[:80])
        name = f.name
        if name.startswith("match_token_at_"):
            s, tests, expected, ret = translate_state_method(f)
            need(s not in table, "duplicate state %d" % s)
            table[s] = (tests, expected, ret)
        elif re.fullmatch(r"lookahead_\d+", name):
            n = int(name.split("_")[1])
            loop = [x for x in f.body if isinstance(x, ast.While)]
            need(len(loop) == 1, name + ": while loop")
            ifs = [x for x in loop[0].body if isinstance(x, ast.If)]
            need(len(ifs) == 2, name + ": two ifs expected")
            exp = _kinds_of_or(ifs[0].test, name)
            need(isinstance(ifs[1].test, ast.UnaryOp) and isinstance(ifs[1].test.op, ast.Not), name + ": not(...)")
            skip = _kinds_of_or(ifs[1].test.operand, name)
            mk = lambda ks: " or ".join("self.match_%s(context, token)" % k for k in ks)
            tmpl = ast.parse(textwrap.dedent(LOOKAHEAD_TEMPLATE.format(n=n, exp=mk(exp), skip=mk(skip)))).body[0]
            need(_dump(_strip_annotations(f)) == _dump(tmpl), name + " does not have the template's shape")
            lookaheads[n] = (exp, skip)
        elif name.startswith("match_") and name[6:] in KINDS:
            k = name[6:]
            tmpl_src = WRAPPER_EOF_TEMPLATE if k == "EOF" else WRAPPER_TEMPLATE.format(k=k)
            tmpl = ast.parse(textwrap.dedent(tmpl_src)).body[0]
            need(_dump(_strip_annotations(f)) == _dump(tmpl), name + " wrapper does not have the template's shape")
            wrappers.add(k)
        elif name == "match_token":
            need(len(f.body) == 2, "match_token body")
            d = f.body[0]
            need(isinstance(d, ast.AnnAssign) and isinstance(d.value, ast.Dict), "state_map")
            state_map = {}
            for k, v in zip(d.value.keys, d.value.values):
                need(isinstance(k, ast.Constant) and isinstance(k.value, int), "state_map key")
                need(isinstance(v, ast.Attribute) and isinstance(v.value, ast.Name) and v.value.id == "self"
                     and v.attr == "match_token_at_%d" % k.value, "state_map entry %r" % k.value)
                state_map[k.value] = v.attr
            helpers[name] = _dump(ast.Module(body=[f.body[1]], type_ignores=[]))
        else:
            if name == "add_error":
                for n_ in ast.walk(f):
                    if (isinstance(n_, ast.Compare) and len(n_.ops) == 1 and isinstance(n_.ops[0], ast.Gt)
                            and isinstance(n_.comparators[0], ast.Constant)
                            and isinstance(n_.comparators[0].value, int)):
                        need(error_cap is None, "two caps in add_error")
                        error_cap = n_.comparators[0].value
                        n_.comparators[0].value = 0   # abstract the literal out of the pinned dump
            if name == "parse":
                for n_ in ast.walk(f):
                    if (isinstance(n_, ast.Assign) and isinstance(n_.targets[0], ast.Name)
                            and n_.targets[0].id == "state" and isinstance(n_.value, ast.Constant)):
                        need(start_state is None, "two start states")
                        start_state = n_.value.value
                        n_.value.value = 0
            helpers[name] = _dump(_strip_annotations(f))
    need(state_map is not None, "match_token / state_map not found")
    need(set(state_map) == set(table), "state_map keys differ from match_token_at_N methods")
    need(wrappers == set(KINDS), "match_K wrappers missing: %r" % (set(KINDS) - wrappers))
    need(error_cap is not None, "error cap literal not found in add_error")
    need(start_state is not None, "start state not found in parse")
    need(start_state in table, "start state has no method")
    for s, (tests, expected, ret) in table.items():
        for (k, la, p, t) in tests:
            if la is not None:
                need(la in lookaheads, "state %d uses unknown lookahead_%d" % (s, la))
    # RULE_TYPE list and ParserContext are only consumed by other languages' tooling /
    # the helpers; pin them with the helpers
    for n_ in tree.body:
        if isinstance(n_, ast.ClassDef) and n_.name == "ParserContext":
            helpers["ParserContext"] = _dump(n_)
    helper_hash = hashlib.sha256(json.dumps(helpers, sort_keys=True).encode()).hexdigest()
    return {"table": table, "lookaheads": lookaheads, "error_cap": error_cap,
            "start_state": start_state, "helper_hash": helper_hash}


# ---------------------------------------------------------------------------
# Coq emitters

def coq_prod(p):
    return "PB" if p[0] == "B" else ("PS R%s" % p[1] if p[0] == "S" else "PE R%s" % p[1])


def coq_test(t):
    k, la, p, tgt = t
    return "{| t_kind := K%s; t_guard := %s; t_prods := [%s]; t_tgt := %d |}" % (
        k, "None" if la is None else "Some %d" % la, "; ".join(coq_prod(x) for x in p), tgt)


def coq_table(name, table):
    rows = []
    for s in sorted(table):
        tests, expected, ret = table[s]
        rows.append("  {| s_id := %d; s_tests := [\n    %s]; s_expected := [%s]; s_err := %d |}" % (
            s, ";\n    ".join(coq_test(t) for t in tests),
            "; ".join("K" + e for e in expected), ret))
    return "Definition %s : list st := [\n%s].\n" % (name, ";\n".join(rows))


HEADER = "(* GENERATED by tools/regen.py from %s -- do not edit *)\nFrom Coq Require Import List NArith.\nImport ListNotations.\nRequire Import Kinds.\n\n"


def emit_table_v(info, source):
    out = [HEADER % source]
    out.append(coq_table("table", info["table"]))
    las = []
    for n in sorted(info["lookaheads"]):
        exp, skip = info["lookaheads"][n]
        las.append("  {| la_id := %d; la_expected := [%s]; la_skip := [%s] |}" % (
            n, "; ".join("K" + k for k in exp), "; ".join("K" + k for k in skip)))
    out.append("Definition lookaheads : list la := [\n%s].\n" % ";\n".join(las))
    out.append("Definition error_cap : nat := %d.\n" % info["error_cap"])
    out.append("Definition start_state : nat := %d.\n" % info["start_state"])
    return "\n".join(out)


# ---------------------------------------------------------------------------
# sibling generated parsers

SIBLINGS = {
    "java": ("java/src/main/java/io/cucumber/gherkin/Parser.java",
             r"^\s*private int matchTokenAt_(\d+)\(", r"^\s*private boolean lookahead_(\d+)\("),
    "go": ("go/parser.go", r"^func \(ctxt \*parseContext\) matchAt(\d+)\(", r"^func \(ctxt \*parseContext\) lookahead(\d+)\("),
    "ruby": ("ruby/lib/gherkin/parser.rb", r"^\s*def match_token_at_state(\d+)\(", r"^\s*def lookahead(\d+)\("),
    "c": ("c/src/parser.c", r"^static int match_token_at_(\d+)\(Token\* token, ParserContext\* context\)\s*\{", r"^static bool lookahead_(\d+)\("),
    "javascript": ("javascript/src/Parser.ts", r"^\s*private matchTokenAt_(\d+)\(", r"^\s*private lookahead_(\d+)\("),
}
KIND_ALT = "|".join(KINDS)
RULE_ALT = "|".join(sorted(RULES, key=len, reverse=True))


def scrape_sibling(lang):
    rel, fn_re, la_re = SIBLINGS[lang]
    path = os.path.join(REPO, rel)
    fn_re = re.compile(fn_re)
    la_re = re.compile(la_re)
    test_re = re.compile(r"\bif\b.*\bmatch_?(%s)\s*\(" % KIND_ALT)
    guard_re = re.compile(r"\bif\b.*\blookahead_?(\d+)\s*\(")
    start_re = re.compile(r"\bstart_?[rR]ule\s*\(.*?(?:RuleType\.|RuleType|Rule_|:)(%s)\s*\)" % RULE_ALT)
    end_re = re.compile(r"\bend_?[rR]ule\s*\(.*?(?:RuleType\.|RuleType|Rule_|:)(%s)\s*\)" % RULE_ALT)
    end_anon_re = re.compile(r"\bendRule\s*\(\s*context\s*\)")
    build_re = re.compile(r"\bbuild\s*\((?:context, )?token\)")
    ret_re = re.compile(r"^\s*return\s+(\d+)(?:, err)?;?\s*}?\s*$")
    exp_re = re.compile(r"expected_?[tT]okens\b.*?=(.*)$")
    states, expected, errret = {}, {}, {}
    cur = None
    open_test = None
    in_tail = False
    for raw in open(path, encoding="utf8"):
        line = raw.rstrip("\n")
        m = fn_re.search(line)
        if m:
            cur = int(m.group(1))
            need(cur not in states, "%s: duplicate state %d" % (lang, cur))
            states[cur] = []
            open_test = None
            in_tail = False
            continue
        if la_re.search(line) or re.match(r"^\s*(private|func|def|static)\b.*\(", line) and cur is not None and not fn_re.search(line):
            if cur is not None and cur in errret:
                cur = None
            elif cur is not None and la_re.search(line):
                cur = None
            if cur is None:
                continue
        if cur is None or cur in errret:
            continue
        if in_tail:
            m = ret_re.match(line)
            if m:
                errret[cur] = int(m.group(1))
            continue
        m = exp_re.search(line)
        if m and "#" in line:
            need(cur not in expected, "%s: state %d two expected lists" % (lang, cur))
            expected[cur] = re.findall(r"#(\w+)", m.group(1))
            need(all(e in KINDS for e in expected[cur]), "%s: state %d expected kinds" % (lang, cur))
            in_tail = True
            continue
        m = test_re.search(line)
        if m:
            open_test = [m.group(1), None, [], None]
            states[cur].append(open_test)
            continue
        m = guard_re.search(line)
        if m:
            need(open_test is not None and open_test[1] is None and not open_test[2], "%s: stray guard in %d" % (lang, cur))
            open_test[1] = int(m.group(1))
            continue
        m = start_re.search(line)
        if m:
            need(open_test is not None and open_test[3] is None, "%s: stray startRule in %d" % (lang, cur))
            open_test[2].append(("S", m.group(1)))
            continue
        m = end_re.search(line)
        if m:
            need(open_test is not None and open_test[3] is None, "%s: stray endRule in %d" % (lang, cur))
            open_test[2].append(("E", m.group(1)))
            continue
        if end_anon_re.search(line):
            need(open_test is not None and open_test[3] is None, "%s: stray endRule in %d" % (lang, cur))
            open_test[2].append(("E", None))
            continue
        if build_re.search(line):
            need(open_test is not None and open_test[3] is None, "%s: stray build in %d" % (lang, cur))
            open_test[2].append(("B",))
            continue
        m = ret_re.match(line)
        if m:
            need(open_test is not None and open_test[3] is None, "%s: stray return in %d" % (lang, cur))
            open_test[3] = int(m.group(1))
            continue
        # every other line inside a state body must be structural noise
        need(re.fullmatch(r"[\s{}()]*|\s*end\s*|\s*(//|#).*|\s*/\*.*\*/\s*|\s*(var|const|let|final String)?\s*state_?[cC]omment.*|\s*token\.detach\(?\)?;?\s*|\s*int new_state;?", line) is not None,
             "%s: unrecognised line in state %d: %r" % (lang, cur, line))
    need(len(states) >= 1, lang + ": no states found")
    table = {}
    for s, tests in states.items():
        need(s in expected and s in errret, "%s: state %d has no error tail" % (lang, s))
        for t in tests:
            need(t[3] is not None, "%s: state %d has a test without return" % (lang, s))
        table[s] = ([tuple([a, b, list(c), d]) for a, b, c, d in tests], expected[s], errret[s])
    return table


def erase_end_names(table):
    out = {}
    for s, (tests, exp, ret) in table.items():
        out[s] = ([(k, la, [("E", None) if p[0] == "E" else p for p in ps], t) for (k, la, ps, t) in tests], exp, ret)
    return out


# ---------------------------------------------------------------------------
# gherkin.berp

def translate_grammar(path):
    rules = {}
    order = []
    header = True
    settings = {}
    for raw in open(path, encoding="utf8"):
        line = raw.strip()
        if header:
            if line == "[":
                continue
            if line == "]":
                header = False
                continue
            m = re.fullmatch(r"(\w+)\s*->\s*(.*)", line)
            need(m is not None, "berp header line " + line)
            settings[m.group(1)] = m.group(2)
            continue
        if not line or line.startswith("//"):
            continue
        m = re.fullmatch(r"(\w+)(!?)\s*(?:\[([^\]]*)\])?\s*:=\s*(.*)", line)
        need(m is not None, "berp rule line " + line)
        name, bang, hint, body = m.group(1), m.group(2) == "!", m.group(3), m.group(4)
        need(name not in rules, "duplicate rule " + name)
        rules[name] = (bang, hint, body)
        order.append(name)
    ignored = [t.strip().lstrip("#") for t in settings.get("IgnoredTokens", "").split(",") if t.strip()]
    need(sorted(ignored) == ["Comment", "Empty"], "IgnoredTokens changed: %r" % ignored)
    toks = [t.strip().lstrip("#") for t in settings.get("Tokens", "").split(",")]
    need(set(toks) | {"EOF", "Other"} == set(KINDS), "Tokens header changed")

    def tokenize(s):
        ts = re.findall(r"#\w+|\w+|[()|*+?]", s)
        need("".join(ts) == re.sub(r"\s+", "", s), "berp body has unknown characters: " + s)
        return ts

    def p_alt(ts):
        items = [p_seq(ts)]
        while ts and ts[0] == "|":
            ts.pop(0)
            items.append(p_seq(ts))
        r = items[-1]
        for x in reversed(items[:-1]):
            r = "(Al %s %s)" % (x, r)
        return r

    def p_seq(ts):
        items = []
        while ts and ts[0] not in ("|", ")"):
            items.append(p_post(ts))
        need(items, "empty sequence")
        r = items[-1]
        for x in reversed(items[:-1]):
            r = "(Sq %s %s)" % (x, r)
        return r

    def p_post(ts):
        t = ts.pop(0)
        if t == "(":
            r = p_alt(ts)
            need(ts and ts.pop(0) == ")", "unbalanced parenthesis")
        elif t.startswith("#"):
            need(t[1:] in KINDS, "unknown token " + t)
            r = "(Tk K%s)" % t[1:]
        else:
            need(t in rules, "unknown rule " + t)
            if rules[t][0]:
                need(t in RULES, "rule %s not in Kinds.v" % t)
                r = "(Rl R%s)" % t
            else:
                r = p_alt(tokenize(rules[t][2]))   # non-! rules are inlined
        while ts and ts[0] in "*+?":
            o = ts.pop(0)
            r = {"*": "(St %s)", "+": "(Sq %s (St %s))", "?": "(Al %s Eps)"}[o].replace("%s", r)
        return r

    bodies = {}
    hints = {}
    for name in order:
        bang, hint, body = rules[name]
        if not bang:
            continue
        ts = tokenize(body)
        bodies[name] = p_alt(ts)
        need(not ts, "trailing tokens in rule " + name)
        if hint:
            m = re.fullmatch(r"\s*((?:#\w+\|)*#\w+)\s*->\s*#(\w+)\s*", hint)
            need(m is not None, "hint of %s: %r" % (name, hint))
            skip = [x.lstrip("#") for x in m.group(1).split("|")]
            need(all(x in KINDS for x in skip) and m.group(2) in KINDS, "hint kinds of " + name)
            hints[name] = (skip, m.group(2))
    need(set(bodies) == set(RULES), "!-rules differ from Kinds.v: %r" % (set(bodies) ^ set(RULES)))
    need(order[0] == "GherkinDocument", "first rule must be GherkinDocument")
    return bodies, hints


def emit_grammar_v(bodies, hints):
    out = [(HEADER % "gherkin.berp").replace("Require Import Kinds.", "Require Import Kinds Regex.")]
    out.append("Definition rule_body (r : rule) : re :=\n  match r with")
    for r in RULES:
        out.append("  | R%s => %s" % (r, bodies[r]))
    out.append("  end.\n")
    out.append("(* look-ahead hints: rule, skipped kinds, expected kind *)")
    out.append("Definition hints : list (rule * (list kind * kind)) := [\n%s]." % ";\n".join(
        "  (R%s, ([%s], K%s))" % (r, "; ".join("K" + k for k in hints[r][0]), hints[r][1]) for r in RULES if r in hints))
    return "\n".join(out) + "\n"


# ---------------------------------------------------------------------------
# dialects

DIALECT_KEYS = ["and", "background", "but", "examples", "feature", "given", "name", "native",
                "rule", "scenario", "scenarioOutline", "then", "when"]
ROLE_KEYS = ["feature", "rule", "background", "scenario", "scenarioOutline", "examples",
             "given", "when", "then", "and", "but"]


def coq_str(s):
    return "[" + ";".join(str(ord(c)) for c in s) + "]"


def translate_dialects(path, name):
    with open(path, encoding="utf8") as f:
        data = json.load(f)
    need(isinstance(data, dict) and data, "dialect table must be a non-empty object")
    out = [(HEADER % os.path.relpath(path, REPO)).replace("Require Import Kinds.", "Require Import Kinds Dialect.")]
    out.append("Local Open Scope N_scope.\n")
    rows = []
    for code in data:     # file order = json.load order = dict order used by the implementation
        d = data[code]
        need(isinstance(d, dict) and set(d) == set(DIALECT_KEYS), "dialect %s keys: %r" % (code, sorted(d)))
        fields = ["d_code := " + coq_str(code)]
        for k in ROLE_KEYS:
            need(isinstance(d[k], list) and all(isinstance(x, str) for x in d[k]), "dialect %s role %s" % (code, k))
            fields.append("d_%s := [%s]" % (k, "; ".join(coq_str(x) for x in d[k])))
        rows.append("  {| " + ";\n     ".join(fields) + " |}")
    out.append("Definition %s : list dialect := [\n%s].\n" % (name, ";\n".join(rows)))
    return "\n".join(out), data


# ---------------------------------------------------------------------------

def regen(verbose=True):
    os.makedirs(GEN, exist_ok=True)
    meta = {"sources": {}, "notes": [], "translation_ok": {}}
    changed = []

    def emit(fname, content):
        if write_if_changed(os.path.join(GEN, fname), content):
            changed.append(fname)

    # parser.py
    ppath = os.path.join(REPO, "python/gherkin/parser.py")
    meta["sources"]["python/gherkin/parser.py"] = sha(ppath)
    try:
        info = translate_parser_py(ppath)
        emit("Table.v", emit_table_v(info, "python/gherkin/parser.py"))
        meta["translation_ok"]["parser.py"] = True
        meta["table_states"] = len(info["table"])
        meta["table_transitions"] = sum(len(v[0]) for v in info["table"].values())
        meta["helper_hash"] = info["helper_hash"]
        pinned = os.path.join(VERIF, "tools", "pinned.json")
        try:
            pin = json.load(open(pinned))
        except FileNotFoundError:
            pin = {}
        meta["helpers_changed"] = pin.get("helper_hash") != info["helper_hash"]
        with open(os.path.join(GEN, "table.json"), "w") as f:
            json.dump({"table": {str(k): v for k, v in info["table"].items()},
                       "lookaheads": {str(k): v for k, v in info["lookaheads"].items()},
                       "error_cap": info["error_cap"], "start_state": info["start_state"]}, f)
    except (TranslationError, SyntaxError) as e:
        meta["translation_ok"]["parser.py"] = False
        meta["notes"].append("parser.py: " + str(e))
        info = None

    # siblings
    sib_src = [(HEADER % "sibling generated parsers")]
    sib_ok = True
    sib_names = []
    for lang in SIBLINGS:
        rel = SIBLINGS[lang][0]
        try:
            meta["sources"][rel] = sha(os.path.join(REPO, rel))
            t = scrape_sibling(lang)
            sib_src.append(coq_table("sibling_" + lang, t).replace("PE RNone", "PE RGherkinDocument"))
            sib_names.append(lang)
            meta["translation_ok"][rel] = True
        except (TranslationError, OSError) as e:
            meta["translation_ok"][rel] = False
            meta["notes"].append("%s: %s" % (lang, e))
            sib_ok = False
    sib_src.append("Definition siblings_named : list (nat * list st) := [%s].\n" % "; ".join(
        "(%d, sibling_%s)" % (i, l) for i, l in enumerate(SIBLINGS) if l in sib_names and l != "javascript"))
    sib_src.append("Definition siblings_anon : list (nat * list st) := [%s].\n" % "; ".join(
        "(%d, sibling_%s)" % (i, l) for i, l in enumerate(SIBLINGS) if l in sib_names and l == "javascript"))
    sib_src.append("Definition siblings_expected : nat := %d.\n" % len(SIBLINGS))
    emit("Siblings.v", "\n".join(sib_src))
    meta["siblings"] = sib_names

    # grammar
    gpath = os.path.join(REPO, "gherkin.berp")
    meta["sources"]["gherkin.berp"] = sha(gpath)
    try:
        bodies, hints = translate_grammar(gpath)
        emit("Grammar.v", emit_grammar_v(bodies, hints))
        meta["translation_ok"]["gherkin.berp"] = True
    except TranslationError as e:
        meta["translation_ok"]["gherkin.berp"] = False
        meta["notes"].append("gherkin.berp: " + str(e))

    # dialects
    for rel, name, fname in (("gherkin-languages.json", "dialects_master", "DialectsMaster.v"),
                             ("python/gherkin/gherkin-languages.json", "dialects", "Dialects.v")):
        p = os.path.join(REPO, rel)
        meta["sources"][rel] = sha(p)
        try:
            content, data = translate_dialects(p, name)
            emit(fname, content)
            meta["translation_ok"][rel] = True
            meta["dialect_count_" + name] = len(data)
            meta["keyword_count_" + name] = sum(len(d[k]) for d in data.values() for k in ROLE_KEYS)
        except (TranslationError, ValueError, OSError) as e:
            meta["translation_ok"][rel] = False
            meta["notes"].append("%s: %s" % (rel, e))
    meta["json_bytes_equal"] = (meta["sources"].get("gherkin-languages.json")
                                == meta["sources"].get("python/gherkin/gherkin-languages.json"))
    meta["changed"] = changed
    with open(os.path.join(GEN, "meta.json"), "w") as f:
        json.dump(meta, f, indent=1, sort_keys=True)
    if verbose:
        print("regen: changed=%s ok=%s" % (changed, all(meta["translation_ok"].values())))
        for n in meta["notes"]:
            print("regen: NOTE " + n)
    return meta


if __name__ == "__main__":
    if "--pin" in sys.argv:
        info = translate_parser_py(os.path.join(REPO, "python/gherkin/parser.py"))
        with open(os.path.join(VERIF, "tools", "pinned.json"), "w") as f:
            json.dump({"helper_hash": info["helper_hash"]}, f)
        print("pinned", info["helper_hash"])
    m = regen()
    sys.exit(0 if all(m["translation_ok"].values()) else 3)
