"""Registry: for each property, its correspondence streams (projection of model
vs implementation on the observables the property talks about), its direct
relational oracles on the implementation, its search and its evidence texts."""
from __future__ import annotations

import copy
import json
import os
import time

import gen_docs
import streams as S
from corr import Corr, canon, differential, rng, run_impl_batch, shrink_text
from model import run_model

# ----------------------------------------------------------------------------
# projections of parse results


def walk(v, f, path=()):
    if isinstance(v, dict):
        for k, x in v.items():
            f(path, k, x)
            walk(x, f, path + (k,))
    elif isinstance(v, list):
        for i, x in enumerate(v):
            walk(x, f, path + (i,))


def erase(v, keys):
    if isinstance(v, dict):
        return {k: erase(x, keys) for k, x in v.items() if k not in keys}
    if isinstance(v, list):
        return [erase(x, keys) for x in v]
    return v


def collect(v, key):
    out = []
    walk(v, lambda p, k, x: out.append(x) if k == key else None)
    return out


def outcome(r):
    for k in ("ok", "errors", "error", "foreign", "crash", "outoffuel", "nosuchlanguage", "model_error"):
        if k in r:
            return k
    return "?"


def p_outcome(r, req=None):
    o = outcome(r)
    out = {"outcome": o}
    if o == "errors":
        out["n"] = len(r["errors"])
    if o == "foreign":
        out["type"] = r["foreign"]
    return out


def p_c01(r, req=None):
    out = p_outcome(r)
    out["calls"] = r.get("calls")
    if "errors" in r:
        out["types"] = [e["type"] for e in r["errors"]]
        out["lines"] = [e["location"].get("line") for e in r["errors"]]
    if "error" in r:
        out["types"] = [r["error"]["type"]]
        out["lines"] = [r["error"]["location"].get("line")]
    return out


def p_ast_text(r, req=None):
    """C03: the AST with locations and ids erased (rejections: only the fact)."""
    if "ok" in r:
        return {"ok": erase(r["ok"], ("location", "id"))}
    return {"outcome": outcome(r)}


def p_locations(r, req=None):
    """C04: every location of the AST / of the errors, with its path."""
    if "ok" in r:
        out = []
        walk(r["ok"], lambda p, k, x: out.append([list(map(str, p)), x]) if k == "location" else None)
        return {"ok": out}
    if "errors" in r:
        return {"errors": [e["location"] for e in r["errors"]]}
    if "error" in r:
        return {"error": r["error"]["location"]}
    return {"outcome": outcome(r)}


def p_keywords(r, req=None):
    """C05: keyword / keywordType / language fields in document order."""
    if "ok" in r:
        out = []
        walk(r["ok"], lambda p, k, x: out.append([k, x]) if k in ("keyword", "keywordType", "language") else None)
        return {"ok": out}
    if "errors" in r:
        return {"errors": [[e["type"], e["location"]] for e in r["errors"] if e["type"] == "NoSuchLanguageException"]}
    return {"outcome": outcome(r)}


def p_ids(r, req=None):
    """C11: every id in document order, and the counter afterwards."""
    if "ok" in r:
        out = []
        walk(r["ok"], lambda p, k, x: out.append(x) if k == "id" else None)
        return {"ids": out, "idc": r.get("idc")}
    return {"outcome": outcome(r), "idc": r.get("idc")}


def p_cells(r, req=None):
    """C12: cell values of every table; ragged-table errors."""
    if "ok" in r:
        out = []
        walk(r["ok"], lambda p, k, x: out.append([c["value"] for c in x]) if k == "cells" else None)
        return {"ok": out}
    if "errors" in r:
        return {"ragged": [e["location"] for e in r["errors"] if e["type"] == "AstBuilderException"], "rejected": True}
    if "error" in r:
        return {"ragged": [r["error"]["location"]] if r["error"]["type"] == "AstBuilderException" else [], "rejected": True}
    return {"outcome": outcome(r)}


def p_docstrings(r, req=None):
    """C13: every step with a doc string: the doc string and the text of the step after it."""
    if "ok" in r:
        out = []

        def f(p, k, x):
            if k == "steps":
                for i, st in enumerate(x):
                    if "docString" in st:
                        nxt = x[i + 1]["text"] if i + 1 < len(x) else None
                        out.append([erase(st["docString"], ("location",)), nxt])
        walk(r["ok"], f)
        return {"ok": out, "matcher": {k: r["matcher"][k] for k in ("separator", "indent")}}
    return {"outcome": outcome(r)}


def p_errors(r, req=None):
    """C14: the error list (location, message) or the stop-mode error; acceptance otherwise."""
    if "errors" in r:
        return {"errors": [[e["location"], e["message"]] for e in r["errors"]]}
    if "error" in r:
        return {"error": [r["error"]["location"], r["error"]["message"]]}
    return {"outcome": outcome(r)}


def p_tags_ast(r, req=None):
    if "ok" in r:
        out = []
        walk(r["ok"], lambda p, k, x: out.append([t["name"] for t in x]) if k == "tags" else None)
        return {"ok": out}
    return {"outcome": outcome(r)}


def p_whole(r, req=None):
    r = dict(r)
    r.pop("calls", None)
    return r


# ----------------------------------------------------------------------------
# generic stream builders


def parse_requests(sources, modes=(False,), dialect="en"):
    return [("parse", [m, dialect, s]) for s in sources for m in modes]


def classify_parse(req, r):
    out = [outcome(r)]
    if "errors" in r:
        out += ["err:" + e["type"] for e in r["errors"]]
        out.append("nerr:%d" % len(r["errors"]))
    n = req[1][2].count("\n")
    out.append("lines:<10" if n < 10 else "lines:<40" if n < 40 else "lines:>=40")
    return out


def e2e(name, sources, proj, modes=(False,), nontrivial=None, exhaustive=False):
    reqs = parse_requests(sources, modes)
    return differential(name, reqs, proj=proj, nontrivial=nontrivial or (lambda q, r: None),
                        classify=classify_parse, exhaustive=exhaustive)


def nt_accepted(tag):
    def f(req, r):
        return (tag, req[1][2]) if "ok" in r and r["ok"].get("feature") else None
    return f


def nt_rejected(req, r):
    return ("rej", req[1][2]) if ("errors" in r or "error" in r) else None


def corpus_sources():
    return [s for _, _, s in S.corpus()]


def regression_stream(pid, proj_by_fn=None):
    reqs = S.regressions(pid)
    if not reqs:
        return []
    c = differential("regressions", reqs, proj=None)
    return [c]


def std_e2e(pid, proj, ngen=(300, 6000), nmut=(300, 6000), modes=(False,), nontrivial=None, mut_modes=None):
    """corpus + generated + mutated documents compared under one projection."""
    def run(ctx):
        out = []
        out.append(e2e("corpus", corpus_sources(), proj, modes=(False, True), nontrivial=nontrivial))
        gs = [s for s, _ in S.gen_sources(S.n_for(*ngen), salt=pid + "/gen")]
        out.append(e2e("generated", gs, proj, modes=modes, nontrivial=nontrivial))
        ms = S.mutated_sources(S.n_for(*nmut), salt=pid + "/mut")
        out.append(e2e("malformed", ms, proj, modes=mut_modes or modes, nontrivial=nontrivial))
        return out
    run.__name__ = "e2e_" + pid
    return run


# ----------------------------------------------------------------------------
# compile streams: impl parse -> AST dict -> compile on both sides


def parsed_docs(sources):
    res = run_impl_batch(parse_requests(sources))
    return [(s, r["ok"]) for s, r in zip(sources, res) if "ok" in r and r["ok"].get("feature")]


def rnd_ast(r, idbase=0):
    """AST dictionaries generated directly (including shapes the parser cannot
    produce: ragged example rows are excluded, everything else is free)."""
    ids = [idbase]

    def nid():
        ids[0] += 1
        return str(ids[0] - 1)
    loc = {"line": 1, "column": 1}
    W = ["a", "<h>", "<g>", "x<h>y", "<h><h>", "<x>", "", "\\1", "$1", "<", ">", "<<h>>", "é😀", "<h", "h>"]

    def tags(n):
        # names are carried over as they are: other front ends (the Markdown tag matcher, other implementations' ASTs)
        # produce names with blanks around or inside them
        return [{"id": nid(), "location": loc, "name": r.choice(["@a", "@b", "@c", "@d", "@a", "@b", "@smoke ", " @x", "@a b", "@", "@ \t", "@é "])} for _ in range(n)]

    def step():
        kt = r.choice(["Unknown", "Context", "Action", "Outcome", "Conjunction"])
        st = {"location": loc, "keyword": "K ", "keywordType": kt, "text": " ".join(r.choice(W) for _ in range(r.randint(0, 3)))}
        a = r.random()
        if a < 0.2:
            rows = [{"id": nid(), "location": loc, "cells": [{"location": loc, "value": r.choice(W)} for _ in range(r.randint(0, 3))]}
                    for _ in range(r.randint(0, 2))]
            st["dataTable"] = {"location": loc, "rows": rows}
        elif a < 0.4:
            ds = {"location": loc, "content": "\n".join(r.choice(W) for _ in range(r.randint(0, 3))), "delimiter": '"""'}
            if r.random() < 0.5:
                ds["mediaType"] = r.choice(["json", "<h>", "x<g>"])
            st["docString"] = ds
        st["id"] = nid()
        return st

    def steps(lo=0, hi=3):
        return [step() for _ in range(r.randint(lo, hi))]

    def background():
        return {"id": nid(), "location": loc, "keyword": "Background", "name": "", "description": "", "steps": steps()}

    memo = {}

    def examples():
        ncol = r.randint(0, 3)
        hdr = r.sample(["h", "g", "x<h>", "h>", "a(b", ".", "h|g"], ncol)
        if "rows" in memo and r.random() < 0.3:
            # the same row values under different / reordered headers (stale-cache bait)
            ncol = len(memo["hdr"])
            hdr = list(reversed(memo["hdr"])) if r.random() < 0.5 else r.sample(["h", "g", "x<h>", "h>", "a(b", ".", "h|g"], ncol)
        ex = {"tags": tags(r.choice([0, 0, 1, 2])), "location": loc, "keyword": "Examples", "name": "", "description": ""}
        if r.random() < 0.85:
            ex["tableHeader"] = {"id": nid(), "location": loc, "cells": [{"location": loc, "value": h} for h in hdr]}
            if "rows" in memo and len(memo["hdr"]) == len(hdr) and r.random() < 0.8:
                vals = memo["rows"]
            else:
                vals = [[r.choice(W) for _ in hdr] for _ in range(r.randint(0, 3))]
                memo["hdr"], memo["rows"] = hdr, vals
            ex["tableBody"] = [{"id": nid(), "location": loc, "cells": [{"location": loc, "value": v} for v in row]} for row in vals]
        else:
            ex["tableBody"] = []
        ex["id"] = nid()
        return ex

    def scenario():
        sc = {"tags": tags(r.choice([0, 0, 1, 2])), "location": loc, "keyword": "Scenario",
              "name": " ".join(r.choice(W) for _ in range(r.randint(0, 2))), "description": "", "steps": steps(),
              "examples": [examples() for _ in range(r.choice([0, 0, 1, 2, 3]))]}
        sc["id"] = nid()
        return sc

    def rule():
        ch = []
        if r.random() < 0.6:
            ch.append({"background": background()})
        ch += [{"scenario": scenario()} for _ in range(r.randint(0, 2))]
        # a background after scenarios: a shape the parser cannot produce
        if r.random() < 0.1:
            ch.append({"background": background()})
            ch.append({"scenario": scenario()})
        ru = {"tags": tags(r.choice([0, 1, 2])), "location": loc, "keyword": "Rule", "name": "", "description": "", "children": ch}
        ru["id"] = nid()
        return ru

    ch = []
    if r.random() < 0.6:
        ch.append({"background": background()})
    ch += [{"scenario": scenario()} for _ in range(r.randint(0, 2))]
    ch += [{"rule": rule()} for _ in range(r.choice([0, 1, 2, 3]))]
    if r.random() < 0.15:
        ch.append({"scenario": scenario()})
    f = {"tags": tags(r.choice([0, 1, 2])), "location": loc, "language": r.choice(["en", "fr"]), "keyword": "Feature",
         "name": "", "description": "", "children": ch}
    return {"feature": f, "comments": []}, ids[0]


def compile_requests(pid, nparsed, nrandom):
    r = rng(pid + "/ast")
    reqs = []
    srcs = corpus_sources() + [s for s, _ in S.gen_sources(nparsed, salt=pid + "/cdocs")]
    for i, (s, d) in enumerate(parsed_docs(srcs)):
        nids = len(collect(d, "id"))
        reqs.append(("compile", ["uri%d" % (i % 3), d, nids]))
    for i in range(nrandom):
        d, n = rnd_ast(r)
        reqs.append(("compile", ["u", d, n + r.choice([0, 0, 5])]))
    return reqs


def pickles_of(r):
    return r.get("pickles") if isinstance(r, dict) else None


def compile_stream(pid, proj, nontrivial, nparsed=(300, 5000), nrandom=(600, 20000)):
    def run(ctx):
        reqs = S.regressions(pid + "c") + compile_requests(pid, S.n_for(*nparsed), S.n_for(*nrandom))

        def classify(req, r):
            ps = pickles_of(r)
            if ps is None:
                return [outcome(r)]
            return ["pickles:%s" % ("0" if not ps else "1-3" if len(ps) < 4 else ">=4")]
        return differential("compile", reqs, proj=proj, nontrivial=nontrivial, classify=classify)
    run.__name__ = "compile_" + pid
    return run


def pj_pickles(f):
    def proj(r, req=None):
        ps = pickles_of(r)
        if ps is None:
            return {"outcome": outcome(r)}
        return [f(p) for p in ps]
    return proj


# ----------------------------------------------------------------------------
# unit-level streams


def unit_table_cells(ctx):
    alpha = ["|", "\\", "n", " ", "a"]
    n = S.n_for(7, 8)
    reqs = [("table_cells", ["|" + w]) for w in S.words(alpha, n)]
    # every row string, not only those that begin with '|': whatever precedes the first '|' is ignored
    reqs += [("table_cells", [w]) for w in S.words(alpha, n - 2)]
    r = rng("cells")
    exotic = ["\t", "\xa0", " ", "　", "😀", "\x0b", "\x1c", "\x85", "é", "\r"]
    for _ in range(S.n_for(3000, 60000)):
        k = r.randint(1, 12)
        reqs.append(("table_cells", [r.choice(["", " ", "\t ", "", "x", "a b ", "\\", "n\\\\", "é "]) + "|" + "".join(r.choice(alpha + exotic) for _ in range(k)) + r.choice(["", "\n", "\r\n", " \n"])]))
    c = differential("table_cells", reqs, nontrivial=lambda q, r: q[1][0] if isinstance(r, list) and len(r) >= 1 else None,
                     classify=lambda q, r: "cells:%d" % len(r) if isinstance(r, list) else "foreign")
    c.exhaustive = False
    c.dist["exhaustive_prefix"] = "all rows '|'+w, w over {|,\\,n,blank,a} up to length %d" % n
    return c


def unit_tags(ctx):
    alpha = ["@", "#", " ", "\t", "a", "😀"]
    n = S.n_for(6, 7)
    reqs = [("tags", ["@" + w]) for w in S.words(alpha, n)]
    reqs += [("tags", [" " + "@" + w]) for w in S.words(alpha, n - 2)]
    return differential("tags", reqs, nontrivial=lambda q, r: q[1][0] if isinstance(r, dict) and r.get("ok") else None,
                        classify=lambda q, r: "ok" if isinstance(r, dict) and "ok" in r else "error" if isinstance(r, dict) and "error" in r else "foreign")


def keyword_line(role, k, layout):
    ws, rest = layout
    if role in S.TITLE_ROLES:
        return ws + k + ":" + rest
    return ws + k + rest


def unit_keywords(ctx):
    """every (dialect, role, keyword) x layouts through TokenMatcher.match_<role kind>"""
    layouts = [("", " some title  \n"), ("  \t", "x\n"), ("　 ", ""), ("", "\r\n")]
    reqs = []
    for code, role, k in S.all_keywords():
        kind = S.ROLE_KIND.get(role, "StepLine")
        for lay in layouts:
            reqs.append(("match", [kind, S.mstate(code), keyword_line(role, k, lay), 3]))
        # as a header-selected dialect under default en
        reqs.append(("match", [kind, S.mstate("en", code), keyword_line(role, k, layouts[0]), 1]))
        # the same line under every other role's test must agree too (foreign / clash behaviour)
        for other in ("FeatureLine", "ScenarioLine", "StepLine", "Other", "Comment", "TagLine", "TableRow", "Empty", "DocStringSeparator"):
            if other != kind:
                reqs.append(("match", [other, S.mstate(code), keyword_line(role, k, layouts[0]), 1]))
    c = differential("keywords", reqs, nontrivial=lambda q, r: (q[1][1]["dialect"], q[1][2]) if r.get("ans") else None,
                     classify=lambda q, r: "ans:%s" % r.get("ans"), exhaustive=True)
    return c


def unit_foreign(ctx):
    """keywords of one dialect offered to another dialect's matcher"""
    r = rng("foreign")
    kws = S.all_keywords()
    codes = sorted(S.dialects())
    reqs = []
    for _ in range(S.n_for(4000, 60000)):
        code, role, k = r.choice(kws)
        other = r.choice(codes)
        kind = r.choice(["FeatureLine", "RuleLine", "BackgroundLine", "ScenarioLine", "ExamplesLine", "StepLine"])
        reqs.append(("match", [kind, S.mstate(other), keyword_line(role, k, ("", " t\n")), 1]))
    return differential("foreign", reqs, nontrivial=lambda q, r: (q[1][0], q[1][1]["dialect"], q[1][2]),
                        classify=lambda q, r: "ans:%s" % r.get("ans"))


def unit_language(ctx):
    parts = ["#", " ", "language", ":", "fr", "en", "no-such", "x", "\t", "\n", "Language", "_", "-", "é", "　",
             "\u017f", "\u212a", "\u0131", "\u0130", "\u017fk", "\u212a"]      # letters that Unicode case folding maps onto ASCII ones
    r = rng("lang")
    reqs = []
    for spelled in ["#language:fr", "# language : fr ", "  #language: en-tx\n", "#language:", "#language: fr x", "# language: a_b-C",
                    "#  language:\tfr\r\n", "#language: fr#", "#Language: fr", "# language: no-such", "    # language: no-such  ",
                    "#language:fr\n\n", "　#language: ja", "#language: em", "#language: en2", "# language: v2", "# language: français", "#language: en_",
                    "# language: é", "#language: 2", "# language: fr2 ", "#language: en.", "# language: sr-Cyrl", "# language: SR-cyrl", "#language: EN",
                    "# language: \u017fk", "# language: \u212a", "#language: p\u0131", "# language: \u0130t", "# language: en\u017f", "# \u017fanguage: en"]:
        for kind in ("Language", "Comment"):
            reqs.append(("match", [kind, S.mstate("en"), spelled, 2]))
    for _ in range(S.n_for(3000, 50000)):
        line = "".join(r.choice(parts) for _ in range(r.randint(1, 8)))
        reqs.append(("match", ["Language", S.mstate(r.choice(["en", "fr"])), line, r.randint(1, 5)]))
    return differential("language-header", reqs, nontrivial=lambda q, r: q[1][2] if r.get("ans") or r.get("raise") else None,
                        classify=lambda q, r: "raise" if "raise" in r else "ans:%s" % r.get("ans"))


def unit_match_lines(ctx):
    """every match_* on every kind of line, in several matcher states"""
    lines = gen_docs.KIND_LINES + ['  """json', "```", '   \\"\\"\\"', "\\`\\`\\`", "  text", "\ttext", "@a #c", "@a#b", "@a @", "|a|b|\n",
                                   "Given  x \r\n", "* y", "Rule : no", "Scenario Template: t", "Ejemplos: x", "#\n", " \n", "\n"]
    states = [S.mstate("en"), S.mstate("en", "fr"), S.mstate("en", separator='"""', indent=2), S.mstate("en", separator="```", indent=0),
              S.mstate("fr", separator='"""', indent=5)]
    reqs = [("match", [k, m, (pad + l), 7]) for k in S.KINDS for m in states for l in lines for pad in ("", "   ")]
    return differential("match-lines", reqs, nontrivial=lambda q, r: (q[1][0], q[1][2]) if r.get("ans") else None,
                        classify=lambda q, r: q[1][0] + (":yes" if r.get("ans") else ":raise" if "raise" in r else ":no"), exhaustive=True)


def unit_interpolate(ctx):
    sigma = ["<", ">", "a", "b", ".", "\\", "(", "$", "|", "*"]
    values = ["v", "", "\\1", "\\g<0>", "$1", "\\", "<a>", "&", "<b>", "a"]
    hl = S.n_for(2, 2)
    tl = S.n_for(4, 5)
    reqs = []
    headers = [h for h in S.words(sigma, hl, 1)]
    templates = list(S.words(sigma[:7], tl))
    r = rng("interp")
    for t in templates:
        h = r.choice(headers)
        reqs.append(("interpolate", [t, [h], [r.choice(values)]]))
        reqs.append(("interpolate", ["<" + h + ">" + t, [h, r.choice(headers)], [r.choice(values), r.choice(values)]]))
    for h in headers:
        for v in values:
            reqs.append(("interpolate", ["x<" + h + "><" + h + "y<" + h + ">>", [h], [v]]))
    # one template, one value, every header in turn (a long-lived Compiler must not remember earlier headers)
    tall = " ".join("<" + h + ">" for h in headers[:40])
    for h in headers[:40]:
        reqs.append(("interpolate", [tall, [h], ["v"]]))
        reqs.append(("interpolate", [tall, [h, "zz"], ["v", "w"]]))
        reqs.append(("interpolate", [tall, ["zz", h], ["v", "w"]]))
    uni = ["😀", "é", "\n", "<", ">", "h", " ", "\\", "　"]
    for _ in range(S.n_for(2000, 40000)):
        hs = ["".join(r.choice(uni) for _ in range(r.randint(1, 3))) for _ in range(r.randint(0, 3))]
        vs = ["".join(r.choice(uni + values) for _ in range(r.randint(0, 3))) for _ in hs]
        t = "".join(r.choice(uni + ["<" + h + ">" for h in hs]) for _ in range(r.randint(0, 8)))
        reqs.append(("interpolate", [t, hs, vs]))
    return differential("interpolate", reqs,
                        nontrivial=lambda q, r: tuple(map(str, q[1])) if isinstance(r, dict) and r.get("ok") != q[1][0] else None,
                        classify=lambda q, r: "changed" if isinstance(r, dict) and r.get("ok") != q[1][0] else "unchanged")


# ----------------------------------------------------------------------------
# kind-level streams (real Parser with stub scanner/matcher/builder vs the Coq interpreter)


def p_stub(r, req=None):
    """drop the model's ghost 'unexpected' events (the implementation's recording builder cannot see them;
    the same information is compared through the error list)"""
    if isinstance(r, dict) and "events" in r:
        r = dict(r)
        r["events"] = [e for e in r["events"] if e[0] != "X"]
    return r


def stub_sequences(ctx):
    L = S.n_for(4, 5)
    reqs = [("stub_run", [False, w]) for w in S.kind_sequences(L)]
    reqs += [("stub_run", [True, w]) for w in S.kind_sequences(min(L, 3))]
    c = differential("stub-sequences", reqs, proj=p_stub, nontrivial=lambda q, r: tuple(q[1][1]) if "ok" in r else None,
                     classify=lambda q, r: outcome({k: v for k, v in r.items() if k in ("ok", "raisec", "raise1", "crash")}) if "ok" in r else
                     ("raisec" if "raisec" in r else "raise1" if "raise1" in r else "crash"), exhaustive=True)
    return c


def stub_probe(ctx):
    """Parser.match_token for every state x token kind x look-ahead context"""
    rests = [[], ["ScenarioLine"], ["ExamplesLine"], ["RuleLine"], ["Other"], ["TagLine", "ScenarioLine"], ["Comment", "Empty", "ExamplesLine"],
             ["TagLine", "Comment", "TagLine", "RuleLine"], ["Empty", "Empty"], ["TagLine"], ["Comment", "StepLine"], ["TagLine", "TagLine", "ExamplesLine", "Other"]]
    states = list(range(0, 43))
    reqs = [("stub_match_token", [stop, s, k, rest]) for s in states for k in S.KINDS for rest in rests for stop in (False, True)]
    return differential("match_token-probe", reqs, proj=p_stub, nontrivial=lambda q, r: (q[1][1], q[1][2]) if "ok" in r else None,
                        classify=lambda q, r: "ok" if "ok" in r else "raise1" if "raise1" in r else "crash" if "crash" in r else "other", exhaustive=True)


def stub_text(ctx):
    """kind sequences concretised as real text: acceptance through the whole pipeline"""
    L = S.n_for(3, 4)
    srcs = []
    for w in S.kind_sequences(L):
        srcs.append("\n".join(S.CANON[k] for k in w) + ("\n" if w else ""))
    return e2e("kind-sequences-as-text", srcs, p_errors, exhaustive=True, nontrivial=lambda q, r: q[1][2] if "ok" in r else None)


# ----------------------------------------------------------------------------
# direct oracles on the implementation (relational properties)


def oracle(name, items, check, describe=lambda x: x):
    """items: inputs; check(item) -> None or a failure dict"""
    t0 = time.time()
    c = Corr(name)
    for it in items:
        c.evaluations += 1
        try:
            bad = check(it)
        except Exception as e:  # noqa
            bad = {"what": "oracle raised %r" % (e,)}
        if bad:
            c.disagreements.append(dict(bad, input=describe(it)))
        else:
            c.nontrivial.add(canon(describe(it))[:200])
    c.samples = [{"input": describe(x)} for x in items[:2]]
    c.wall = time.time() - t0
    return c


def impl_mod():
    import impl
    return impl


def o_k1(ctx):
    """K1 (known finding): source text naming an existing path is opened as a file"""
    impl = impl_mod()
    c = Corr("known-K1")
    c.evaluations = 1
    try:
        impl.Parser().parse("/")
    except (IsADirectoryError, PermissionError, OSError):
        c.disagreements.append({"known_key": "source-text-names-existing-path", "what": "Parser().parse('/') raised an OS error"})
    except Exception:  # noqa
        pass
    c.samples = [{"input": "/"}]
    return c


def o_exception_types(ctx):
    """C01: only the library's errors escape, from parse / compile / enum, on hostile text"""
    impl = impl_mod()
    r = rng("c01")
    alphabet = ["\n", "\r", " ", "\t", "|", "\\", "@", "#", '"""', "```", ":", "Feature", "Scenario", "Examples", "Given ", "*", "<", ">", "\x00",
                "\ud800", "\U0010ffff", " ", "\x85", "\x0c", "language", "Rule", "Background", "a", "é"]
    items = ["".join(r.choice(alphabet) for _ in range(r.randint(0, 40))) for _ in range(S.n_for(1500, 40000))]
    items += S.mutated_sources(S.n_for(300, 5000), salt="c01/mut")
    # depth: thousands of lines of one kind in a row (blank lines inside a description, description lines, steps, rows,
    # doc-string lines, comments, tag lines, scenarios, rules) -- nothing may recurse once per line
    for n in (1500, 6000):
        items += ["Feature: f\n  text\n" + "\n" * n + "  Scenario: s\n    Given g\n" + "   \n" * n,
                  "Feature: f\n" + "  line\n" * n + "  Scenario: s\n    d\n" + "\n" * n + "    Given g\n",
                  "Feature: f\n  Scenario: s\n" + "    Given g\n" * n, "Feature: f\n  Scenario: s\n    Given g\n" + "      | a |\n" * n,
                  "Feature: f\n  Scenario: s\n    Given g\n      \"\"\"\n" + "\n" * n + "      x\n" * n + "      \"\"\"\n",
                  "Feature: f\n" + "# c\n" * n + "@t\n" * n + "Scenario: s\n", "Feature: f\n" + "  Scenario: s\n    Given g\n" * n, "Feature: f\n" + "  Rule: r\n    Example: e\n      Given g\n" * n,
                  "Feature: f\n  Scenario Outline: o\n    Given <a>\n" + "    Examples:\n      | a |\n      | 1 |\n" * n]

    def check(src):
        for stop in (False, True):
            res = impl.parse(stop, "en", src)
            if "foreign" in res:
                return {"what": "foreign exception %s from Parser.parse (stop=%s): %s" % (res["foreign"], stop, res.get("text"))}
            if "errors" in res and not (1 <= len(res["errors"]) <= 11):
                return {"what": "%d errors in one CompositeParserException" % len(res["errors"])}
            for e in res.get("errors", []) + ([res["error"]] if "error" in res else []):
                if not isinstance(e["location"].get("line"), int):
                    return {"what": "error without line: %r" % (e,)}
            if "ok" in res:
                cres = impl.compile_doc("u", res["ok"], res["idc"])
                if "pickles" not in cres:
                    return {"what": "Compiler.compile failed on a parser-produced document: %r" % (cres,)}
        ev = impl.events(True, True, True, False, [["u", src]])
        if "envelopes" not in ev:
            return {"what": "GherkinEvents.enum raised: %r" % (ev,)}
        for env in ev["envelopes"]:
            if list(env) not in (["source"], ["gherkinDocument"], ["pickle"], ["parseError"]):
                return {"what": "unexpected envelope kind %r" % list(env)}
        return None
    return oracle("exception-types", items, check)


def o_linear(ctx):
    """C01: match calls per line stay bounded on long documents"""
    impl = impl_mod()
    sizes = [100, 1000] + ([10000, 50000] if S.n_for(0, 1) else [5000])
    shapes = {
        "tagrun": lambda n: "Feature: f\nScenario: s\n" + "@t\n# c\n\n" * (n // 3) + "Scenario: z\nGiven x\n",
        "steps": lambda n: "Feature: f\nScenario: s\n" + "Given x\n" * n,
        "errors": lambda n: "Feature: f\n" + "".join("| r%d |\n" % i for i in range(n)),
        "docstring": lambda n: 'Feature: f\nScenario: s\nGiven x\n"""\n' + "@t\n" * n,
        "tagrun-noexit": lambda n: "Feature: f\nScenario: s\n" + "@t\n" * n,
    }
    items = [(k, n) for k in shapes for n in sizes]

    def check(it):
        k, n = it
        src = shapes[k](n)
        res = impl.parse(False, "en", src)
        if "foreign" in res:
            return {"what": "foreign exception %s" % res["foreign"]}
        nlines = src.count("\n") + 1
        if res["calls"] > 20 * (nlines + 1):
            return {"what": "%d match calls for %d lines (bound 20/line)" % (res["calls"], nlines)}
        return None
    return oracle("linear-match-calls", items, check, describe=lambda it: list(it))


def o_no_hang(ctx):
    """C01 "nothing hangs", the part outside the model: the regular expressions and string scans the matcher runs on
    one line take time polynomial in the line -- long runs of one character class followed by a stray character
    (the shape that makes an ambiguous pattern backtrack) are parsed in a child process under a time limit"""
    import subprocess
    import sys as _sys
    from common import PYDIR
    ns = (40, 400, 4000) if S.n_for(0, 1) == 0 else (40, 400, 4000, 40000)
    runs = ["a", "Z", "ab-", "a_", "-", "_", " ", "\t", "\xa0", "#", "@", "|", "\\", "\\n", "<", ">", ":", "*", '"', "`", "é"]
    srcs = []
    for n in ns:
        for r_ in runs:
            body = r_ * n
            srcs.append("# language: " + body + " 1\nFeature: f\n")
            srcs.append("#language:" + body + "\nFeature: f\n")
            srcs.append("Feature: f\n  @t" + body + " #c\n  Scenario: s\n    Given g\n      | " + body + " |\n      |" + body + "x|\n")
            srcs.append("Feature: f\n  " + body + "x\n  Scenario: s " + body + "\n    Given " + body + "\n      \"\"\"" + body + "\n      " + body + "\n      \"\"\"\n")
            srcs.append("Feature: f\n  Scenario Outline: <" + body + ">\n    Given <" + body + ">\n    Examples:\n      | " + body + " |\n      | v |\n")
    # substitution is one pass: cells that mention their own or each other's placeholder are data, not a recursion
    for cells in (("t", "Hello <t>"), ("t", "<t>"), ("t", "<t><t>"), ("a | b", "<b> | <a>"), ("a | b", "x<a>y<b> | <b><a><b>"), ("a", "<<a>>")):
        srcs.append("Feature: f\n  Scenario Outline: o <%s>\n    Given the <%s> step\n      | <%s> |\n    And doc\n      \"\"\"\n      <%s>\n      \"\"\"\n    Examples:\n      | %s |\n      | %s |\n"
                    % ((cells[0].split(" | ")[0],) * 4 + cells))
    script = ("import sys, json\nsys.path.insert(0, %r)\nfrom gherkin.stream.gherkin_events import GherkinEvents\n"
              "docs = json.load(sys.stdin)\n"
              "import time\n"
              "for i, d in enumerate(docs):\n"
              "    print(i, time.time(), flush=True)\n"
              "    ge = GherkinEvents(GherkinEvents.Options(print_source=False, print_ast=True, print_pickles=True))\n"
              "    list(ge.enum({'source': {'uri': 'u', 'data': d, 'mediaType': 'text/x.cucumber.gherkin+plain'}}))\n"
              "print('done', flush=True)\n") % PYDIR
    import time as _time
    c = Corr("no-hang")
    c.exhaustive = False

    def run_batch(idxs, limit):
        """-> (index of the document that did not finish or None, seconds per finished document or None if none finished)"""
        try:
            p = subprocess.run([_sys.executable, "-c", script], input=json.dumps([srcs[k] for k in idxs]), capture_output=True, text=True, timeout=limit)
            out = p.stdout.split()
        except subprocess.TimeoutExpired as e:
            out = (e.stdout.decode() if isinstance(e.stdout, bytes) else (e.stdout or "")).split()
        if out and out[-1] == "done":
            return None, None
        marks = [(int(out[k]), float(out[k + 1])) for k in range(0, len(out) - 1, 2) if out[k].isdigit()]
        if not marks:
            return 0, None
        stuck = marks[-1][0]
        per = (marks[-1][1] - marks[0][1]) / stuck if stuck > 0 else None
        return stuck, per

    # a time limit alone would make a slow or busy machine look like a hang: a document that does not finish within the batch's
    # limit is run again on its own, with a limit scaled by what the other documents took on this machine just now
    hung, err = None, ""
    todo = list(range(len(srcs)))
    limit = 60 + 0.02 * len(srcs)
    for _round in range(6):
        stuck, per = run_batch(todo, limit)
        if stuck is None:
            break
        suspect = todo[stuck]
        alone_limit = min(300.0, max(90.0, 4000 * (per if per is not None else 0.05)))
        s2, _ = run_batch([suspect], alone_limit)
        if s2 is not None:
            hung, err = suspect, "no result within %d s on its own (other documents: %s s each)" % (alone_limit, "%.3f" % per if per is not None else "?")
            break
        todo = todo[stuck + 1:]
        limit = limit * 3
        if not todo:
            break
    c.evaluations = len(srcs)
    c.nontrivial = set(srcs if hung is None else srcs[:hung])
    c.count("adversarial-lines", len(srcs))
    c.samples = [{"input": srcs[0][:120]}]
    if hung is not None:
        c.disagreements.append({"what": "parsing this %d-character document did not finish (%s)" % (len(srcs[hung]), err),
                                "input": srcs[hung][:300] + ("..." if len(srcs[hung]) > 300 else ""), "length": len(srcs[hung])})
    return c


def slice_checks(src, doc):
    """C04: read the source at every reported AST location"""
    lines = src.split("\n")
    bad = []

    def at(loc):
        ln, col = loc.get("line"), loc.get("column")
        if not isinstance(ln, int) or ln < 1 or ln > len(lines) + 1:
            return None
        text = lines[ln - 1] if ln <= len(lines) else ""
        if col is None:
            return text
        if col < 1 or col > len(text) + 1:
            return None
        return text[col - 1:]

    def node(p, k, x):
        if not isinstance(x, dict) or "location" not in x:
            return
        rest = at(x["location"])
        where = "/".join(map(str, p + (k,)))
        if rest is None:
            bad.append("%s: location %r outside the source" % (where, x["location"]))
            return
        if "keyword" in x and "cells" not in x:
            if not rest.startswith(x["keyword"]):
                bad.append("%s: source at %r does not start with keyword %r" % (where, x["location"], x["keyword"]))
            if any(ch.isspace() for ch in lines[x["location"]["line"] - 1][:x["location"]["column"] - 1].strip() or ""):
                pass
        elif "name" in x and "astNodeId" not in x and k != "feature" and str(x.get("name", "")).startswith("@"):
            if not rest.startswith(x["name"]):
                bad.append("%s: source at %r does not start with tag %r" % (where, x["location"], x["name"]))
        elif "cells" in x:
            if not rest.startswith("|"):
                bad.append("%s: row location %r does not point at '|'" % (where, x["location"]))
        elif "delimiter" in x:
            if not rest.startswith(x["delimiter"]):
                bad.append("%s: doc string location %r does not point at the delimiter" % (where, x["location"]))
        elif "value" in x:
            v = x["value"]
            if v == "":
                if not rest.startswith("|"):
                    bad.append("%s: empty cell at %r does not point at the closing '|'" % (where, x["location"]))
            else:
                if rest[:1].isspace() and rest[:1] != "\n":
                    bad.append("%s: cell at %r starts with a blank" % (where, x["location"]))
        elif "text" in x and k != "steps" and isinstance(p[-1] if p else None, int) and "comments" in p:
            if x["location"].get("column") != 1:
                bad.append("%s: comment column %r" % (where, x["location"]))

    def f(p, k, x):
        if isinstance(x, dict):
            node(p, k, x)
        elif isinstance(x, list):
            for i, y in enumerate(x):
                if isinstance(y, dict):
                    node(p + (k,), i, y)
    walk(doc, f)
    return bad


def o_slices(ctx):
    impl = impl_mod()
    srcs = corpus_sources() + [s for s, _ in S.gen_sources(S.n_for(400, 8000), salt="c04/slice")]
    srcs += S.mutated_sources(S.n_for(300, 6000), salt="c04/mut")

    def check(src):
        res = impl.parse(False, "en", src)
        if "ok" in res:
            text = src.replace("\r\n", "\n")
            bad = slice_checks(text, res["ok"])
            if bad:
                return {"what": bad[0], "all": bad[:5]}
        elif "errors" in res:
            n = len(src.split("\n")) + 1
            for e in res["errors"]:
                ln = e["location"].get("line")
                if not (1 <= ln <= n):
                    return {"what": "error line %r outside 1..%d" % (ln, n)}
                col = e["location"].get("column")
                pre = "(%d:%d): " % (ln, col or 0)
                if not e["message"].startswith(pre):
                    return {"what": "message %r does not start with its position %r" % (e["message"][:40], pre)}
        return None
    return oracle("slice-source-at-locations", srcs, check)


def o_intended(ctx):
    """generator's intended AST (third opinion) against the implementation"""
    impl = impl_mod()
    docs = S.gen_sources(S.n_for(400, 8000), salt="c03/intended")

    def check(it):
        src, want = it
        res = impl.parse(False, "en", src)
        if "ok" not in res:
            return {"what": "generated well-formed document rejected: %r" % (res.get("errors", res))[:300]}
        got = res["ok"]
        if canon(got) != canon(want):
            a, b = erase(got, ("id",)), erase(want, ("id",))
            if canon(a) == canon(b):
                return {"what": "ids differ from the canonical numbering", "impl": collect(got, "id")[:20], "intended": collect(want, "id")[:20]}
            a2, b2 = erase(a, ("location",)), erase(b, ("location",))
            if canon(a2) == canon(b2):
                return {"what": "locations differ from the intended ones"}
            return {"what": "AST differs from the intended AST", "impl": a2, "intended": b2}
        return None
    return oracle("intended-ast", docs, check, describe=lambda it: it[0])


# ----------------------------------------------------------------------------
# registry (filled in below and by the per-property modules)

PROPS = {}


def prop(pid, **kw):
    kw.setdefault("streams", [])
    kw.setdefault("sources", [])
    PROPS[pid] = kw


TABLE_SOURCES = ["parser.py", "gherkin.berp", "java/src/main/java/io/cucumber/gherkin/Parser.java", "go/parser.go",
                 "ruby/lib/gherkin/parser.rb", "c/src/parser.c", "javascript/src/Parser.ts"]
DIALECT_SOURCES = ["gherkin-languages.json", "python/gherkin/gherkin-languages.json"]


def replay(pid, path):
    with open(path, encoding="utf8") as f:
        rp = json.load(f)
    print(json.dumps({k: rp.get(k) for k in ("property", "what", "stream", "kind")}, indent=1))
    if "request" in rp:
        req = (rp["request"][0], rp["request"][1])
        m = run_model([req])[0]
        i = run_impl_batch([req], parallel=False)[0]
        print("model:", json.dumps(m)[:2000])
        print("impl: ", json.dumps(i)[:2000])
        if canon(m) != canon(i):
            print("VIOLATION property=%s replay=%s" % (pid, path))
            return 1
        print("model and implementation agree on this request now")
        return 0
    print("no request to re-run in this replay (proof-level or oracle finding); re-run the check itself")
    return 0


import props_registry  # noqa: E402,F401  (fills PROPS)
