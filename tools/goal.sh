#!/bin/bash
# usage: tools/goal.sh coq/proofs/X.v LINE  -- show the goals just before LINE
f=$1; n=$2
tmp=$(mktemp -d)
head -n $((n-1)) "$f" > $tmp/G.v
echo "Show." >> $tmp/G.v
cd /verif/coq && timeout 300 coqc -R theories Gherkin -R gen Gherkin -R proofs Gherkin -w -notation-overridden $tmp/G.v 2>&1 | grep -v "^Error: There are pending proofs\|conda" | head -${3:-60}
rm -rf $tmp
