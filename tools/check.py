#!/usr/bin/env python3
"""Entry point of every registered check:  tools/check.py <Cnn> [--tier quick|thorough] [--replay f]

Order of events (DESIGN.md section 5): regenerate coq/gen from /repo; build the
property's theorem file (all its proof obligations, including vm_compute
side-conditions over regenerated data); rebuild the extracted model; run the
property's correspondence streams and direct oracles on the implementation;
on any failure search for / report a concrete replay; write evidence."""
from __future__ import annotations

import fcntl
import hashlib
import json
import os
import re
import subprocess
import sys
import time

sys.path.insert(0, os.path.dirname(os.path.abspath(__file__)))
os.environ.setdefault("PYTHONHASHSEED", "0")
sys.dont_write_bytecode = True

from common import COQ, EVIDENCE, GEN, REPLAY, REPO, SEED, VERIF  # noqa: E402

TRUSTED_BASE = [
    "Coq 8.16.1 kernel including its bytecode VM (vm_compute decides every finite side-condition); no native_compute",
    "no axioms declared; per-theorem Print Assumptions results are listed under 'assumptions_per_theorem'",
    "translators in tools/regen.py (Python-ast reader of parser.py with template comparison, berp reader, JSON reader, sibling scrapers), fail-closed; parser.py translation cross-checked by the behavioural probe of Parser.match_token",
    "extraction: ExtrOcamlBasic only (Extract Inductive bool, option, unit, list, prod, sumbool, sumor; Extract Inlined Constant andb, orb); nat/N/positive stay inductive; OCaml 4.13.1; coq/extract/driver.ml (wire format parser/printer)",
    "correspondence harness tools/*.py and its generators; CPython 3.12 semantics of str/re/io as modelled in PyStr.v and validated by sweeps",
    "the hand-written model of python/gherkin/*.py (theories/*.v): the theorems are about the model; the code is tied to it by correspondence only",
]


def sh(cmd, timeout=3600, **kw):
    return subprocess.run(cmd, shell=isinstance(cmd, str), capture_output=True, text=True, timeout=timeout, **kw)


class Lock:
    def __enter__(self):
        os.makedirs(os.path.join(VERIF, "work"), exist_ok=True)
        self.f = open(os.path.join(VERIF, "work", "lock"), "w")
        fcntl.flock(self.f, fcntl.LOCK_EX)
        return self

    def __exit__(self, *a):
        fcntl.flock(self.f, fcntl.LOCK_UN)
        self.f.close()


def forbidden_scan():
    """No Admitted / admit / Axiom / Parameter / ... anywhere in the development."""
    pat = re.compile(r"\b(Admitted|admit|Axiom|Axioms|Parameter|Parameters|Conjecture|Admit Obligations|bypass_check)\b|Unset Guard Checking|Unset Positivity|Unset Universe Checking|type-in-type|impredicative-set")
    hits = []
    for d in ("theories", "proofs", "props", "extract"):
        for root, _, files in os.walk(os.path.join(COQ, d)):
            for fn in files:
                if fn.endswith(".v"):
                    p = os.path.join(root, fn)
                    txt = re.sub(r"\(\*.*?\*\)", "", open(p, encoding="utf8").read(), flags=re.S)
                    for i, line in enumerate(txt.split("\n"), 1):
                        if pat.search(line):
                            hits.append("%s:%d: %s" % (os.path.relpath(p, COQ), i, line.strip()[:100]))
    for fn in os.listdir(GEN):
        if fn.endswith(".v"):
            txt = open(os.path.join(GEN, fn), encoding="utf8").read()
            if pat.search(re.sub(r"\(\*.*?\*\)", "", txt, flags=re.S)):
                hits.append("gen/" + fn)
    return hits


def build(targets, timeout=3000):
    cmd = [os.path.join(COQ, "build.sh")] + targets
    t0 = time.time()
    p = sh(cmd, timeout=timeout)
    out = p.stdout + p.stderr
    info = {"cmd": "coq/build.sh " + " ".join(targets), "ok": p.returncode == 0, "wall_s": round(time.time() - t0, 1)}
    if p.returncode != 0:
        m = re.search(r'File "\./([^"]+)", line (\d+), characters [\d-]+:\s*\n(?:Warning[^\n]*\n)?((?:.*\n){0,12})', out)
        errs = re.findall(r'File "\./([^"]+)", line (\d+), characters [\d-]+:\s*\nError:((?:.*\n){0,8})', out)
        if errs:
            f, line, msg = errs[0]
            info.update(failed_file=f, failed_line=int(line), error=msg.strip()[:600],
                        failed_lemma=lemma_at(os.path.join(COQ, f), int(line)))
        else:
            info.update(failed_file=None, error=out[-800:])
    return info


def lemma_at(path, line):
    try:
        lines = open(path, encoding="utf8").read().split("\n")
    except OSError:
        return None
    for i in range(min(line, len(lines)) - 1, -1, -1):
        m = re.match(r"\s*(Lemma|Theorem|Corollary|Example|Fact|Definition|Remark)\s+([\w']+)", lines[i])
        if m:
            return m.group(2)
    return None


def check_props_file(pid):
    """Compile props/<pid>.v on its own to capture Print Assumptions output."""
    src = os.path.join(COQ, "props", pid + ".v")
    work = os.path.join(VERIF, "work", "pa_%s_%d" % (pid, os.getpid()))
    os.makedirs(work, exist_ok=True)
    try:
        cmd = ["coqc", "-R", "theories", "Gherkin", "-R", "gen", "Gherkin", "-R", "proofs", "Gherkin",
               "-R", "props", "Gherkin", "-w", "-notation-overridden", src, "-o", os.path.join(work, pid + ".vo")]
        p = sh(cmd, timeout=1200, cwd=COQ)
        out = p.stdout
        text = open(src, encoding="utf8").read()
        theorems = re.findall(r"^\s*Theorem\s+([\w']+)", text, flags=re.M)
        pa = {}
        names = re.findall(r"Print Assumptions\s+([\w']+)\s*\.", text)
        blocks = re.split(r"(?=Closed under the global context|Axioms:)", out)
        blocks = [b for b in blocks if b.startswith("Closed") or b.startswith("Axioms:")]
        for n, b in zip(names, blocks):
            pa[n] = "closed under the global context" if b.startswith("Closed") else " ".join(b.split())[:400]
        return {"ok": p.returncode == 0, "theorems": theorems, "assumptions": pa,
                "cmd": "coqc -R theories Gherkin -R gen Gherkin -R proofs Gherkin -R props Gherkin props/%s.v" % pid,
                "stderr": p.stderr[-400:] if p.returncode else ""}
    finally:
        for f in os.listdir(work):
            os.unlink(os.path.join(work, f))
        os.rmdir(work)


def load_known():
    known = []
    with open(os.path.join(VERIF, "KNOWN_FINDINGS.txt"), encoding="utf8") as f:
        for line in f:
            m = re.match(r"known:\s+property=(\w+)\s+key=(\S+)\s+(.*)", line.strip())
            if m:
                known.append({"property": m.group(1), "key": m.group(2), "text": m.group(3)})
    return known


def write_replay(pid, payload):
    os.makedirs(REPLAY, exist_ok=True)
    h = hashlib.sha256(json.dumps(payload, sort_keys=True, default=str).encode()).hexdigest()[:12]
    path = os.path.join(REPLAY, "%s-%s.json" % (pid, h))
    payload = dict(payload)
    payload["rerun"] = "tools/check.py %s --replay %s" % (pid, path)
    with open(path, "w", encoding="utf8") as f:
        json.dump(payload, f, indent=1, ensure_ascii=True, default=str)
    return path


def main():
    import argparse
    ap = argparse.ArgumentParser()
    ap.add_argument("pid")
    ap.add_argument("--tier", default=os.environ.get("VERIF_TIER", "quick"))
    ap.add_argument("--replay")
    args = ap.parse_args()
    pid, tier = args.pid, args.tier
    if tier not in ("quick", "thorough"):
        tier = "quick"
    os.environ["VERIF_TIER"] = tier
    t0 = time.time()

    import regen
    import properties as P
    spec = P.PROPS[pid]

    if args.replay:
        return P.replay(pid, args.replay)

    violations = []      # dicts with 'what', 'replay' payload, 'concrete' bool
    notes = []
    with Lock():
        meta = regen.regen(verbose=False)
        hits = forbidden_scan()
        binfo = build(["props/%s.vo" % pid])
        pinfo = check_props_file(pid) if binfo["ok"] else {"ok": False, "theorems": re.findall(
            r"^\s*Theorem\s+([\w']+)", open(os.path.join(COQ, "props", pid + ".v")).read(), flags=re.M), "assumptions": {}, "cmd": ""}
        minfo = build(["extract/Extract.vo"])
        if minfo["ok"]:
            p = sh([os.path.join(COQ, "extract", "build.sh")], timeout=900)
            if p.returncode != 0:
                minfo = {"ok": False, "error": (p.stdout + p.stderr)[-600:], "cmd": "coq/extract/build.sh"}
    if hits:
        violations.append({"what": "forbidden construct in the Coq development: " + "; ".join(hits[:5]), "concrete": False,
                           "replay": {"kind": "development", "hits": hits}})
    bad_tr = [s for s in spec.get("sources", []) if not meta["translation_ok"].get(s, True)]
    if bad_tr:
        notes.append("translation failed for " + ", ".join(bad_tr) + ": " + "; ".join(meta["notes"]))

    # correspondence streams / oracles
    streams = []
    known = [k for k in load_known() if k["property"] == pid]
    known_seen = []
    if minfo["ok"]:
        ctx = {"tier": tier, "seed": SEED, "meta": meta, "build": binfo, "pid": pid}
        for fn in spec["streams"]:
            try:
                r = fn(ctx)
            except Exception as e:  # a harness failure must not pass silently
                import traceback
                violations.append({"what": "stream %s failed to run: %r" % (fn.__name__, e), "concrete": False,
                                   "replay": {"kind": "harness", "stream": fn.__name__, "trace": traceback.format_exc()[-1500:]}})
                continue
            for c in (r if isinstance(r, list) else [r]):
                streams.append(c)
                for d in c.disagreements:
                    k = d.get("known_key")
                    hit = [x for x in known if k and x["key"] == k]
                    if hit:
                        if hit[0] not in known_seen:
                            known_seen.append(hit[0])
                        continue
                    violations.append({"what": "%s: %s" % (c.name, d.get("what", "model and implementation disagree on the property's projection")),
                                       "concrete": True, "replay": dict(d, stream=c.name, kind="correspondence")})
    else:
        violations.append({"what": "the executable model does not build: " + str(minfo.get("error"))[:300], "concrete": False,
                           "replay": {"kind": "model-build", "info": minfo}})

    if not binfo["ok"] or not pinfo["ok"] or bad_tr:
        what = ("proof obligation no longer checks: %s in %s line %s" % (
            binfo.get("failed_lemma"), binfo.get("failed_file"), binfo.get("failed_line"))) if not binfo["ok"] else (
            "translation failed: " + ", ".join(bad_tr) if bad_tr else "props file does not compile")
        found = None
        if "search" in spec and minfo["ok"]:
            try:
                found = spec["search"]({"tier": tier, "meta": meta, "build": binfo})
            except Exception as e:  # noqa
                notes.append("search failed: %r" % e)
        if found:
            violations.insert(0, {"what": what + "; failing input found by search", "concrete": True,
                                  "replay": dict(found, kind="search", broken=binfo)})
        elif not any(v["concrete"] for v in violations):
            violations.insert(0, {"what": what, "concrete": False,
                                  "replay": {"kind": "proof", "theorem_or_side_condition": binfo.get("failed_lemma"),
                                             "file": binfo.get("failed_file"), "line": binfo.get("failed_line"),
                                             "error": binfo.get("error"), "translation_notes": meta["notes"]}})

    # evidence
    evals = sum(c.evaluations for c in streams)
    nontrivial = sum(len(c.nontrivial) for c in streams)
    samples = []
    for c in streams:
        samples.extend(c.samples[:2])
    obligations = len(pinfo["theorems"])
    ev = {
        "property_id": pid, "tier": tier, "seed": SEED, "level": "proof",
        "coverage": {
            "obligations": max(1, obligations),
            "discharged": obligations if (binfo["ok"] and pinfo["ok"]) else 0,
            "checker_cmd": "tools/regen.py && %s && %s" % (binfo["cmd"], pinfo.get("cmd", "")),
            "trusted_base": TRUSTED_BASE + spec.get("trusted", []),
            "theorems": pinfo["theorems"],
            "assumptions_per_theorem": pinfo["assumptions"],
            "evaluations": evals,
            "distinct_nontrivial": nontrivial,
            "rule": spec.get("rule", ""),
            "samples": samples[:12] or [{"note": "no correspondence stream ran"}],
            "exhaustive": bool(streams) and all(c.exhaustive for c in streams),
            "streams": [c.summary() for c in streams],
            "regenerated_sources": {k: v for k, v in meta["sources"].items() if k in spec.get("sources", [])},
            "translation_notes": meta["notes"],
            "helpers_changed": meta.get("helpers_changed"),
            "notes": notes + ([("props file: " + str(pinfo.get("stderr")))[:600]] if not pinfo.get("ok") else []),
            "known_findings_reobserved": [k["key"] for k in known_seen],
        },
        "assumptions": spec.get("assumptions", []),
        "wall_s": round(time.time() - t0, 2),
        "violations": len(violations),
    }
    os.makedirs(EVIDENCE, exist_ok=True)
    with open(os.path.join(EVIDENCE, pid + ".json"), "w", encoding="utf8") as f:
        json.dump(ev, f, indent=1, ensure_ascii=True, default=str)

    for k in known_seen:
        print("KNOWN-FINDING: property=%s %s" % (pid, k["text"]))
    if violations:
        # one VIOLATION line per distinct replay, at most 5
        for v in violations[:5]:
            path = write_replay(pid, dict(v["replay"], property=pid, what=v["what"]))
            print("VIOLATION property=%s replay=%s%s" % (pid, path, "" if v["concrete"] else " no-failing-input-found"))
            print("  " + v["what"][:300])
        return 1
    print("%s ok: %d theorems, %d evaluations in %d streams, %.0fs" % (pid, obligations, evals, len(streams), time.time() - t0))
    return 0


if __name__ == "__main__":
    sys.exit(main())
