"""Input streams shared by the per-property correspondence checks (DESIGN 4.2).
Every random choice derives from VERIF_SEED through corr.rng(salt)."""
from __future__ import annotations

import itertools
import json
import os

import gen_docs
from common import REPO, TIER, VERIF
from corr import rng

KINDS = ["EOF", "Empty", "Comment", "TagLine", "FeatureLine", "RuleLine", "BackgroundLine", "ScenarioLine",
         "ExamplesLine", "StepLine", "DocStringSeparator", "TableRow", "Language", "Other"]


def n_for(quick, thorough):
    return thorough if os.environ.get("VERIF_TIER", TIER) == "thorough" else quick


_cache = {}


def corpus():
    if "corpus" not in _cache:
        _cache["corpus"] = gen_docs.corpus_files()
    return _cache["corpus"]


def regressions(pid=None):
    with open(os.path.join(VERIF, "corpus", "regressions", "fixed.json"), encoding="utf8") as f:
        items = json.load(f)
    extra = os.path.join(VERIF, "corpus", "regressions", "found.json")
    if os.path.exists(extra):
        with open(extra, encoding="utf8") as f:
            items += json.load(f)
    return [(i["request"][0], i["request"][1]) for i in items if pid is None or i["property"] == pid]


def gen_sources(n, salt="docs"):
    """n generated (mostly well-formed) documents with the AST they intend."""
    base = rng(salt).randrange(1 << 30)
    return [gen_docs.gen_document(base + i) for i in range(n)]


def mutated_sources(n, salt="mut"):
    r = rng(salt)
    base = r.randrange(1 << 30)
    out = []
    pool = [s for _, _, s in corpus()]
    for i in range(n):
        if i % 4 == 3:
            src = r.choice(pool)
        else:
            src, _ = gen_docs.gen_document(base + i)
        out.append(gen_docs.mutate(src, r))
    return out


CANON = {
    "EOF": None, "Empty": "", "Comment": "# c", "TagLine": "@t", "FeatureLine": "Feature: f", "RuleLine": "Rule: r",
    "BackgroundLine": "Background:", "ScenarioLine": "Scenario: s", "ExamplesLine": "Examples:",
    "StepLine": "Given g", "DocStringSeparator": '"""', "TableRow": "| a |", "Language": "#language: en",
    "Other": "free text",
}


def kind_sequences(maxlen):
    ks = KINDS[1:]
    for n in range(maxlen + 1):
        for w in itertools.product(ks, repeat=n):
            yield list(w)


def dialects():
    if "dialects" not in _cache:
        with open(os.path.join(REPO, "python", "gherkin", "gherkin-languages.json"), encoding="utf8") as f:
            _cache["dialects"] = json.load(f)
    return _cache["dialects"]


ROLES = ["feature", "rule", "background", "scenario", "scenarioOutline", "examples",
         "given", "when", "then", "and", "but"]
TITLE_ROLES = ROLES[:6]
ROLE_KIND = {"feature": "FeatureLine", "rule": "RuleLine", "background": "BackgroundLine", "scenario": "ScenarioLine",
             "scenarioOutline": "ScenarioLine", "examples": "ExamplesLine"}


def all_keywords():
    """(dialect, role, keyword) for every listed keyword: 1749 today."""
    out = []
    for code, d in dialects().items():
        for role in ROLES:
            for k in d[role]:
                out.append((code, role, k))
    return out


def mstate(default="en", dialect=None, separator=None, indent=0):
    return {"default": default, "dialect": dialect or default, "separator": separator, "indent": indent}


def words(alphabet, maxlen, minlen=0):
    for n in range(minlen, maxlen + 1):
        for w in itertools.product(alphabet, repeat=n):
            yield "".join(w)
