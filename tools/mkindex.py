#!/usr/bin/env python3
"""Regenerate Appendix B of DESIGN.md (index of coq/proofs) from the files' opening comments and the build
dependencies in coq/.Makefile.coq.d (written by coq/build.sh).  Also prints the file and line counts."""
import os, re, sys

ROOT = os.path.dirname(os.path.dirname(os.path.abspath(__file__)))
COQ = os.path.join(ROOT, "coq")


def deps():
    d = {}
    with open(os.path.join(COQ, ".Makefile.coq.d")) as f:
        for line in f:
            left, _, right = line.partition(":")
            tgt = left.split()[0]
            if not tgt.endswith(".vo"):
                continue
            d[tgt[:-3]] = [x[:-3] for x in right.split() if x.endswith(".vo")]
    return d


def closure(d, root):
    seen, todo = set(), [root]
    while todo:
        x = todo.pop()
        for y in d.get(x, []):
            if y not in seen:
                seen.add(y)
                todo.append(y)
    return seen


def opening_comment(path):
    src = open(path, encoding="utf-8").read()
    m = re.match(r"\s*\(\*(.*?)\*\)", src, re.S)
    if not m:
        return ""
    text = " ".join(m.group(1).split())
    return text if len(text) <= 170 else text[:170] + "…"


def main():
    d = deps()
    props = sorted(p for p in d if re.fullmatch(r"props/C\d\d", p))
    used = {}
    for p in props:
        for x in closure(d, p):
            if x.startswith("proofs/"):
                used.setdefault(x, []).append(p[-3:])
    rows, total = [], 0
    files = sorted(f for f in os.listdir(os.path.join(COQ, "proofs")) if f.endswith(".v"))
    for f in files:
        path = os.path.join(COQ, "proofs", f)
        n = sum(1 for _ in open(path, encoding="utf-8"))
        total += n
        u = used.get("proofs/" + f[:-2], [])
        us = ",".join(u) if len(u) <= 6 else "%d properties" % len(u)
        rows.append("| `%s` | %d | %s | %s |" % (f, n, us or "—", opening_comment(path).replace("|", "\\|")))
    table = "\n".join(["| file (coq/proofs) | lines | used by | opening comment |", "|---|---|---|---|"] + rows) + "\n"
    design = os.path.join(ROOT, "DESIGN.md")
    text = open(design, encoding="utf-8").read()
    head = "## Appendix B"
    i = text.index(head)
    j = text.index("\n", i)
    k = text.find("\n## ", j)
    tail = text[k:] if k >= 0 else ""
    text = text[:j + 1] + "\n" + table + tail
    open(design, "w", encoding="utf-8").write(text)
    print("%d files, %d lines" % (len(files), total))


if __name__ == "__main__":
    sys.exit(main())
