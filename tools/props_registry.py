"""Per-property registration: which streams / oracles decide which property."""
from __future__ import annotations

import copy
import itertools
import json
import os
import sys
import tempfile

import gen_docs
import properties as P
import streams as S
from corr import Corr, canon, differential, rng, run_impl_batch
from model import run_model
from properties import (DIALECT_SOURCES, TABLE_SOURCES, collect, compile_stream, e2e, erase, impl_mod, nt_accepted,
                        nt_rejected, oracle, outcome, pj_pickles, prop, std_e2e, walk)

# ---------------------------------------------------------------- C01
prop("C01",
     streams=[lambda ctx: P.regression_stream("C01"), std_e2e("C01", P.p_c01, modes=(False, True), nontrivial=nt_rejected),
              P.o_exception_types, P.o_linear, P.o_k1],
     sources=["parser.py"],
     rule="documents: acceptance corpus, generated well-formed, malformed (line-level faults), hostile character soup; "
          "non-trivial = rejected documents (distinct source text) for the differential streams, inputs on which the oracle ran for the oracles",
     assumptions=["running time of CPython's str/re primitives is outside the model (termination = fuel + linear bound on match calls)",
                  "source text is handed to the scanner as text (K1: a string naming an existing path is opened as a file)"])

# ---------------------------------------------------------------- C02
prop("C02",
     streams=[P.stub_probe, P.stub_sequences, P.stub_text],
     sources=TABLE_SOURCES,
     rule="all kind sequences up to the bound through the real Parser with stub scanner/matcher/builder, and as concrete text; "
          "Parser.match_token probed for every state x kind x look-ahead context; non-trivial = accepted sequences / successful transitions",
     trusted=["sibling scrapers (line-pattern readers of generated code, fail-closed)",
              "RefSem.v: the reading of berp's conventions (ignored tokens, #Other, look-ahead hints)"])

# ---------------------------------------------------------------- C03
prop("C03",
     streams=[lambda ctx: P.regression_stream("C03"), std_e2e("C03", P.p_ast_text, nontrivial=nt_accepted("ast")), P.o_intended],
     sources=["parser.py", "gherkin.berp"] + DIALECT_SOURCES,
     rule="AST with ids and locations erased, model vs implementation; generator's intended AST as third opinion; non-trivial = accepted documents with a feature")

# ---------------------------------------------------------------- C04
prop("C04",
     streams=[lambda ctx: P.regression_stream("C04"), P.unit_table_cells, P.unit_tags,
              std_e2e("C04", P.p_locations, modes=(False,), nontrivial=lambda q, r: q[1][2] if outcome(r) in ("ok", "errors") else None),
              P.o_slices],
     sources=["parser.py"],
     rule="all location fields (AST and errors), model vs implementation; unit-level rows/tag lines exhaustive over the splitter's alphabet; "
          "oracle slices the source at every reported location")

# ---------------------------------------------------------------- C05
prop("C05",
     streams=[P.unit_keywords, P.unit_foreign, P.unit_language, std_e2e("C05", P.p_keywords, ngen=(300, 4000), nmut=(100, 2000), nontrivial=nt_accepted("kw"))],
     sources=DIALECT_SOURCES + ["parser.py"],
     rule="every (dialect, role, keyword) x layout through match_*; foreign keywords; language-header spellings; keyword/keywordType/language of parsed documents")

# ---------------------------------------------------------------- C06..C10 (compiler)


def pk_sources(p):
    return {"nodes": p["astNodeIds"], "uri": p["uri"], "language": p["language"], "name": p["name"], "nsteps_zero": len(p["steps"]) == 0}


def pk_steps(p):
    def arg(s):
        a = s.get("argument")
        if not a:
            return None
        if "dataTable" in a:
            return ["T", [len(r["cells"]) for r in a["dataTable"]["rows"]]]
        return ["D", "mediaType" in a["docString"]]
    return [[s["astNodeIds"], arg(s)] for s in p["steps"]]


def pk_steps_plain(p):
    """full argument content of steps that are not an outline's own steps"""
    return [[s["astNodeIds"], s["text"], s.get("argument")] for s in p["steps"] if len(s["astNodeIds"]) == 1]


def pk_tags(p):
    return [[t["astNodeId"], t["name"]] for t in p["tags"]]


def pk_interp(p):
    return {"name": p["name"], "steps": [[s["text"], s.get("argument")] for s in p["steps"] if len(s["astNodeIds"]) == 2]}


def pk_types(p):
    return [s["type"] for s in p["steps"]]


def pk_ids(p):
    return {"id": p["id"], "steps": [s["id"] for s in p["steps"]], "nodes": p["astNodeIds"],
            "stepnodes": [s["astNodeIds"] for s in p["steps"]], "tagnodes": [t["astNodeId"] for t in p["tags"]]}


def nt_pickles(pred):
    def f(req, r):
        ps = P.pickles_of(r)
        if ps and any(pred(p) for p in ps):
            return canon(req[1][1])[:400]
        return None
    return f


def e2e_compile_docs(pid, proj):
    """parse + compile through the stream API, comparing pickles only"""
    def run(ctx):
        srcs = P.corpus_sources() + [s for s, _ in S.gen_sources(S.n_for(200, 3000), salt=pid + "/ev")]
        reqs = [("events", [False, False, True, False, [["u.feature", s]]]) for s in srcs]

        def pr(r, req=None):
            if "envelopes" not in r:
                return {"outcome": outcome(r)}
            return [proj(e["pickle"]) for e in r["envelopes"] if "pickle" in e]
        return differential("parse+compile", reqs, proj=pr, nontrivial=lambda q, r: q[1][4][0][1] if r.get("envelopes") else None,
                            classify=lambda q, r: "pickles:%d" % min(5, len(r.get("envelopes", []))))
    run.__name__ = "e2e_compile_" + pid
    return run


prop("C06", streams=[compile_stream("C06", pj_pickles(pk_sources), nt_pickles(lambda p: len(p["astNodeIds"]) == 2)), e2e_compile_docs("C06", pk_sources)],
     rule="Compiler.compile on parser-produced and directly generated AST dictionaries; projection astNodeIds/uri/language/count/order; non-trivial = ASTs yielding an example-row pickle")
prop("C07", streams=[compile_stream("C07", pj_pickles(lambda p: [pk_steps(p), pk_steps_plain(p)]),
                                    nt_pickles(lambda p: len(p["steps"]) >= 2)), e2e_compile_docs("C07", pk_steps)],
     rule="projection per pickle step: astNodeIds and argument skeleton (full argument for non-outline steps); non-trivial = ASTs with a pickle of >= 2 steps",
     assumptions=["aliasing of the background step lists is outside the functional model: decided by correspondence (DESIGN 6.C07 residual)"])
prop("C08", streams=[compile_stream("C08", pj_pickles(pk_tags), nt_pickles(lambda p: len(p["tags"]) >= 2)), e2e_compile_docs("C08", pk_tags),
                     std_e2e("C08", P.p_tags_ast, ngen=(200, 3000), nmut=(50, 500), nontrivial=nt_accepted("tags"))],
     rule="projection per pickle: (astNodeId, name) of its tags; AST tag names per element; non-trivial = ASTs with a pickle carrying >= 2 tags")
prop("C09", streams=[lambda ctx: P.regression_stream("C09"), P.unit_interpolate,
                     compile_stream("C09", pj_pickles(pk_interp), nt_pickles(lambda p: len(p["astNodeIds"]) == 2)), e2e_compile_docs("C09", pk_interp)],
     rule="_interpolate exhaustively over an adversarial alphabet (regex metacharacters, group references) and sampled over Unicode; name/text/arguments of outline pickles")
prop("C10", streams=[lambda ctx: P.regression_stream("C10")[:0], compile_stream("C10", pj_pickles(pk_types), nt_pickles(lambda p: len(p["steps"]) >= 2)),
                     e2e_compile_docs("C10", pk_types)],
     rule="projection per pickle step: type; exhaustive keyword-type sequences (background <= 2 x own <= 3, plain and outline); non-trivial = ASTs with a pickle of >= 2 steps")


def c10_exhaustive(ctx):
    kts = ["Unknown", "Context", "Action", "Outcome", "Conjunction"]
    loc = {"line": 1, "column": 1}
    reqs = []
    nb, no = S.n_for(2, 3), S.n_for(3, 4)
    for b in range(nb + 1):
        for o in range(1, no + 1):
            for seq in itertools.product(kts, repeat=b + o):
                for outline in (False, True):
                    ids = itertools.count()

                    def st(kt):
                        return {"id": str(next(ids)), "location": loc, "keyword": "K", "keywordType": kt, "text": "t"}
                    bg = {"id": "900", "location": loc, "keyword": "B", "name": "", "description": "", "steps": [st(k) for k in seq[:b]]}
                    sc = {"id": "901", "tags": [], "location": loc, "keyword": "S", "name": "", "description": "", "steps": [st(k) for k in seq[b:]], "examples": []}
                    if outline:
                        sc["examples"] = [{"id": "902", "tags": [], "location": loc, "keyword": "E", "name": "", "description": "",
                                           "tableHeader": {"id": "903", "location": loc, "cells": [{"location": loc, "value": "h"}]},
                                           "tableBody": [{"id": "904", "location": loc, "cells": [{"location": loc, "value": "v"}]}]}]
                    ch = ([{"background": bg}] if b else []) + [{"scenario": sc}]
                    d = {"feature": {"tags": [], "location": loc, "language": "en", "keyword": "F", "name": "", "description": "", "children": ch}, "comments": []}
                    reqs.append(("compile", ["u", d, 1000]))
    return differential("keyword-type-sequences", reqs, proj=pj_pickles(pk_types), nontrivial=lambda q, r: canon(pj_pickles(pk_types)(r)),
                        classify=lambda q, r: "ok" if "pickles" in r else outcome(r), exhaustive=True)


P.PROPS["C10"]["streams"].insert(0, c10_exhaustive)

# ---------------------------------------------------------------- C11


def o_ids(ctx):
    impl = impl_mod()
    docs = S.gen_sources(S.n_for(300, 6000), salt="c11")
    pool = P.corpus_sources()
    r = rng("c11h")
    hist = [[r.choice(pool) if r.random() < 0.5 else gen_docs.mutate(r.choice(pool), r) for _ in range(r.randint(1, 4))] for _ in range(S.n_for(100, 2000))]

    def check_doc(it):
        src, want = it
        ev = impl.events(False, True, True, False, [["u", src]])
        if "envelopes" not in ev:
            return {"what": "stream failed: %r" % (ev,)}
        ids = []
        nodes = {}
        for env in ev["envelopes"]:
            if "gherkinDocument" in env:
                doc = env["gherkinDocument"]
                walk(doc, lambda p, k, x: ids.append(int(x)) if k == "id" else None)

                def reg(p, k, x):
                    if isinstance(x, dict) and "id" in x:
                        kind = ("step" if "keywordType" in x else "row" if "cells" in x else "tag" if str(x.get("name", "")).startswith("@") and "keyword" not in x
                                else "scenario" if "steps" in x and "examples" in x else "other")
                        nodes[x["id"]] = kind
                    if isinstance(x, list):
                        for y in x:
                            reg(p, k, y)
                walk(doc, reg)
            if "pickle" in env:
                p = env["pickle"]
                ids.extend(int(s["id"]) for s in p["steps"])
                ids.append(int(p["id"]))
                want_kinds = ["scenario", "row"]
                for n, wk in zip(p["astNodeIds"], want_kinds):
                    if nodes.get(n) != wk:
                        return {"what": "pickle astNodeIds %r: %r is a %r, expected %s" % (p["astNodeIds"], n, nodes.get(n), wk)}
                for s in p["steps"]:
                    for n, wk in zip(s["astNodeIds"], ["step", "row"]):
                        if nodes.get(n) != wk:
                            return {"what": "pickle step astNodeIds %r: %r is a %r" % (s["astNodeIds"], n, nodes.get(n))}
                for t in p["tags"]:
                    if nodes.get(t["astNodeId"]) != "tag":
                        return {"what": "pickle tag astNodeId %r is a %r" % (t["astNodeId"], nodes.get(t["astNodeId"]))}
        if sorted(ids) != list(range(len(ids))):
            return {"what": "ids of document+pickles are not 0..n-1 without gaps/duplicates", "ids": sorted(ids)[:50]}
        return None

    def check_hist(srcs):
        ev = impl.events(False, True, True, False, [["u%d" % i, s] for i, s in enumerate(srcs)])
        if "envelopes" not in ev:
            return {"what": "stream failed: %r" % (ev,)}
        ids = []
        for env in ev["envelopes"]:
            if "gherkinDocument" in env:
                walk(env["gherkinDocument"], lambda p, k, x: ids.append(x) if k == "id" else None)
            if "pickle" in env:
                ids.extend(s["id"] for s in env["pickle"]["steps"])
                ids.append(env["pickle"]["id"])
        if len(set(ids)) != len(ids):
            return {"what": "duplicate ids in one stream", "ids": ids[:60]}
        return None
    a = oracle("ids-dense-and-resolve", docs, check_doc, describe=lambda it: it[0])
    b = oracle("ids-unique-in-stream", hist, check_hist)
    return [a, b]


def c11_histories(ctx):
    pool = P.corpus_sources()
    r = rng("c11hist")
    reqs = []
    for _ in range(S.n_for(150, 3000)):
        h = [[False, r.choice(pool) if r.random() < 0.6 else gen_docs.mutate(r.choice(pool), r)] for _ in range(r.randint(2, 4))]
        reqs.append(("parse_history", ["en", h]))

    def proj(res, req=None):
        if not isinstance(res, list):
            return res
        return [P.p_ids(x) for x in res]
    return differential("id-histories", reqs, proj=proj, nontrivial=lambda q, r: canon(q[1][1])[:300],
                        classify=lambda q, r: "len:%d" % len(q[1][1]))


prop("C11", streams=[std_e2e("C11", P.p_ids, nontrivial=nt_accepted("ids")), c11_histories,
                     compile_stream("C11", pj_pickles(pk_ids), nt_pickles(lambda p: True)), e2e_compile_docs("C11", pk_ids), o_ids, P.o_intended],
     sources=["parser.py"],
     rule="every id / astNodeIds / astNodeId, model vs implementation, single documents and histories through one generator; "
          "oracle: ids dense 0..n-1 and every reference resolves to a node of the right kind; intended canonical numbering (generator)")

# ---------------------------------------------------------------- C12
prop("C12", streams=[lambda ctx: P.regression_stream("C12"), P.unit_table_cells,
                     std_e2e("C12", P.p_cells, ngen=(300, 4000), nmut=(300, 4000), modes=(False, True),
                             nontrivial=lambda q, r: q[1][2] if "|" in q[1][2] else None)],
     rule="table_cells exhaustively over {|,\\,n,blank,a}^<=7 plus exotic blanks; cell values and ragged-table errors of parsed documents")


def c12_ragged(ctx):
    """every cell-count sequence of 1..4 rows x 0..4 cells (a bare | is a row of no cells), as data table and as examples table"""
    srcs = []
    for n in range(1, 5):
        for counts in itertools.product(range(0, 5), repeat=n):
            rows = "".join(("      |" + "|".join(" c%d " % j for j in range(k)) + "|\n") if k else "      |\n" for k in counts)
            srcs.append("Feature: f\n  Scenario: s\n    Given a table\n" + rows + "    And more\n")
            srcs.append("Feature: f\n  Scenario Outline: o\n    Given <c0>\n    Examples:\n" + rows + "\n  @t\n  Scenario: next\n")
    return e2e("cell-count-sequences", srcs, P.p_cells, modes=(False, True), exhaustive=True, nontrivial=nt_rejected)


def o_roundtrip(ctx):
    impl = impl_mod()
    r = rng("c12rt")
    alpha = ["a", "|", "\\", "n", "\n", " ", "\t", "é", "😀", "\\n", "x", "\ufdd0", "\ufdd1", "\ufdd0\ufdd0", "\ufdd1\ufdd1", "\ufffe", "\x00", "\x01", "\ue000"]
    vals = []
    for _ in range(S.n_for(3000, 60000)):
        v = "".join(r.choice(alpha) for _ in range(r.randint(0, 8)))
        v = v.strip(" \t")
        vals.append(v)

    def check(v):
        raw = v.replace("\\", "\\\\").replace("|", "\\|").replace("\n", "\\n")
        pad = r.choice(["", " ", "  "])
        got = impl.table_cells("|" + pad + raw + pad + "|")
        if isinstance(got, dict) or len(got) != 1 or got[0]["text"] != v:
            return {"what": "cell %r written with escapes read back as %r" % (v, got)}
        return None
    return oracle("escape-roundtrip", vals, check)


P.PROPS["C12"]["streams"].append(o_roundtrip)
P.PROPS["C12"]["streams"].insert(2, c12_ragged)

# ---------------------------------------------------------------- C13


def c13_docs(ctx):
    r = rng("c13")
    bodies = gen_docs.KIND_LINES + ['"""', "```", '\\"\\"\\"', "\\`\\`\\`", "  indented", "\tx", "", "    ", "Examples:", "| a |", "# language: fr", '""', "``` x"]
    srcs = []
    for i in range(S.n_for(1500, 30000)):
        delim = r.choice(['"""', "```"])
        ind = r.choice(["", "  ", "    ", "\t"])
        mt = r.choice(["", "", "json", " text/x ", "<h>"])
        n = r.randint(0, 6)
        body = []
        for _ in range(n):
            b = r.choice(bodies)
            if b.lstrip().startswith(delim):
                b = "x" + b
            body.append(r.choice(["", " ", "  ", "    ", "\t", "      "]) + b + r.choice(["", "", " ", "\t", "  \t ", "\u3000"]))
        host = r.choice(["Background:\n", "Scenario: s\n", "Scenario Outline: o\n", "Rule: r\nScenario: s\n"])
        after = r.choice(["", "And next\n", "Examples:\n|a|\n", "Scenario: t\n", "@tag\nScenario: u\n", "Rule: z\n", "| row |\n", delim + "\nx\n" + delim + "\n"])
        nl = r.choice(["\n", "\n", "\r\n"])
        src = "Feature: f\n" + host + "Given g\n" + ind + delim + mt + "\n" + "".join(x + "\n" for x in body) + r.choice(["", " ", "      "]) + delim + r.choice(["", " trailing"]) + "\n" + after
        if r.random() < 0.1:
            src = src[:src.rfind(delim)]  # unterminated
        srcs.append(src.replace("\n", nl))
    return e2e("docstrings", srcs, P.p_docstrings, nontrivial=lambda q, x: q[1][2] if "ok" in x else None)


prop("C13", streams=[c13_docs, std_e2e("C13", P.p_docstrings, ngen=(300, 4000), nmut=(200, 3000), nontrivial=nt_accepted("ds"))],
     sources=["parser.py"],
     rule="doc strings with bodies drawn from every kind of Gherkin-looking line, both delimiters, every indentation relation, in backgrounds/scenarios/outlines/rules; "
          "projection: docString fields, the step following it, the matcher's doc-string state afterwards")

# ---------------------------------------------------------------- C14


def c14_pairs(ctx):
    """every (state, unexpected kind) as real text: shortest kind path to each state, then each kind"""
    # BFS over the stub interpreter for a shortest accepted-prefix per state
    L = 5
    seen = {}
    frontier = [[]]
    kinds = S.KINDS[1:]
    reqs = [("stub_run", [False, []])]
    paths = {0: []}
    # use the model's stub_match_token to explore
    todo = [0]
    while todo:
        s = todo.pop(0)
        batch = [("stub_match_token", [False, s, k, rest]) for k in kinds for rest in ([], ["ScenarioLine"], ["ExamplesLine"])]
        res = run_model(batch)
        for (f, a), r in zip(batch, res):
            if "ok" in r and r["nerrs"] == 0 and r["ok"] not in paths and r["ok"] < 42 and not a[3]:
                paths[r["ok"]] = paths[s] + [a[2]]
                todo.append(r["ok"])
            elif "ok" in r and r["nerrs"] == 0 and r["ok"] not in paths and r["ok"] < 42:
                paths[r["ok"]] = paths[s] + [a[2]] + a[3]
                # the look-ahead consumed nothing: the rest tokens are still to be processed; only record state after the first
    srcs = []
    for s, w in sorted(paths.items()):
        for k in S.KINDS:
            lines = [S.CANON[x] for x in w] + ([S.CANON[k]] if k != "EOF" else [])
            srcs.append("\n".join(lines) + "\n")
            srcs.append("\n".join(lines + ["Scenario: after", "Given x"]) + "\n")
    c = e2e("state-x-kind", srcs, P.p_errors, modes=(False, True), nontrivial=nt_rejected)
    c.dist["states_reached"] = len(paths)
    return c


def c14_lookahead_errors(ctx):
    """errors raised inside and around look-ahead: an error-producing construct, then tag / comment / blank
    lines, then a tag line with whitespace (reported during the look-ahead and again when it is matched)"""
    pre = ["Feature: f\n  Scenario: s\n    Given g\n      | a | b |\n      | c |\n",
           "Feature: f\n  Scenario Outline: o\n    Given <a>\n    Examples:\n      | a |\n      | 1 | 2 |\n",
           "Feature: f\n  Scenario: s\n    Given g\n",
           "Feature: f\n  Rule: r\n  Background:\n    Given b\n      | x |\n      | y | z |\n",
           "Feature: f\n  Scenario: s\n    Given g\n    oops unexpected\n"]
    mids = [[], ["  @ok"], ["  @ok", "  # c"], ["", "  @ok1 @ok2", ""], ["  # c"], ["  @ok", "  @also"]]
    bads = ["  @bad tag", "  @a @b c", "@x y @z"]
    posts = ["  Scenario: t\n    Given h\n", "  Examples:\n    | a |\n", "  Rule: r2\n", "", "  @ok\n  Scenario: u\n", "  @bad tag\n  Scenario: v\n"]
    srcs = []
    for a in pre:
        for m in mids:
            for b in bads:
                for p_ in posts:
                    srcs.append(a + "".join(x + "\n" for x in m) + b + "\n" + p_)
    return e2e("errors-around-look-ahead", srcs, P.p_errors, modes=(False, True), nontrivial=nt_rejected, exhaustive=True)


def o_c14(ctx):
    impl = impl_mod()
    srcs = S.mutated_sources(S.n_for(600, 10000), salt="c14/o") + [s for d, _, s in S.corpus() if d == "bad"]
    for a in ("Feature: f\n  Scenario: s\n    Given g\n      | a | b |\n      | c |\n", "Feature: f\n  Scenario: s\n    Given g\n"):
        for m in ("", "  @ok\n", "  @ok\n  # c\n\n"):
            for b in ("  @bad tag\n", "  @a @b c\n  @bad tag\n"):
                srcs.append(a + m + b + "  Scenario: t\n")

    def check(src):
        a = impl.parse(False, "en", src)
        b = impl.parse(True, "en", src)
        if ("ok" in a) != ("ok" in b):
            return {"what": "collecting and stop-at-first-error modes disagree on acceptance"}
        if "errors" in a:
            if "error" not in b:
                return {"what": "stop mode raised %r" % (list(b),)}
            e0 = a["errors"][0]
            if (b["error"]["message"], b["error"]["location"]) != (e0["message"], e0["location"]):
                return {"what": "stop mode raised %r, collecting mode lists %r first" % (b["error"]["message"], e0["message"])}
            msgs = [e["message"] for e in a["errors"]]
            if len(set(msgs)) != len(msgs):
                return {"what": "identical messages reported twice"}
            if len(msgs) > 11:
                return {"what": "%d errors" % len(msgs)}
            n = len(src.split("\n")) + 1
            for e in a["errors"]:
                if not 1 <= e["location"]["line"] <= n:
                    return {"what": "error outside the document: %r" % (e["location"],)}
                if not e["message"].startswith("(%d:%d): " % (e["location"]["line"], e["location"].get("column") or 0)):
                    return {"what": "message does not start with its own position: %r" % e["message"][:50]}
            ev = impl.events(True, True, True, False, [["u", src]])
            kinds = [list(x)[0] for x in ev.get("envelopes", [])]
            if kinds != ["parseError"] * len(a["errors"]):
                return {"what": "rejected source yields envelopes %r for %d errors" % (kinds[:6], len(a["errors"]))}
        return None
    return oracle("error-mode-relations", srcs, check)


prop("C14", streams=[lambda ctx: P.regression_stream("C14"), P.stub_probe, c14_pairs, c14_lookahead_errors,
                     std_e2e("C14", P.p_errors, ngen=(100, 1000), nmut=(600, 12000), modes=(False, True), nontrivial=nt_rejected), o_c14],
     sources=TABLE_SOURCES,
     rule="error list (location, message) and stop-mode error, model vs implementation: every (state, kind) pair as real text, malformed documents, bad corpus; "
          "oracle: stop mode = first collected error, dedupe, cap, positions inside the document, parseError envelopes only")

# ---------------------------------------------------------------- C15

PERTURB = [
    "Feature: plain\n  Scenario: s\n    Given g\n",
    "#language: fr\nFonctionnalité: f\n  Scénario: s\n    Soit x\n",
    "#language: no-such\nFeature: f\n",
    'Feature: f\n  Scenario: s\n    Given g\n      """\n      open doc string\n',
    "Feature: f\n  Scenario: s\n    Given g\n        ```md\n   still open\n",
    "Feature: f\n" + "".join("| bad %d |\n" % i for i in range(14)),
    "Feature: f\n  Scenario: s\n  @open @tags\n",
    "Feature: f\n  Scenario: s\n  @t\n  # c\n\n",
    "@ a\nFeature: f\n",
    "Feature: f\n  Scenario Outline: o\n    Given <a>\n    Examples:\n      | a |\n      | 1 | 2 |\n",
    "",
    "# just a comment\n",
    "#language: em\n📚: f\n  📕: s\n    😐x\n",
    "Feature: f\n  Background:\n    Given b\n  Rule: r\n    Background:\n      Given rb\n    Example: e\n      When w\n",
    "Feature: f\n\n  desc\n  Scenario: s\n    Given g\n      | a | b |\n      | c |\n",
    # a builder error raised right after a successful look-ahead (tokens still queued when a stop-mode parse aborts)
    "Feature: f\n  Scenario: s\n    Given g\n      | a | b |\n      | c |\n  @tag\n  # c\n  Scenario: t\n    Given h\n",
    "Feature: f\n  Scenario Outline: o\n    Given <a>\n    Examples:\n      | a |\n      | 1 | 2 |\n    @e1\n\n    @e2\n    Examples:\n      | a |\n",
    "Feature: d\n      indented description\n  more\n  Scenario: s\n        deep description\n    Given g\n",
]


def c15_histories(ctx):
    reqs = []
    n = S.n_for(2, 3)
    pool = PERTURB
    for h in itertools.product(range(len(pool)), repeat=2):
        reqs.append(("parse_history", ["en", [[False, pool[i]] for i in h]]))
    r = rng("c15")
    for _ in range(S.n_for(300, 3000)):
        h = [[r.random() < 0.3, r.choice(pool)] for _ in range(r.randint(3, 5))]
        reqs.append(("parse_history", [r.choice(["en", "en", "fr"]), h]))

    def proj(res, req=None):
        if not isinstance(res, list):
            return res
        return [P.p_whole(x) for x in res]
    return differential("histories", reqs, proj=proj, nontrivial=lambda q, r: canon(q[1])[:400], classify=lambda q, r: "len:%d" % len(q[1][1]), exhaustive=False)


def shift_ids(v, k):
    if isinstance(v, dict):
        out = {}
        for key, x in v.items():
            if key in ("id", "astNodeId") and isinstance(x, str):
                out[key] = str(int(x) - k)
            elif key == "astNodeIds":
                out[key] = [str(int(y) - k) for y in x]
            else:
                out[key] = shift_ids(x, k)
        return out
    if isinstance(v, list):
        return [shift_ids(x, k) for x in v]
    return v


def o_c15(ctx):
    impl = impl_mod()
    pool = PERTURB + P.corpus_sources()[:12]
    triples = list(itertools.product(range(len(PERTURB)), repeat=2))
    r = rng("c15o")
    items = [(a, b, r.randrange(len(pool))) for a, b in triples]

    def check(it):
        a, b, c = it
        hist = [(False, pool[a]), (r.random() < 0.3, pool[b]), (False, pool[c])]
        reused = impl.parse_history("en", hist)
        if any("foreign" in x for x in reused):
            return {"what": "foreign exception in history: %r" % [x.get("foreign") for x in reused]}
        last = reused[-1]
        off = reused[-2]["idc"]
        fresh = impl.parse(False, "en", pool[c])
        lhs = shift_ids({k: v for k, v in last.items() if k in ("ok", "errors", "error")}, off)
        rhs = {k: v for k, v in fresh.items() if k in ("ok", "errors", "error")}
        if canon(lhs) != canon(rhs):
            return {"what": "result after history differs from fresh instances (modulo id offset %d)" % off, "reused": lhs, "fresh": rhs}
        if last["idc"] - off != fresh["idc"]:
            return {"what": "id consumption differs: %d vs %d" % (last["idc"] - off, fresh["idc"])}
        return None
    a = oracle("reused-vs-fresh", items, check, describe=lambda it: [pool[it[0]][:40], pool[it[1]][:40], pool[it[2]][:40]])

    # compile: deterministic, does not modify its input
    docs = [d for _, d in P.parsed_docs(P.corpus_sources() + [s for s, _ in S.gen_sources(S.n_for(150, 2000), salt="c15/c")])]

    def check_c(d):
        from gherkin.pickles.compiler import Compiler
        from gherkin.stream.id_generator import IdGenerator
        d1 = copy.deepcopy(d)
        d1["uri"] = "u"
        snap = copy.deepcopy(d1)
        p1 = Compiler(IdGenerator()).compile(d1)
        if canon(d1) != canon(snap):
            return {"what": "Compiler.compile modified its input"}
        p1s = copy.deepcopy(p1)
        cmp2 = Compiler(IdGenerator())
        p2 = cmp2.compile(d1)
        if canon(p1) != canon(p2):
            return {"what": "compile is not deterministic"}
        p3 = cmp2.compile(d1)
        if canon(p1) != canon(p1s):
            return {"what": "a later compile changed earlier pickles (aliasing)"}
        k = len(collect(p2, "id"))
        return None
    b = oracle("compile-pure", docs, check_c, describe=lambda d: canon(d)[:200])

    return [a, b]


def o_interleave(ctx):
    """two or three parsers switched at every TokenScanner.read by a baton-passing scheduler (threads)"""
    import threading
    impl = impl_mod()
    small = [PERTURB[0], PERTURB[1], PERTURB[3], PERTURB[9], "Feature: a\n@t\n\nScenario: b\nGiven c\n", "#language: ja\n機能: f\n",
             "Feature: z\n  Scenario Outline: o\n  Given <x>\n  Examples:\n  |x|\n  |1|\n",
             "Feature: q\n  Scenario: a\n    Given x\n  @t1\n  # c\n\n  @t2\n  Scenario: b\n    Given y\n  @t3\n  Scenario: c\n",
             # the end of file reached inside a look-ahead, reported as unexpected, or held while other parsers run
             "Feature: e\n  Scenario: s\n    Given g\n  @held\n  # c\n\n", "Feature: e\n  Scenario: s\n    Given g\n      \"\"\"\n      open\n", "@only\n", "",
             "Feature: e\n  Scenario Outline: o\n    Given <a>\n    @t\n"]
    alone = {s: impl.parse(False, "en", s) for s in small}
    r = rng("c15i")

    def run_schedule(srcs, sched, default_matcher=False, join_timeout=20):
        n = len(srcs)
        turn = {"who": None}
        cv = threading.Condition()
        pos = [0]
        done = [False] * n
        results = [None] * n

        def advance():
            # pick the next live parser according to the schedule
            while pos[0] < len(sched) and done[sched[pos[0]]]:
                pos[0] += 1
            if pos[0] < len(sched):
                turn["who"] = sched[pos[0]]
                pos[0] += 1
            else:
                live = [i for i in range(n) if not done[i]]
                turn["who"] = live[0] if live else None

        def handoff(me):
            with cv:
                advance()
                cv.notify_all()
                while turn["who"] != me:
                    cv.wait(timeout=5)
                    if turn["who"] is None:
                        break

        class YParser(impl.Parser):
            """switches to another parser before every token read (queue or scanner): token-read granularity"""

            def read_token(self, context):
                handoff(self.me)
                return super().read_token(context)

        def worker(i):
            with cv:
                while turn["who"] != i:
                    cv.wait(timeout=5)
            m = impl.CountingMatcher("en")
            g = impl.IdGenerator()
            p = YParser(impl.AstBuilder(g))
            p.me = i
            try:
                try:
                    # with or without an explicit matcher (Parser.parse makes its own when none is given)
                    doc = p.parse(impl.source_arg(srcs[i])) if default_matcher else p.parse(impl.source_arg(srcs[i]), m)
                    results[i] = {"ok": doc}
                except impl.CompositeParserException as e:
                    results[i] = {"errors": [impl.err_json(x) for x in e.errors]}
                except Exception as e:  # noqa
                    results[i] = {"foreign": type(e).__name__}
            finally:
                with cv:
                    done[i] = True
                    advance()
                    cv.notify_all()
        ths = [threading.Thread(target=worker, args=(i,)) for i in range(n)]
        with cv:
            advance()
        for t in ths:
            t.start()
        with cv:
            cv.notify_all()
        for t in ths:
            t.join(timeout=join_timeout)
        return results

    items = []
    for _ in range(S.n_for(150, 1500)):
        k = r.choice([2, 2, 3])
        srcs = [r.choice(small) for _ in range(k)]
        total = sum(s.count("\n") + 2 for s in srcs)
        sched = [r.randrange(k) for _ in range(total + 4)]
        items.append((srcs, sched, r.random() < 0.5))

    tripped = [False]

    def check(it):
        srcs, sched, dm = it
        if tripped[0]:
            return None          # one schedule that never finished has been reported; do not wait for the others
        res = run_schedule(srcs, sched, dm)
        if any(x is None for x in res):
            # a thread that did not finish in time: a busy machine is not a finding -- run the schedule again, patiently
            res = run_schedule(srcs, sched, dm, join_timeout=120)
            if any(x is None for x in res):
                tripped[0] = True
                return {"what": "an interleaved parse did not finish (threads still waiting after 120 s)", "sources": [s[:40] for s in srcs]}
        for s, x in zip(srcs, res):
            want = {k: v for k, v in alone[s].items() if k in ("ok", "errors", "error")}
            if x is None or canon(x) != canon(want):
                return {"what": "interleaved parse differs from the parse alone", "got": x, "alone": want}
        return None
    return oracle("interleavings", items, check, describe=lambda it: [[s[:30] for s in it[0]], it[1][:12], it[2]])


def static_scan(ctx):
    """no global statement, no class-level mutable attribute, no store into DIALECTS or dialect lists in python/gherkin"""
    import ast
    from common import PYDIR
    c = Corr("static-scan")
    root = os.path.join(PYDIR, "gherkin")
    for dp, _, files in os.walk(root):
        for fn in sorted(files):
            if not fn.endswith(".py"):
                continue
            path = os.path.join(dp, fn)
            tree = ast.parse(open(path, encoding="utf8").read())
            c.evaluations += 1
            c.nontrivial.add(path)
            for node in ast.walk(tree):
                if isinstance(node, ast.Global):
                    c.disagreements.append({"what": "global statement in %s:%d" % (path, node.lineno)})
                if isinstance(node, ast.ClassDef) and not any(b for b in node.bases if getattr(b, "id", "") in ("TypedDict", "Exception", "Enum")):
                    for st in node.body:
                        if isinstance(st, ast.Assign) and isinstance(st.value, (ast.List, ast.Dict, ast.Set)) and (st.value.elts if not isinstance(st.value, ast.Dict) else st.value.keys):
                            pass  # a non-empty class-level literal is read-only data in this code base
                        if isinstance(st, ast.Assign) and isinstance(st.value, (ast.List, ast.Dict, ast.Set)) and not (st.value.elts if not isinstance(st.value, ast.Dict) else st.value.keys):
                            c.disagreements.append({"what": "class-level empty mutable attribute in %s:%d" % (path, st.lineno)})
                if isinstance(node, (ast.Assign, ast.AugAssign)):
                    tgts = node.targets if isinstance(node, ast.Assign) else [node.target]
                    for t in tgts:
                        if isinstance(t, ast.Subscript) and "DIALECTS" in ast.dump(t.value):
                            c.disagreements.append({"what": "store into DIALECTS in %s:%d" % (path, node.lineno)})
    c.samples = [{"scanned": sorted(c.nontrivial)[:3]}]
    return c


prop("C15", streams=[c15_histories, lambda ctx: o_c15(ctx), o_interleave, static_scan],
     sources=["parser.py"],
     rule="all ordered pairs of %d state-perturbing documents (and sampled longer histories) through one Parser/TokenMatcher/IdGenerator, model vs implementation; "
          "oracle: reused = fresh modulo id offset; compile twice / deep-copy equality; interleavings at TokenScanner.read with a baton scheduler" % len(PERTURB),
     assumptions=["concurrency and non-mutation of the compiler's input are statements about shared Python objects: decided by the harness, not by the functional model (partial)"])

# ---------------------------------------------------------------- C16


def o_c16(ctx):
    impl = impl_mod()
    srcs = P.corpus_sources() + [s for s, _ in S.gen_sources(S.n_for(150, 3000), salt="c16")] + S.mutated_sources(S.n_for(80, 1500), salt="c16/m")
    srcs = [s for s in srcs if "\r" not in s.replace("\r\n", "")]
    srcs += ["\ufeffFeature: f\n  Scenario: s\n    Given g\n", "\ufeff# language: fr\nFonctionnalité: f\n", "Feature: f\n  \ufeffScenario: s\n    Given \ufeff g\n"]
    # rejected documents whose offending lines are long (messages quote the trimmed line, whatever its length)
    for n in [20, 127, 200, 300] + list(range(80, 104)):
        w = ("x" * n)
        srcs.append("Feature: f\n  Scenario: s\n    Given g\n      | a |\n    Examples: %s\n  Scenario: t\n" % w)
        srcs.append("Feature: f\n  Scenario: s\n    Given %s\n  @t\n  | %s |\n" % (w, w))
        srcs.append("Feature: f\n  Background: b\n    When %s\n  Feature: %s\n" % (w, w))
    r = rng("c16o")
    D = S.dialects()
    for code in sorted(D)[::S.n_for(6, 1)]:
        d = D[code]
        giv = [x for x in d["given"] if x != "* "][0]
        for hdr in ("# language: %s\n" % code, "#language:%s\n\n" % code, "# a comment\n# language: %s\n" % code):
            srcs.append(hdr + "@t\n" + d["feature"][0] + ": f\n\n  " + d["scenario"][-1] + ": s\n    " + giv + "a\n      | x |\n")

    def res_of(src):
        x = impl.parse(False, "en", src)
        return {k: v for k, v in x.items() if k in ("ok", "errors", "foreign")}

    def shift_lines(v, at, by=1):
        if isinstance(v, dict):
            out = {}
            for k, x in v.items():
                if k == "location":
                    x = dict(x)
                    if x["line"] >= at:
                        x["line"] += by
                    out[k] = x
                elif k == "message" and isinstance(x, str):
                    # the message starts with its own location, "(line:column): ..."
                    import re
                    out[k] = re.sub(r"^\((\d+):(\d+)\)", lambda m: "(%d:%s)" % (int(m.group(1)) + (by if int(m.group(1)) >= at else 0), m.group(2)), x)
                else:
                    out[k] = shift_lines(x, at, by)
            return out
        if isinstance(v, list):
            return [shift_lines(x, at, by) for x in v]
        return v

    def line_states(src):
        """state the parser is in before each line (stub trace through the real parser): use the token kinds"""
        return None

    def check(src):
        base_src = src.replace("\r\n", "\n")
        base = res_of(base_src)
        if "foreign" in base:
            return {"what": "foreign exception"}
        # CRLF
        crlf = res_of(base_src.replace("\n", "\r\n"))
        if canon(crlf) != canon(base):
            return {"what": "CRLF line endings change the result", "variant": "crlf"}
        # file vs string
        d = tempfile.mkdtemp(prefix="verif-c16-")
        try:
            p = os.path.join(d, "x.feature")
            with open(p, "w", encoding="utf8", newline="") as f:
                f.write(base_src.replace("\n", "\r\n") if r.random() < 0.5 else base_src)
            try:
                g = impl.IdGenerator()
                doc = impl.Parser(impl.AstBuilder(g)).parse(impl.TokenScanner(p), impl.TokenMatcher("en"))
                fr = {"ok": doc}
            except impl.CompositeParserException as e:
                fr = {"errors": [impl.err_json(x) for x in e.errors]}
        finally:
            for fn in os.listdir(d):
                os.unlink(os.path.join(d, fn))
            os.rmdir(d)
        if canon(fr) != canon(base):
            return {"what": "loading from a file changes the result", "variant": "file"}
        # final newline
        if "ok" in base:
            alt = base_src[:-1] if base_src.endswith("\n") else base_src + "\n"
            # only when the last line is not inside a doc string / description (content is not layout there)
            a = res_of(alt)
            if "ok" in a and canon(erase(a["ok"], ())) != canon(base["ok"]):
                last = base_src.rstrip("\n").split("\n")[-1] if base_src.strip("\n") else ""
                if base_src.endswith("\n\n") or not base_src.endswith("\n") or True:
                    # a trailing newline never adds a line; differences are a violation
                    if not base_src.endswith("\n\n") and alt != base_src:
                        return {"what": "presence of a final line break changes the AST", "variant": "final-newline"}
        lines = base_src.split("\n")
        # a blank line at the very top (before a language header, too) changes only line numbers
        for blank in ("", "  ", "\t"):
            a = res_of(blank + "\n" + base_src)
            if canon(a) != canon(shift_lines(base, 1)):
                return {"what": "inserting a blank line at the top changes more than line numbers", "variant": blank + "\n" + base_src}
        if "errors" in base:
            # rejected documents: trailing blanks on a keyword / step / tag / table-row / delimiter line that is reported
            # as unexpected change nothing either (the message quotes the trimmed line)
            heads = ("Given ", "When ", "Then ", "And ", "But ", "* ", "Feature:", "Rule:", "Background:", "Scenario:", "Scenario Outline:",
                     "Example:", "Examples:", "Scenarios:", "@", "|", '"""', "```")
            for e in base["errors"][:4]:
                i = e["location"]["line"] - 1
                if 0 <= i < len(lines) and lines[i].strip().startswith(heads) and lines[i].strip():
                    for pad_ in (" ", "\t", "  \t "):
                        pad = lines[:]
                        pad[i] = pad[i] + pad_
                        if canon(res_of("\n".join(pad))) != canon(base):
                            return {"what": "trailing blanks on the rejected line %d change the errors" % (i + 1), "variant": "\n".join(pad)}
        if "ok" not in base or not base["ok"].get("feature"):
            return None
        # classify lines: the kind under which each line reached the builder
        kinds = line_kinds(impl, base_src)
        if kinds is None or len(kinds) != len([x for x in lines]) - (1 if base_src.endswith("\n") or base_src == "" else 0):
            return None
        structural = {"FeatureLine", "RuleLine", "BackgroundLine", "ScenarioLine", "ExamplesLine", "StepLine", "TagLine", "TableRow"}
        # trailing blanks / extra indentation on one structural line
        idx = [i for i, k in enumerate(kinds) if k in structural]
        for i in r.sample(idx, min(len(idx), S.n_for(3, 12))):
            pad = lines[:]
            pad[i] = pad[i] + r.choice([" ", "  \t", "\xa0"])
            if canon(res_of("\n".join(pad))) != canon(base):
                return {"what": "trailing blanks on line %d (%s) change the result" % (i + 1, kinds[i]), "variant": "\n".join(pad)}
            ind = lines[:]
            extra = r.choice([" ", "  ", "\t"])
            ind[i] = extra + ind[i]
            a = res_of("\n".join(ind))
            if "ok" not in a or canon(erase_cols(a["ok"])) != canon(erase_cols(base["ok"])):
                return {"what": "extra indentation of line %d (%s) changes more than columns" % (i + 1, kinds[i]), "variant": "\n".join(ind)}
        # blank / comment insertion before a structural line that is not inside a description or doc string
        for i in r.sample(idx, min(len(idx), S.n_for(3, 12))):
            prev = kinds[i - 1] if i else None
            if prev in ("Other",) or (prev == "Comment" and in_description(kinds, i)):
                continue
            if prev == "Empty" and in_description(kinds, i):
                continue
            ins = lines[:i] + [""] + lines[i:]
            a = res_of("\n".join(ins))
            if canon(a) != canon(shift_lines(base, i + 1)):
                return {"what": "inserting a blank line before line %d (%s) changes more than line numbers" % (i + 1, kinds[i]), "variant": "\n".join(ins)}
            if kinds[i] == "TagLine" or True:
                cm = "  # inserted comment"
                insc = lines[:i] + [cm] + lines[i:]
                a = res_of("\n".join(insc))
                want = shift_lines(base, i + 1)
                if "ok" in a:
                    got_comments = a["ok"]["comments"]
                    exp_comments = sorted(want["ok"]["comments"] + [{"location": {"line": i + 1, "column": 1}, "text": cm}], key=lambda c: c["location"]["line"])
                    a2 = dict(a["ok"], comments=None)
                    w2 = dict(want["ok"], comments=None)
                    if canon(got_comments) != canon(exp_comments) or canon(a2) != canon(w2):
                        return {"what": "inserting a comment before line %d (%s) changes more than that comment and line numbers" % (i + 1, kinds[i]), "variant": "\n".join(insc)}
                else:
                    return {"what": "inserting a comment before line %d (%s) makes the document rejected" % (i + 1, kinds[i]), "variant": "\n".join(insc)}
        return None
    return oracle("layout-transformations", srcs, check)


def line_kinds(impl, src):
    class Rec:
        def __init__(self):
            self.k = []

        def reset(self):
            self.k = []

        def start_rule(self, r):
            pass

        def end_rule(self, r):
            pass

        def build(self, t):
            if not t.eof():
                self.k.append(t.matched_type)

        def get_result(self):
            return None
    b = Rec()
    try:
        impl.Parser(b).parse(impl.source_arg(src), impl.TokenMatcher("en"))
    except impl.ParserException:
        return None
    return b.k


def in_description(kinds, i):
    """is line i (a structural line) preceded by description lines (Other/Comment/Empty run that contains an Other
    or starts right after a title line with Comment)?  Conservative: any Other/Comment run directly before."""
    j = i - 1
    while j >= 0 and kinds[j] in ("Empty", "Comment", "Other"):
        if kinds[j] in ("Other",):
            return True
        if kinds[j] == "Comment":
            # a comment after a title line starts a description; blank lines after it belong to it
            k = j - 1
            while k >= 0 and kinds[k] in ("Empty", "Comment"):
                k -= 1
            if k >= 0 and kinds[k] in ("FeatureLine", "RuleLine", "BackgroundLine", "ScenarioLine", "ExamplesLine", "Other"):
                return True
        j -= 1
    return False


def erase_cols(v):
    if isinstance(v, dict):
        return {k: ({"line": x["line"]} if k == "location" else erase_cols(x)) for k, x in v.items()}
    if isinstance(v, list):
        return [erase_cols(x) for x in v]
    return v


def c16_crlf_model(ctx):
    """the same layout variants through model and implementation (whole results)"""
    srcs = []
    for s in P.corpus_sources()[:30] + [x for x, _ in S.gen_sources(S.n_for(100, 1500), salt="c16/m2")]:
        b = s.replace("\r\n", "\n")
        srcs += [b.replace("\n", "\r\n"), b.rstrip("\n"), b + "\n\n"]
    return e2e("layout-variants", srcs, P.p_whole, nontrivial=lambda q, r: q[1][2] if "\r\n" in q[1][2] else None)


prop("C16", streams=[c16_crlf_model, o_c16], sources=["parser.py"],
     rule="each layout transformation (CRLF, file loading, final newline, trailing blanks, extra indentation, blank / comment insertion before structural lines) "
          "applied at sampled (quick) positions of corpus, generated and malformed documents; result compared modulo the relation's allowed difference",
     assumptions=["A-io: text-mode file reading with universal newlines = CRLF/CR -> LF (checked by the file-vs-string oracle, modelled as universal_newlines)"])

# ---------------------------------------------------------------- C17


KT = {"Unknown", "Context", "Action", "Outcome", "Conjunction"}
PT = {"Unknown", "Context", "Action", "Outcome"}


def wf_envelope(env):
    """Schema reading of Cucumber Messages for the four envelope kinds (DESIGN 6.C17)."""
    def is_loc(x):
        return isinstance(x, dict) and isinstance(x.get("line"), int) and set(x) <= {"line", "column"} and ("column" not in x or isinstance(x["column"], int))

    def no_none(v):
        if v is None:
            return False
        if isinstance(v, dict):
            return all(no_none(x) for x in v.values())
        if isinstance(v, list):
            return all(no_none(x) for x in v)
        return True

    def req(d, spec):
        for k, t in spec.items():
            if k.endswith("?"):
                k = k[:-1]
                if k not in d:
                    continue
            elif k not in d:
                return "missing %s" % k
            v = d[k]
            if t == "str" and not isinstance(v, str):
                return "%s not a string" % k
            if t == "loc" and not is_loc(v):
                return "%s not a location" % k
            if t == "list" and not isinstance(v, list):
                return "%s not a list" % k
        extra = set(d) - {k.rstrip("?") for k in spec}
        if extra:
            return "unexpected keys %r" % sorted(extra)
        return None
    try:
        json.dumps(env)
    except Exception as e:  # noqa
        return "not JSON-serialisable: %r" % e
    if not no_none(env):
        return "null value present"
    if len(env) != 1:
        return "envelope with keys %r" % list(env)
    (k, v), = env.items()
    if k == "source":
        return req(v, {"uri": "str", "data": "str", "mediaType": "str"}) or (None if v["mediaType"] == "text/x.cucumber.gherkin+plain" else "media type")
    if k == "parseError":
        e = req(v, {"source": "dict", "message": "str"})
        if e:
            return e
        return req(v["source"], {"uri": "str", "location": "loc"})
    if k == "pickle":
        e = req(v, {"astNodeIds": "list", "id": "str", "tags": "list", "name": "str", "language": "str", "steps": "list", "uri": "str"})
        if e:
            return e
        for t in v["tags"]:
            e = req(t, {"astNodeId": "str", "name": "str"})
            if e:
                return e
        for s in v["steps"]:
            e = req(s, {"astNodeIds": "list", "id": "str", "type": "str", "text": "str", "argument?": "dict"})
            if e:
                return e
            if s["type"] not in PT:
                return "pickle step type %r" % s["type"]
            if "argument" in s:
                a = s["argument"]
                if set(a) == {"dataTable"}:
                    for row in a["dataTable"]["rows"]:
                        for c in row["cells"]:
                            if not isinstance(c.get("value"), str):
                                return "table cell value"
                elif set(a) == {"docString"}:
                    e = req(a["docString"], {"content": "str", "mediaType?": "str"})
                    if e:
                        return e
                else:
                    return "argument keys %r" % list(a)
        return None
    if k == "gherkinDocument":
        e = req(v, {"uri": "str", "feature?": "dict", "comments": "list"})
        if e:
            return e
        for c in v["comments"]:
            e = req(c, {"location": "loc", "text": "str"})
            if e:
                return e
        f = v.get("feature")
        if f is None:
            return None
        e = req(f, {"tags": "list", "location": "loc", "language": "str", "keyword": "str", "name": "str", "description": "str", "children": "list"})
        if e:
            return e

        def tags(ts):
            for t in ts:
                e = req(t, {"id": "str", "location": "loc", "name": "str"})
                if e:
                    return e

        def rows(rs):
            for r_ in rs:
                e = req(r_, {"id": "str", "location": "loc", "cells": "list"})
                if e:
                    return e
                for c in r_["cells"]:
                    e = req(c, {"location": "loc", "value": "str"})
                    if e:
                        return e

        def steps(ss):
            for s in ss:
                e = req(s, {"id": "str", "location": "loc", "keyword": "str", "keywordType": "str", "text": "str", "dataTable?": "dict", "docString?": "dict"})
                if e:
                    return e
                if s["keywordType"] not in KT:
                    return "keywordType %r" % s["keywordType"]
                if "dataTable" in s:
                    e = req(s["dataTable"], {"location": "loc", "rows": "list"}) or rows(s["dataTable"]["rows"])
                    if e:
                        return e
                if "docString" in s:
                    e = req(s["docString"], {"location": "loc", "content": "str", "delimiter": "str", "mediaType?": "str"})
                    if e:
                        return e

        def background(b):
            return req(b, {"id": "str", "location": "loc", "keyword": "str", "name": "str", "description": "str", "steps": "list"}) or steps(b["steps"])

        def scenario(s):
            e = req(s, {"id": "str", "tags": "list", "location": "loc", "keyword": "str", "name": "str", "description": "str", "steps": "list", "examples": "list"})
            if e:
                return e
            e = tags(s["tags"]) or steps(s["steps"])
            if e:
                return e
            for x in s["examples"]:
                e = req(x, {"id": "str", "tags": "list", "location": "loc", "keyword": "str", "name": "str", "description": "str", "tableHeader?": "dict", "tableBody": "list"})
                if e:
                    return e
                e = tags(x["tags"]) or rows(([x["tableHeader"]] if "tableHeader" in x else []) + x["tableBody"])
                if e:
                    return e

        def children(cs, in_rule):
            for c in cs:
                if set(c) == {"background"}:
                    e = background(c["background"])
                elif set(c) == {"scenario"}:
                    e = scenario(c["scenario"])
                elif set(c) == {"rule"} and not in_rule:
                    ru = c["rule"]
                    e = req(ru, {"id": "str", "tags": "list", "location": "loc", "keyword": "str", "name": "str", "description": "str", "children": "list"}) \
                        or tags(ru["tags"]) or children(ru["children"], True)
                else:
                    e = "child keys %r" % list(c)
                if e:
                    return e
        return tags(f["tags"]) or children(f["children"], False)
    return "unknown envelope kind %r" % k


def c17_events(ctx):
    r = rng("c17")
    pool = P.corpus_sources() + [s for s, _ in S.gen_sources(S.n_for(150, 2500), salt="c17")] + S.mutated_sources(S.n_for(100, 2000), salt="c17/m")
    reqs = []
    for i, s in enumerate(pool):
        o = [(i >> k) & 1 == 1 for k in range(3)]
        reqs.append(("events", o + [(i >> 3) & 1 == 1, [["f%d.feature" % i, s]]]))
    for _ in range(S.n_for(150, 2500)):
        o = [r.random() < 0.5 for _ in range(3)]
        reqs.append(("events", o + [r.random() < 0.3, [["u%d" % j, r.choice(pool)] for j in range(r.randint(2, 4))]]))
    return differential("events", reqs, nontrivial=lambda q, x: canon(q[1])[:300] if x.get("envelopes") else None,
                        classify=lambda q, x: "opts:%d%d%d stop:%d" % tuple(q[1][:4]))


def o_c17(ctx):
    impl = impl_mod()
    r = rng("c17o")
    pool = P.corpus_sources() + [s for s, _ in S.gen_sources(S.n_for(200, 3000), salt="c17o")] + S.mutated_sources(S.n_for(150, 2500), salt="c17o/m")
    items = [(s, [r.random() < 0.7 for _ in range(3)]) for s in pool]

    def check(it):
        src, (ps, pa, pp) = it
        ev = impl.events(ps, pa, pp, False, [["the.uri", src]])
        if "envelopes" not in ev:
            return {"what": "enum raised %r" % (ev,)}
        envs = ev["envelopes"]
        for e in envs:
            bad = wf_envelope(e)
            if bad:
                return {"what": "ill-formed envelope: %s" % bad, "envelope": e}
        kinds = [list(e)[0] for e in envs]
        if "parseError" in kinds:
            if set(kinds) != {"parseError"}:
                return {"what": "rejected source mixes envelope kinds %r" % kinds[:8]}
            return None
        exp = (["source"] if ps else []) + (["gherkinDocument"] if pa else [])
        if kinds[:len(exp)] != exp or any(k != "pickle" for k in kinds[len(exp):]) or (not pp and len(kinds) != len(exp)):
            return {"what": "envelope order %r for options %r" % (kinds[:8], (ps, pa, pp))}
        if ps and envs[0]["source"] != {"uri": "the.uri", "data": src, "mediaType": "text/x.cucumber.gherkin+plain"}:
            return {"what": "source envelope does not carry the text verbatim"}
        if pa and envs[len(exp) - 1]["gherkinDocument"].get("uri") != "the.uri":
            return {"what": "gherkinDocument without the uri"}
        return None
    a = oracle("envelope-shape-and-order", items, check, describe=lambda it: [it[0][:200], it[1]])

    def check_seq(srcs):
        whole = impl.events(True, True, True, False, [["u%d" % i, s] for i, s in enumerate(srcs)])
        idc = 0
        acc = []
        for i, s in enumerate(srcs):
            ge = impl.GherkinEvents(impl.GherkinEvents.Options(print_source=True, print_ast=True, print_pickles=True))
            for _ in range(idc):
                ge.id_generator.get_next_id()
            orig = ge.parser.parse
            ge.parser.parse = lambda x, m=None, orig=orig: orig(impl.source_arg(x), m)
            acc.extend(copy.deepcopy(x) for x in ge.enum({"source": {"uri": "u%d" % i, "data": s, "mediaType": "text/x.cucumber.gherkin+plain"}}))
            idc = impl.read_counter(ge.id_generator)
        if canon(whole.get("envelopes")) != canon(acc):
            return {"what": "a source's envelopes depend on more than the source and the running id counter"}
        return None
    seqs = [[r.choice(pool) for _ in range(r.randint(2, 4))] for _ in range(S.n_for(60, 800))]
    b = oracle("per-source-independence", seqs, check_seq, describe=lambda s: [x[:60] for x in s])
    return [a, b]


prop("C17", streams=[c17_events, o_c17],
     rule="8 option combinations x corpus/generated/malformed sources x sequences through one stream, envelopes model vs implementation; "
          "oracle: schema reading of Cucumber Messages, order, verbatim source, per-source independence",
     trusted=["the Messages schema as read in tools/props_registry.py:wf_envelope (the schema itself is not in this repository)"])

# ---------------------------------------------------------------- C18


def c18_tokens(ctx):
    reqs = []
    import glob
    from common import REPO
    for f in sorted(glob.glob(os.path.join(REPO, "testdata", "good", "*.feature"))):
        with open(f, encoding="utf8", newline="") as fh:
            src = fh.read()
        reqs.append(("tokens", ["en", src]))
    gs = [s for s, _ in S.gen_sources(S.n_for(300, 5000), salt="c18")] + S.mutated_sources(S.n_for(200, 4000), salt="c18/m")
    reqs += [("tokens", ["en", s]) for s in gs]
    return differential("token-listing", reqs, nontrivial=lambda q, r: q[1][1] if "ok" in r else None,
                        classify=lambda q, r: outcome(r))


def o_c18(ctx):
    impl = impl_mod()
    import glob
    from common import REPO
    files = sorted(glob.glob(os.path.join(REPO, "testdata", "good", "*.feature")))

    def check(f):
        with open(f, encoding="utf8", newline="") as fh:
            src = fh.read()
        with open(f + ".tokens", encoding="utf8", newline="") as fh:
            want = fh.read()
        got = impl.tokens("en", src)
        if "ok" not in got:
            return {"what": "good corpus file rejected"}
        if got["ok"].replace("\r\n", "\n").rstrip("\n") != want.replace("\r\n", "\n").rstrip("\n"):
            return {"what": "token listing differs from the reference listing %s.tokens" % os.path.basename(f)}
        return None
    a = oracle("reference-token-listings", files, check, describe=os.path.basename)

    # delivery: recording builder on real text
    from gherkin.parser import Parser
    from gherkin.token_matcher import TokenMatcher

    class Rec:
        def __init__(self):
            self.toks = []

        def reset(self):
            self.toks = []

        def start_rule(self, r):
            pass

        def end_rule(self, r):
            pass

        def build(self, t):
            self.toks.append((t.location["line"], t.eof()))

        def get_result(self):
            return None
    srcs = P.corpus_sources() + [s for s, _ in S.gen_sources(S.n_for(300, 5000), salt="c18/d")] + S.mutated_sources(S.n_for(300, 5000), salt="c18/dm")

    ABORT = "Feature: f\n  Scenario: s\n    Given g\n      | a | b |\n      | c |\n  @tag\n  # c\n  Scenario: t\n    Given h\n"
    counter = [0]

    def check_d(src):
        counter[0] += 1
        if counter[0] % 7 == 0:
            # an earlier parse on another parser aborted while look-ahead tokens were queued
            pa = Parser(impl.AstBuilder())
            pa.stop_at_first_error = True
            try:
                pa.parse(impl.source_arg(ABORT), TokenMatcher("en"))
            except impl.ParserException:
                pass
        b = Rec()
        p = Parser(b)
        errs = []
        try:
            p.parse(impl.source_arg(src), TokenMatcher("en"))
        except impl.CompositeParserException as e:
            errs = e.errors
        nlines = len(src.split("\n")) - (1 if src.endswith("\n") or src == "" else 0)
        if src == "":
            nlines = 0
        if not errs:
            want = [(i + 1, False) for i in range(nlines)] + [(nlines + 1, True)]
            if b.toks != want:
                return {"what": "builder did not receive one token per line in order then one EOF", "got": b.toks[:30], "lines": nlines}
        else:
            if len(errs) <= 10:
                bad = sorted(set(e.location["line"] for e in errs if type(e).__name__ in ("UnexpectedTokenException", "UnexpectedEOFException")))
                seen = [l for l, _ in b.toks]
                if len(seen) != len(set(seen)):
                    return {"what": "a line was delivered twice", "got": b.toks[:30]}
                # tag / language errors: the matcher raised, the line is then offered to the remaining tests
                every = sorted(set(seen) | set(bad))
                if every != list(range(1, nlines + 2)):
                    return {"what": "a line was neither delivered nor reported", "delivered": seen[:40], "reported": bad}
                if set(seen) & set(bad):
                    return {"what": "a line was both delivered and reported unexpected", "both": sorted(set(seen) & set(bad))}
        return None
    b = oracle("delivery-on-real-text", srcs, check_d)
    return [a, b]


prop("C18", streams=[P.stub_sequences, P.stub_probe, c18_tokens, o_c18], sources=["parser.py"],
     rule="builder events of the real Parser with stub matcher on all kind sequences up to the bound (recording builder), token listings model vs implementation, "
          "reference .tokens listings of testdata/good, delivery oracle (one token per line in order, then one EOF) on real text")


# ---------------------------------------------------------------- search (table-level obligations)

def table_walks(n, maxlen, salt):
    """kind sequences produced by random walks over the regenerated transition table (so that
    transitions present in the current parser.py are exercised), with skip-token noise"""
    from common import GEN
    r = rng(salt)
    try:
        tj = json.load(open(os.path.join(GEN, "table.json")))
        table = {int(k): v for k, v in tj["table"].items()}
        start = tj["start_state"]
    except Exception:  # noqa
        table, start = None, 0
    out = []
    for _ in range(n):
        w = []
        if table is None:
            w = [r.choice(S.KINDS[1:]) for _ in range(r.randint(1, maxlen))]
        else:
            s = start
            while len(w) < maxlen and s in table:
                tests = table[s][0]
                k, la, prods, tgt = r.choice(tests)
                if k == "EOF":
                    break
                w.append(k)
                s = tgt
                while r.random() < 0.15 and len(w) < maxlen:
                    w.append(r.choice(["Comment", "Empty", "TagLine"]))
        out.append(w)
    return out


def transition_cover():
    """one kind sequence per transition of the regenerated table: shortest path to the source state,
    the transition's kind, shortest completion to the end state (guards ignored: a heuristic generator)"""
    from common import GEN
    try:
        tj = json.load(open(os.path.join(GEN, "table.json")))
        table = {int(k): v for k, v in tj["table"].items()}
        start = tj["start_state"]
    except Exception:  # noqa
        return []
    path = {start: []}
    todo = [start]
    while todo:
        s = todo.pop(0)
        for k, la, prods, tgt in table.get(s, [[], [], 0])[0]:
            if k != "EOF" and tgt not in path:
                path[tgt] = path[s] + [k]
                todo.append(tgt)
    # completion: backward BFS to a state with an EOF test
    comp = {s: [] for s in table if any(t[0] == "EOF" for t in table[s][0])}
    changed = True
    while changed:
        changed = False
        for s in table:
            for k, la, prods, tgt in table[s][0]:
                if k != "EOF" and tgt in comp and (s not in comp or len(comp[s]) > len(comp[tgt]) + 1):
                    comp[s] = [k] + comp[tgt]
                    changed = True
    out = []
    for s in sorted(path):
        for k, la, prods, tgt in table[s][0]:
            if k == "EOF":
                out.append(path[s])
                continue
            tail = comp.get(tgt)
            if tail is None:
                continue
            out.append(path[s] + [k] + tail)
            if k == "TagLine":
                for follow in ("ScenarioLine", "ExamplesLine", "RuleLine"):
                    for noise in ([], ["Comment"], ["Empty", "TagLine"]):
                        # what may follow the tag run in the target state
                        nxt = [t for t in table.get(tgt, [[], [], 0])[0] if t[0] == follow]
                        if nxt and nxt[0][3] in comp:
                            out.append(path[s] + [k] + noise + [follow] + comp[nxt[0][3]])
    return out


def concretise(w):
    lines = []
    in_doc = False
    for k in w:
        if k == "DocStringSeparator":
            in_doc = not in_doc
        lines.append(S.CANON[k])
    return "\n".join(lines) + ("\n" if lines else "")


def search_c02(ctx):
    impl = impl_mod()
    walks = table_walks(S.n_for(6000, 60000), 14, "search/c02")
    walks += list(S.kind_sequences(3)) + transition_cover()
    seen = set()
    uniq = []
    for w in walks:
        t = tuple(w)
        if t not in seen:
            seen.add(t)
            uniq.append(w)
    ires = run_impl_batch([("stub_run", [False, w]) for w in uniq])
    mres = run_model([("ref_accepts", [w]) for w in uniq] + [("valid_events", [r["events"]]) for r in ires])
    refs, valids = mres[:len(uniq)], mres[len(uniq):]

    def bad(w):
        r = impl.stub_run(False, w)
        acc = "ok" in r and r["nerrs"] == 0
        ref, valid = run_model([("ref_accepts", [w]), ("valid_events", [r["events"]])])
        if acc != ref:
            return "the generated parser %s a token sequence that %s a sentence of gherkin.berp" % (
                "accepts" if acc else "rejects", "is not" if acc else "is")
        if acc and valid is not True:
            return "accepted, but the rule events reported to the builder are not a derivation of gherkin.berp"
        return None
    cands = []
    for w, r, ref, valid in zip(uniq, ires, refs, valids):
        acc = "ok" in r and r["nerrs"] == 0
        if acc != ref or (acc and valid is not True):
            cands.append(w)
    if not cands:
        return None
    w = min(cands, key=len)
    # shrink
    changed = True
    while changed:
        changed = False
        for i in range(len(w)):
            c = w[:i] + w[i + 1:]
            if bad(c):
                w, changed = c, True
                break
    why = bad(w)
    text = concretise(w)
    real = impl.parse(False, "en", text)
    return {"what": why, "kinds": w, "text": text, "real_parser_on_text": P.p_errors(real),
            "request": ["stub_run", [False, w]], "oracle": "RefSem.accepts_ref / valid_events (extracted)"}


P.PROPS["C02"]["search"] = search_c02


# ---------------------------------------------------------------- C19 (Markdown matcher, line level)

def c19_keywords(ctx):
    reqs = []
    indents = ["", " ", "   "] if S.n_for(0, 1) == 0 else ["", " ", "  ", "   ", "\t"]
    deep = ["    ", "      ", " \t ", "         "] if S.n_for(0, 1) == 0 else ["    ", "     ", "      ", " \t ", "\t\t", "         ", " " * 17]
    for code, role, k in S.all_keywords():
        ms = S.mstate(code)
        if role in S.TITLE_ROLES:
            kind = S.ROLE_KIND[role]
            for depth in range(0, 8):
                for ind in indents:
                    reqs.append(("match_md", [kind, ms, False, ind + "#" * depth + " " + k + ": the title \n", 4]))
            for depth in (1, 2, 6):
                for ind in deep:     # any indentation: four or more blanks do not make the line a code block
                    reqs.append(("match_md", [kind, ms, False, ind + "#" * depth + " " + k + ": deep title\n", 4]))
            for title in ("see ticket #", "#", "x ##", "C#", "a # b", "## x ##", "x #\t"):   # a title is the trimmed rest, '#' included
                reqs.append(("match_md", [kind, ms, False, "## " + k + ": " + title + "\n", 4]))
            for title in (":", "::", ":Billing::Invoices", ": x", "x:", " :y: ", ":\t:"):     # ... and colons: only the keyword's own colon is taken
                reqs.append(("match_md", [kind, ms, False, "# " + k + ":" + title + "\n", 4]))
            reqs.append(("match_md", [kind, ms, False, "##" + k + ": no blank\n", 4]))
            reqs.append(("match_md", [kind, ms, False, "##\t" + k + ":tab\r\n", 4]))
            reqs.append(("match_md", [kind, ms, False, k + ": no header prefix\n", 4]))
            reqs.append(("match_md", [kind, ms, True, "# " + k + ":\n", 4]))
            reqs.append(("match_md", [kind, ms, False, "## " + k + " missing colon\n", 4]))
        else:
            for b in "*+-":
                for ind in indents:
                    for gap in ("", " ", "  "):
                        reqs.append(("match_md", ["StepLine", ms, False, ind + b + gap + k + "step text \n", 7]))
            for ind in deep[:3]:
                reqs.append(("match_md", ["StepLine", ms, False, ind + "* " + k + "deep step\n", 7]))
            reqs.append(("match_md", ["StepLine", ms, False, k + "no bullet\n", 7]))
            reqs.append(("match_md", ["StepLine", ms, False, "# " + k + "header not bullet\n", 7]))
    return differential("md-keywords", reqs, nontrivial=lambda q, r: (q[1][1]["dialect"], q[1][3]) if r.get("ans") else None,
                        classify=lambda q, r: q[1][0] + (":yes" if r.get("ans") else ":no"), exhaustive=True)


def c19_tables_tags(ctx):
    reqs = []
    ms = S.mstate("en")
    rows = ["| a | b |", "| --- | :-: |", "|---|", "| a | - |", "|:--|--:|", "| x \\| y |", "|", "| -x |", "| - \\n |", "a | b",
            "| a |  | c |", "| name | |", "||", "| : | x |", "| :: |", "| a | --- |", "|  | --- |"]
    for n in range(0, 9):
        for ws in (" ", "\t", "\xa0"):
            for row in rows:
                reqs.append(("match_md", ["TableRow", ms, False, ws * n + row + "\n", 2]))
    r = rng("c19")
    parts = ["`@a`", "`@tag-1`", "`@`", "`x`", "`@un closed", "@bare", "`@a``@b`", " ", "  ", "text", "`@é😀`", "``", "`@a\tb`", "`"]
    for _ in range(S.n_for(3000, 40000)):
        line = r.choice(["", " ", "   "]) + "".join(r.choice(parts) for _ in range(r.randint(0, 6))) + r.choice(["", "\n"])
        if line.strip() == "" and not line:
            line = " "
        reqs.append(("match_md", ["TagLine", ms, False, line or " ", 5]))
    for line in ["`@smoke` `@smoke`", " `@smoke-slow` `@smoke`", "`@ab` `@a`", "  `@a` and `@b`\n"]:
        reqs.append(("match_md", ["TagLine", ms, False, line, 5]))
    return differential("md-tables-tags", reqs, nontrivial=lambda q, x: q[1][3] if x.get("ans") else None,
                        classify=lambda q, x: q[1][0] + (":yes" if x.get("ans") else ":no"))


def c19_feature_fallback(ctx):
    ms = S.mstate("en")
    lines = ["# Feature: f\n", "Feature: f\n", "plain first line\n", "## Feature: deep\n", "#Feature: x\n", "  # Feature: indented\n", "# Funcionalidade: pt\n"]
    reqs = [("match_md", ["FeatureLine", S.mstate(d), seen, l, 1]) for l in lines for seen in (False, True) for d in ("en", "pt")]
    return differential("md-feature-line", reqs, nontrivial=lambda q, x: canon(q[1]), classify=lambda q, x: "ans:%s" % x.get("ans"), exhaustive=True)


prop("C19", streams=[c19_keywords, c19_tables_tags, c19_feature_fallback], sources=DIALECT_SOURCES,
     rule="every (dialect, role, keyword) x header depth 0..7 / bullet x indentation x blank run through GherkinInMarkdownTokenMatcher.match_*; "
          "table rows at indentation 0..8 incl. GFM separator rows; tag lines built from backtick fragments; non-trivial = recognised lines",
     trusted=["hand-written stand-ins for the five Markdown regular expressions (MatcherMd.v), tied to `re` by this enumeration"])


# ---------------------------------------------------------------- dialect-table oracles / searches (C05, C10)

def minimal_doc(code, d, role, k):
    """the canonical minimal document exercising keyword k of `role` in dialect `code`"""
    head = "" if code == "en" else "# language: %s\n" % code
    f, sc, so, ex, giv = d["feature"][0], d["scenario"][0], d["scenarioOutline"][0], d["examples"][0], [x for x in d["given"] if x != "* "][0]
    if role == "feature":
        return head + k + ": name\n", ("feature", "keyword")
    if role == "rule":
        return head + f + ": f\n  " + k + ": name\n", ("rule", "keyword")
    if role == "background":
        return head + f + ": f\n  " + k + ": name\n    " + giv + "x\n", ("background", "keyword")
    if role in ("scenario", "scenarioOutline"):
        return head + f + ": f\n  " + k + ": name\n    " + giv + "x\n", ("scenario", "keyword")
    if role == "examples":
        return head + f + ": f\n  " + so + ": o\n    " + giv + "<a>\n    " + k + ": name\n      | a |\n      | 1 |\n", ("examples", "keyword")
    return head + f + ": f\n  " + sc + ": s\n    " + giv + "first\n    " + k + "second\n", ("step", role)


def o_c05_minimal(ctx):
    impl = impl_mod()
    D = S.dialects()
    items = S.all_keywords()
    TYPE = {"given": "Context", "when": "Action", "then": "Outcome", "and": "Conjunction", "but": "Conjunction"}

    def check(it):
        code, role, k = it
        d = D[code]
        src, (what, sub) = minimal_doc(code, d, role, k)
        res = impl.parse(False, "en", src)
        if "ok" not in res:
            return {"what": "minimal document for %s keyword %r of dialect %s is rejected: %r" % (role, k, code, res.get("errors", res))[:400], "source": src}
        f = res["ok"].get("feature")
        if not f or f.get("language") != code:
            return {"what": "feature does not report dialect %s" % code, "source": src}
        if what == "feature":
            got = f["keyword"]
        elif what == "step":
            st = f["children"][0]["scenario"]["steps"]
            if len(st) != 2:
                return {"what": "step keyword %r of %s not recognised as a step" % (k, code), "source": src}
            got = st[1]["keyword"]
            steps = d["given"] + d["when"] + d["then"] + d["and"] + d["but"]
            first = [x for x in steps if (k + "second").startswith(x)][0]
            if got != first:
                return {"what": "step keyword reported %r, first listed prefix is %r" % (got, first), "source": src}
            n = sum(1 for r_ in TYPE for x in d[r_] if x == first)
            want = "Unknown" if n > 1 else [TYPE[r_] for r_ in TYPE if first in d[r_]][0]
            if st[1]["keywordType"] != want:
                return {"what": "keywordType %r for %r (%s), expected %s" % (st[1]["keywordType"], first, code, want), "source": src}
            return None
        else:
            ch = f["children"][0]
            node = ch.get("rule") or ch.get("background") or ch.get("scenario")
            if what == "examples":
                node = ch["scenario"]["examples"][0] if ch.get("scenario") and ch["scenario"]["examples"] else None
            if node is None or (what in ("rule", "background", "scenario") and what not in ch):
                return {"what": "%s keyword %r of %s not recognised in its role" % (role, k, code), "source": src}
            got = node["keyword"]
        if got != k:
            return {"what": "%s keyword reported as %r, listed as %r (%s)" % (role, got, k, code), "source": src}
        return None
    c = oracle("minimal-documents", items, check, describe=lambda it: list(it))
    c.exhaustive = True
    return c


def o_json_identity(ctx):
    from common import REPO
    c = Corr("json-identity")
    c.evaluations = 1
    a = open(os.path.join(REPO, "gherkin-languages.json"), "rb").read()
    b = open(os.path.join(REPO, "python", "gherkin", "gherkin-languages.json"), "rb").read()
    if a != b:
        ja, jb = json.loads(a), json.loads(b)
        diff = [k for k in set(ja) | set(jb) if ja.get(k) != jb.get(k)]
        c.disagreements.append({"what": "python/gherkin/gherkin-languages.json differs from the master table (dialects %r)" % diff[:5]})
    # the table the package actually loads
    use = impl_mod()
    from gherkin.dialect import DIALECTS
    want = json.loads(b)
    for code in want:
        for role in S.ROLES:
            if DIALECTS.get(code, {}).get(role) != want[code][role]:
                c.disagreements.append({"what": "in-memory table differs from the shipped JSON for %s.%s" % (code, role)})
                break
    c.nontrivial = {"bytes", "memory"}
    c.samples = [{"files": ["gherkin-languages.json", "python/gherkin/gherkin-languages.json"]}]
    return c


P.PROPS["C05"]["streams"] = [o_json_identity, o_c05_minimal] + P.PROPS["C05"]["streams"]


def search_c05(ctx):
    c = o_c05_minimal(ctx)
    if c.disagreements:
        d = c.disagreements[0]
        return {"what": d["what"], "text": d.get("source"), "input": d.get("input")}
    c = o_json_identity(ctx)
    if c.disagreements:
        return {"what": c.disagreements[0]["what"]}
    return None


P.PROPS["C05"]["search"] = search_c05


def o_c10_conjunctions(ctx):
    """every and/but keyword of every dialect after a given step: the pickle step takes the type before it"""
    impl = impl_mod()
    D = S.dialects()
    items = [(code, k) for code, d in D.items() for k in dict.fromkeys(d["and"] + d["but"]) if k not in d["given"] + d["when"] + d["then"]]

    def check(it):
        code, k = it
        d = D[code]
        giv = [x for x in d["given"] if x != "* "][0]
        head = "" if code == "en" else "# language: %s\n" % code
        for outline in (False, True):
            src = head + d["feature"][0] + ": f\n  " + (d["scenarioOutline"][0] if outline else d["scenario"][0]) + ": s\n    " + giv + "first\n    " + k + "second\n"
            if outline:
                src += "    " + d["examples"][0] + ":\n      | a |\n      | 1 |\n"
            ev = impl.events(False, False, True, False, [["u", src]])
            ps = [e["pickle"] for e in ev.get("envelopes", []) if "pickle" in e]
            if len(ps) != 1 or len(ps[0]["steps"]) != 2:
                continue   # the keyword is shadowed by an earlier listed prefix: C05's business
            types = [s["type"] for s in ps[0]["steps"]]
            if types != ["Context", "Context"]:
                return {"what": "and/but keyword %r of %s after a given step: pickle step types %r" % (k, code, types), "source": src}
        return None
    c = oracle("conjunction-keywords", items, check, describe=lambda it: list(it))
    c.exhaustive = True
    return c


P.PROPS["C10"]["streams"].append(o_c10_conjunctions)
P.PROPS["C10"]["sources"] = DIALECT_SOURCES
P.PROPS["C10"]["search"] = lambda ctx: (lambda c: {"what": c.disagreements[0]["what"], "text": c.disagreements[0].get("source")} if c.disagreements else None)(o_c10_conjunctions(ctx))


def c05_histories(ctx):
    """one matcher through a document with a language header, then one without: the default dialect is back in force"""
    D = S.dialects()
    r = rng("c05h")
    codes = sorted(D)
    reqs = []

    def doc(code, header):
        d = D[code]
        giv = [x for x in d["given"] if x != "* "][0]
        return ("# language: %s\n" % code if header else "") + d["feature"][0] + ": f\n  " + d["scenario"][0] + ": s\n    " + giv + "a\n    " + d["when"][-1] + "b\n    " + d["and"][-1] + "c\n"
    for _ in range(S.n_for(150, 2000)):
        dflt, other = r.choice(codes), r.choice(codes)
        reqs.append(("parse_history", [dflt, [[False, doc(other, True)], [False, doc(dflt, False)], [False, doc(other, False)]]]))

    def proj(res, req=None):
        return [P.p_keywords(x) for x in res] if isinstance(res, list) else res
    return differential("header-then-default", reqs, proj=proj, nontrivial=lambda q, x: canon(q[1])[:200], classify=lambda q, x: "hist")


P.PROPS["C05"]["streams"].append(c05_histories)


# ---------------------------------------------------------------- more C03 / C01 streams

def c03_histories(ctx):
    """nothing that is not in the source appears in the AST: a parser reused after a rejected document"""
    bad = ["# leftover comment 1\nFeature: f\n  # leftover 2\n  Scenario: s\n    oops\n",
           "# c\n@ bad tag\nFeature: f\n", "Feature: f\n  Scenario: s\n    Given g\n      | a |\n      | b | c |\n  # c2\n",
           "# only comment\n  | stray row |\n"]
    good = ["Feature: g\n  # own comment\n  Scenario: t\n    Given h\n", "# top\nFeature: h\n", "Feature: i\n\n  description\n  # in desc\n  more\n"]
    reqs = [("parse_history", ["en", [[stop, b], [False, g]]]) for b in bad for g in good for stop in (False, True)]
    reqs += [("parse_history", ["en", [[False, b], [False, b2], [False, g]]]) for b in bad for b2 in bad[:2] for g in good[:2]]

    def proj(res, req=None):
        return [P.p_ast_text(x) for x in res] if isinstance(res, list) else res
    return differential("after-rejected-document", reqs, proj=proj, nontrivial=lambda q, x: canon(q[1])[:200], classify=lambda q, x: "hist", exhaustive=True)


P.PROPS["C03"]["streams"].append(c03_histories)


def c01_cap_boundary(ctx):
    """the eleven-error bound at its boundary: n unexpected lines, then a line that yields two errors at once
    (a tag with whitespace where no tag line fits), then more"""
    srcs = []
    for n in range(7, 13):
        for two in ("@smoke test", "  @a b @c"):
            for tail in ("", "| x |\n", "Feature: late\n", "@ok\n"):
                for pre in ("Feature: f\n  Scenario: s\n    Given g\n      | a |\n", "Feature: f\n"):
                    body = "".join("      oops %d\n" % i if pre.endswith("|\n") else "| r%d |\n" % i for i in range(n))
                    srcs.append(pre + body + two + "\n" + tail)
    return e2e("error-cap-boundary", srcs, P.p_c01, modes=(False, True), nontrivial=nt_rejected, exhaustive=True)


def c01_compile(ctx):
    """Compiler.compile is total on parser-shaped documents: header cells with regex metacharacters that are used as placeholders"""
    heads = ["price (EUR", "EUR)", "range [0", "a**", "(?i", "a.b", "x|y", "$", "\\\\d", "ok"]
    srcs = []
    for h in heads:
        srcs.append("Feature: f\n  Scenario Outline: uses <%s>\n    Given step <%s> here\n      | <%s> |\n    And doc\n      \"\"\"<%s>\n      <%s>\n      \"\"\"\n    Examples:\n      | %s | other |\n      | v1 | v2 |\n" % (h, h, h, h, h, h.replace("|", "\\|")))
    reqs = [("events", [False, False, True, False, [["u", s]]]) for s in srcs]

    def proj(r, req=None):
        if "envelopes" not in r:
            return {"outcome": P.outcome(r), "type": r.get("foreign")}
        return {"kinds": [list(e)[0] for e in r["envelopes"]], "names": [e["pickle"]["name"] for e in r["envelopes"] if "pickle" in e]}
    return differential("compile-with-metachar-headers", reqs, proj=proj, nontrivial=lambda q, x: q[1][4][0][1], classify=lambda q, x: P.outcome(x) if "envelopes" not in x else "ok", exhaustive=True)


P.PROPS["C01"]["streams"] = P.PROPS["C01"]["streams"][:2] + [c01_cap_boundary, c01_compile] + P.PROPS["C01"]["streams"][2:]


def c01_stream_modes(ctx):
    """the stream API turns any source into envelopes only -- also when its parser is told to stop at the first error
    (events.parser.stop_at_first_error), where the parser raises the bare error types instead of the composite"""
    bad = S.mutated_sources(S.n_for(120, 2000), salt="c01/stream") + [
        "Feature: f\n  Scenario: s\n    oops\n", "# language: xx-nope\nFeature: f\n", "Feature: f\n  @a b\n  Scenario: s\n",
        "Feature: f\n  Scenario: s\n    Given g\n      | a |\n      | b | c |\n", "Feature: f\n  Scenario: s\n    Given g\n      \"\"\"\n      open\n", "", "Feature: ok\n"]
    reqs = [("events", [ps, True, True, stop, [["u%d" % i, s]]]) for i, s in enumerate(bad) for stop in (True, False) for ps in (False, True)]
    r = rng("c01s")
    for _ in range(S.n_for(60, 1000)):
        reqs.append(("events", [False, True, True, True, [["m%d" % j, r.choice(bad)] for j in range(3)]]))

    def proj(x, req=None):
        if "envelopes" not in x:
            return {"outcome": P.outcome(x), "type": x.get("foreign")}
        return [(list(e)[0], e["parseError"]["source"]["location"] if "parseError" in e else None) for e in x["envelopes"]]
    return differential("stream-stop-mode", reqs, proj=proj, nontrivial=lambda q, x: canon(q[1])[:300] if any("parseError" in e for e in x.get("envelopes", [])) else None,
                        classify=lambda q, x: "stop:%d %s" % (q[1][3], "foreign" if "envelopes" not in x else "ok"))


P.PROPS["C01"]["streams"].insert(4, c01_stream_modes)


# ---------------------------------------------------------------- round-2 strengthening: histories on one parser + one matcher

OPEN_DOCSTRING_DOCS = ["Feature: f\n  Scenario: s\n    Given g\n      \"\"\"\n      never closed\n",
                       "Feature: f\n  Scenario: s\n    Given g\n        ```md\n        # never closed\n",
                       "# c\nFeature: f\n  Background:\n    Given g\n   \"\"\"\n"]


def c02_histories(ctx):
    """acceptance does not depend on what the same Parser object parsed before: rejected documents again, in other orders"""
    bad = ["Feature: f\n  Scenario: s\n    oops\n", "Feature: f\n  Scenario: s\n    oops\n    Given g\n", "Feature: f\nFeature: g\n",
           "Scenario: s\n", "Feature: f\n  Examples:\n", "Feature: f\n  Scenario: s\n    Given g\n    | a |\n    \"\"\"\n    \"\"\"\n", "@t\n"]
    good = ["Feature: f\n  Scenario: s\n    Given g\n", "", "Feature: f\n"]
    r = rng("c02h")
    reqs = [("parse_history", ["en", [[False, b], [False, b]]]) for b in bad]
    reqs += [("parse_history", ["en", [[False, a], [False, b], [False, a], [False, b]]]) for a in bad for b in bad if a != b]
    for _ in range(S.n_for(60, 1000)):
        reqs.append(("parse_history", ["en", [[r.random() < 0.2, r.choice(bad + good + OPEN_DOCSTRING_DOCS)] for _ in range(r.randint(2, 6))]]))

    def proj(res, req=None):
        return [outcome(x) for x in res] if isinstance(res, list) else res
    return differential("acceptance-on-a-reused-parser", reqs, proj=proj, nontrivial=lambda q, x: canon(q[1])[:300], classify=lambda q, x: "hist:%d" % len(q[1][1]), exhaustive=False)


P.PROPS["C02"]["streams"].append(c02_histories)


def c03_histories2(ctx):
    """descriptions, names and step text are exact also when the previous document stopped inside an indented doc string"""
    good = ["Feature: g\n        deep description\n      less deep\n  Scenario: t\n          indented description\n    Given h\n",
            "Feature: h\n  Rule: r\n      rule description\n    Example: e\n        example description   \n      Given i\n        \"\"\"\n          body\n        \"\"\"\n  Scenario Outline: o\n     outline description\n    Examples:\n        examples description\n"]
    reqs = [("parse_history", ["en", [[stop, b], [False, g]]]) for b in OPEN_DOCSTRING_DOCS for g in good for stop in (False, True)]
    reqs += [("parse_history", ["en", [[False, g], [False, b], [False, g2]]]) for b in OPEN_DOCSTRING_DOCS for g in good for g2 in good]

    def proj(res, req=None):
        return [P.p_ast_text(x) for x in res] if isinstance(res, list) else res
    return differential("after-open-doc-string", reqs, proj=proj, nontrivial=lambda q, x: canon(q[1])[:200], classify=lambda q, x: "hist", exhaustive=True)


P.PROPS["C03"]["streams"].append(c03_histories2)


def c13_histories(ctx):
    """a doc string is closed only by its own delimiter -- and the end of the document: the next document starts outside any doc string"""
    nxt = ["Feature: g\n  Scenario: t\n    Given h\n      ```\n      \"\"\"\n      ```\n    And i\n      \"\"\"\n      ```\n      \"\"\"\n",
           "Feature: g\n  Scenario: t\n    Given h\n    \"\"\"json\n  x\n    \"\"\"\n", "Feature: plain\n  Scenario: t\n    Given no doc string\n    | a |\n",
           "Feature: g\n  Scenario: t\n    Given h\n      ```\n      open again\n"]
    reqs = [("parse_history", ["en", [[stop, b], [False, g], [False, g2]]]) for b in OPEN_DOCSTRING_DOCS for g in nxt for g2 in nxt[:2] for stop in (False, True)]

    def proj(res, req=None):
        return [P.p_docstrings(x) for x in res] if isinstance(res, list) else res
    return differential("doc-string-state-between-documents", reqs, proj=proj, nontrivial=lambda q, x: canon(q[1])[:200], classify=lambda q, x: "hist", exhaustive=True)


P.PROPS["C13"]["streams"].append(c13_histories)


def c10_histories(ctx):
    """keyword types (the compiler's input) after the matcher went through a document in another dialect"""
    D = S.dialects()
    r = rng("c10h")
    codes = sorted(D)
    reqs = []

    def doc(code, header):
        d = D[code]
        ks = [r.choice([x for x in d[role] if x != "* "] or d[role]) for role in ("given", "and", "when", "but", "then", "and")]
        return ("# language: %s\n" % code if header else "") + d["feature"][0] + ": f\n  " + d["scenario"][0] + ": s\n" + "".join("    %sx%d\n" % (k, i) for i, k in enumerate(ks))
    for _ in range(S.n_for(100, 1500)):
        dflt, other = r.choice(codes), r.choice(codes)
        reqs.append(("parse_history", [dflt, [[False, doc(other, True)], [False, doc(dflt, False)], [False, doc(other, True)], [False, doc(dflt, False)]]]))

    def proj(res, req=None):
        if not isinstance(res, list):
            return res
        def types(doc):
            out = []
            walk(doc, lambda path, k, v: out.append(v) if k == "keywordType" else None)
            return out
        return [types(x["ok"]) if "ok" in x else outcome(x) for x in res]
    return differential("keyword-types-after-header-history", reqs, proj=proj, nontrivial=lambda q, x: canon(q[1])[:200], classify=lambda q, x: "hist")


P.PROPS["C10"]["streams"].append(c10_histories)


# ---------------------------------------------------------------- round-3 strengthening

def intended_pickles(pid, proj):
    """pickles of a generated document: the implementation parses the text and compiles; the model compiles the AST the
    generator *intended* (it never saw the parser) -- so a transition of the generated parser that builds another tree
    shows up here even though the regenerated model follows parser.py"""
    def run(ctx):
        docs = S.gen_sources(S.n_for(300, 5000), salt=pid + "/intended-pickles")
        impl = impl_mod()
        def idc_of(ast):
            return 1 + max([int(x) for x in collect(ast, "id")] or [-1])
        mres = run_model([("compile", ["u.feature", want, idc_of(want)]) for _, want in docs])
        items = list(zip(docs, mres))

        def check(it):
            (src, want), mr = it
            ev = impl.events(False, False, True, False, [["u.feature", src]])
            if "envelopes" not in ev:
                return {"what": "stream API failed on a generated document: %r" % (ev,)}
            got = [proj(e["pickle"]) for e in ev["envelopes"] if "pickle" in e]
            if any("parseError" in e for e in ev["envelopes"]):
                return {"what": "generated well-formed document rejected"}
            if "pickles" not in mr:
                return {"what": "model could not compile the intended AST: %r" % (mr,)}
            exp = [proj(p) for p in mr["pickles"]]
            if canon(got) != canon(exp):
                return {"what": "pickles of the parsed text differ from the pickles of the intended AST", "impl": got[:6], "intended": exp[:6]}
            return None
        return oracle("intended-pickles", items, check, describe=lambda it: it[0][0])
    run.__name__ = "intended_pickles_" + pid
    return run


for _pid, _pj in (("C06", pk_sources), ("C07", lambda p: [pk_steps(p), pk_steps_plain(p)]), ("C08", pk_tags), ("C09", pk_interp), ("C10", pk_types), ("C11", pk_ids)):
    P.PROPS[_pid]["streams"].append(intended_pickles(_pid, _pj))


def c03_docstring_escapes(ctx):
    """exact text: a doc string turns back only the escaped form of its own delimiter; the other one's stays as written"""
    srcs = []
    for d, o in (('"""', "```"), ("```", '"""')):
        esc = lambda x: "\\" + "\\".join(x)
        for body in ([esc(o)], [esc(d)], ["a " + esc(o) + " b " + esc(d)], [esc(o) + esc(o), "", esc(d)], ["\\" + o], [o]):
            srcs.append("Feature: f\n  Scenario: s\n    Given g\n      " + d + "\n" + "".join("      " + b + "\n" for b in body) + "      " + d + "\n")
            srcs.append("Feature: f\n  description " + esc(o) + " " + esc(d) + "\n  Background:\n    Given g\n" + d + "md\n" + "".join(b + "\n" for b in body) + d + "\n    And h\n")
    return e2e("doc-string-escapes", srcs, P.p_ast_text, nontrivial=nt_accepted("ast"), exhaustive=True)


P.PROPS["C03"]["streams"].append(c03_docstring_escapes)


def c09_empty_header(ctx):
    """every header cell is taken literally -- the empty one too: '<>' is its placeholder"""
    reqs = []
    for t in ("<>", "a<>b<>", "<><x>", "<<>>", "x", "<> <b>"):
        reqs.append(("interpolate", [t, [""], ["V"]]))
        reqs.append(("interpolate", [t, ["", "b"], ["V", "W"]]))
        reqs.append(("interpolate", [t, ["b", ""], ["<>", "W"]]))
        reqs.append(("interpolate", [t, ["x", "", "b"], ["1", "", "3"]]))
    return differential("empty-header", reqs, nontrivial=lambda q, r: tuple(map(str, q[1])), classify=lambda q, r: "empty-header", exhaustive=True)


P.PROPS["C09"]["streams"].append(c09_empty_header)


def c15_prefix_keywords(ctx):
    """a matcher that has seen a short step keyword still reads the longer keyword it prefixes (and the other way round)"""
    D = S.dialects()
    reqs = []
    for code in sorted(D):
        d = D[code]
        steps = []
        for role in ("given", "when", "then", "and", "but"):
            steps += [k for k in d[role] if k not in steps]
        pairs = [(a, b) for a in steps for b in steps if a != b and b.startswith(a)]
        if not pairs:
            continue
        head = d["feature"][0] + ": f\n  " + d["scenario"][0] + ": s\n"
        for a, b in pairs[:6]:
            rest = b[len(a):]
            d1 = head + "    " + a + "x\n"
            d2 = head + "    " + b + "y\n    " + a + "z\n"
            for hist in ([d1, d2], [d2, d1, d2], [d1, d1, d2]):
                reqs.append(("parse_history", [code, [[False, h] for h in hist]]))
            reqs.append(("parse_history", ["en", [[False, "# language: %s\n" % code + h] for h in (d1, d2, d1)]]))

    def proj(res, req=None):
        return [P.p_keywords(x) for x in res] if isinstance(res, list) else res
    return differential("prefix-keywords-on-a-reused-matcher", reqs, proj=proj, nontrivial=lambda q, x: canon(q[1])[:200], classify=lambda q, x: q[1][0])


def o_c15_matcher_argument(ctx):
    """Parser.parse with and without a matcher argument on one Parser: the matcher of an earlier call is not remembered"""
    impl = impl_mod()
    docs = {"en": "Feature: f\n  Scenario: s\n    Given g\n", "fr": "Fonctionnalité: f\n  Scénario: s\n    Soit g\n",
            "hdr": "# language: fr\nFonctionnalité: f\n  Scénario: s\n    Soit g\n", "bad": "Feature: f\n  oops\n  Scenario: s\n    nope\n"}
    modes = [None, "en", "fr", "no"]     # None = no matcher argument
    items = [(list(h), tgt) for n in (1, 2) for h in itertools.product([(m, d) for m in modes for d in docs], repeat=n) for tgt in [(m, d) for m in (None, "en", "fr") for d in docs]]
    r = rng("c15m")
    items = r.sample(items, min(len(items), S.n_for(600, 6000)))

    def one(parser, mode, doc):
        try:
            if mode is None:
                return {"ok": parser.parse(impl.source_arg(docs[doc]))}
            return {"ok": parser.parse(impl.source_arg(docs[doc]), impl.TokenMatcher(mode))}
        except impl.CompositeParserException as e:
            return {"errors": [impl.err_json(x) for x in e.errors]}
        except impl.ParserException as e:
            return {"error": impl.err_json(e)}

    def check(it):
        hist, (mode, doc) = it
        g = impl.CountingIdGen()
        p = impl.Parser(impl.AstBuilder(g))
        for m, d in hist:
            one(p, m, d)
        off = g.n
        got = shift_ids(copy.deepcopy(one(p, mode, doc)), off)
        want = copy.deepcopy(one(impl.Parser(impl.AstBuilder(impl.CountingIdGen())), mode, doc))
        if canon(got) != canon(want):
            return {"what": "result on a used Parser differs from a fresh Parser (same arguments)", "used": got, "fresh": want}
        return None
    return oracle("matcher-argument-histories", items, check, describe=lambda it: [it[0], it[1]])


P.PROPS["C15"]["streams"] += [c15_prefix_keywords, o_c15_matcher_argument]


def c18_long_lines(ctx):
    """one token per physical line however long the line is"""
    srcs = []
    for n in ((8191, 8192, 8200) if S.n_for(0, 1) == 0 else (8190, 8191, 8192, 8193, 16384, 20000)):
        srcs.append("Feature: f\n  Scenario: s\n    Given g\n      | " + "x" * n + " | b |\n      | c | d |\n")
        srcs.append("Feature: f\n  " + "d" * n + "\n  Scenario: s\n    Given g\n      \"\"\"\n      " + "y" * n + "\n      \"\"\"\n")
        srcs.append("Feature: f\n  Scenario: " + "n" * n + "\n    Given g " + "z" * n + "\n  @t" + "a" * n + "\n  Scenario: u\n")
    reqs = [("tokens", ["en", s]) for s in srcs]
    return differential("long-lines", reqs, nontrivial=lambda q, r: q[1][1][:200] if "ok" in r else None, classify=lambda q, r: outcome(r), exhaustive=True)


P.PROPS["C18"]["streams"].append(c18_long_lines)


P.PROPS["C01"]["streams"].append(P.o_no_hang)


# ---------------------------------------------------------------- round-4 strengthening

def c02_blank_indentation(ctx):
    """a line is the kind its text makes it whatever blanks stand before it: every Unicode blank Python's str.lstrip removes"""
    blanks = [" ", "\t", "\x0b", "\x0c", "\x1c", "\x1f", "\x85", "\xa0", "\u1680", "\u2000", "\u2003", "\u2009", "\u200a", "\u2028", "\u2029", "\u202f", "\u205f", "\u3000"]
    seqs = [w for w in S.kind_sequences(3)] + [["FeatureLine", "BackgroundLine", "StepLine", "ScenarioLine", "StepLine", "Empty", "StepLine", "TagLine", "ExamplesLine", "TableRow"],
                                               ["TagLine", "FeatureLine", "RuleLine", "TagLine", "ScenarioLine", "StepLine", "DocStringSeparator", "Other", "DocStringSeparator"]]
    r = rng("c02b")
    srcs = []
    for w in seqs:
        if not w:
            continue
        for b in (r.sample(blanks, 3) if len(w) <= 3 else blanks):
            srcs.append("".join((b * r.randint(1, 3)) + S.CANON[k] + "\n" for k in w))
            srcs.append("".join(((b if i % 2 else "") + S.CANON[k] + "\n") if S.CANON[k] else (b + "\n") for i, k in enumerate(w)))
    return e2e("blank-indentation", srcs, P.p_errors, nontrivial=lambda q, x: q[1][2] if "ok" in x else None)


P.PROPS["C02"]["streams"].append(c02_blank_indentation)


def c09_background_placeholders(ctx):
    """background steps are not substituted: '<h>' in a background step's text, table or doc string stays as written"""
    srcs = []
    for lvl in ("feature", "rule", "both"):
        bg = "    Given bg <a> and <b>\n      | <a> | x<b> |\n    And doc\n      \"\"\"<a>\n      <b> <a>\n      \"\"\"\n"
        src = "Feature: f\n"
        if lvl in ("feature", "both"):
            src += "  Background:\n" + bg
        if lvl in ("rule", "both"):
            src += "  Rule: r\n  Background:\n" + bg
        src += "  Scenario Outline: o <a>\n    When own <a> <b>\n    Examples:\n      | a | b |\n      | 1 | 2 |\n      | <b> | <a> |\n  Scenario: plain <a>\n    Then <b>\n"
        srcs.append(src)
    reqs = [("events", [False, False, True, False, [["u.feature", x]]]) for x in srcs]

    def pr(r_, req=None):
        if "envelopes" not in r_:
            return {"outcome": outcome(r_)}
        return [{"name": e["pickle"]["name"], "steps": [[st["text"], st.get("argument")] for st in e["pickle"]["steps"]]} for e in r_["envelopes"] if "pickle" in e]
    return differential("background-placeholders", reqs, proj=pr, nontrivial=lambda q, x: q[1][4][0][1] if x.get("envelopes") else None,
                        classify=lambda q, x: "bg", exhaustive=True)


P.PROPS["C09"]["streams"].append(c09_background_placeholders)


def c18_long_runs(ctx):
    """look-ahead over tag, comment and blank lines never drops lines -- however long the run is"""
    srcs = []
    for n in ((70, 260, 600) if S.n_for(0, 1) == 0 else (70, 260, 600, 3000)):
        run = "".join(("  @t%d\n" % i) if i % 3 == 0 else ("  # c%d\n" if i % 3 == 1 else "\n") % ((i,) if i % 3 == 1 else ()) for i in range(n))
        srcs.append("Feature: f\n  Scenario: s\n    Given g\n  @first\n" + run + "  Scenario: t\n    Given h\n")
        srcs.append("Feature: f\n  Scenario Outline: s\n    Given <a>\n  @first\n" + run + "  Examples:\n    | a |\n    | 1 |\n")
        srcs.append("Feature: f\n  Scenario: s\n    Given g\n  @first\n" + run + "  Rule: r\n    Example: e\n      Given h\n")
        srcs.append("Feature: f\n  Scenario: s\n    Given g\n  @first\n" + run + "    oops\n")
    reqs = [("tokens", ["en", x]) for x in srcs]
    return differential("long-look-ahead-runs", reqs, nontrivial=lambda q, r_: q[1][1][:200] if "ok" in r_ else None, classify=lambda q, r_: outcome(r_), exhaustive=True)


P.PROPS["C18"]["streams"].append(c18_long_runs)


def o_c15_stream(ctx):
    """the stream API: a source's envelopes after other sources went through the same GherkinEvents equal those of a
    fresh one, up to the offset of the shared id generator"""
    impl = impl_mod()
    pool = PERTURB[:8] + ["Feature: ok\n  Scenario: s\n    Given g\n", "Feature: bad\n  oops\n", "# language: xx-none\nFeature: f\n",
                          "Feature: t\n  @a\n  Scenario Outline: o\n    Given <x>\n    Examples:\n      | x |\n      | 1 |\n"]
    r = rng("c15s")
    items = [([r.choice(pool) for _ in range(r.randint(1, 3))], r.choice(pool)) for _ in range(S.n_for(120, 1500))]

    def check(it):
        hist, tgt = it
        whole = impl.events(False, True, True, False, [["h%d" % i, x] for i, x in enumerate(hist)] + [["t", tgt]])
        prefix = impl.events(False, True, True, False, [["h%d" % i, x] for i, x in enumerate(hist)])
        fresh = impl.events(False, True, True, False, [["t", tgt]])
        if any("envelopes" not in x for x in (whole, prefix, fresh)):
            return {"what": "stream raised: %r" % ([x.get("foreign") for x in (whole, prefix, fresh)],)}
        got = whole["envelopes"][len(prefix["envelopes"]):]
        if canon(shift_ids(got, prefix["idc"])) != canon(fresh["envelopes"]):
            return {"what": "envelopes after a history differ from a fresh stream (modulo id offset %d)" % prefix["idc"],
                    "after_history": shift_ids(got, prefix["idc"])[:3], "fresh": fresh["envelopes"][:3]}
        return None
    return oracle("stream-histories", items, check, describe=lambda it: [[h[:40] for h in it[0]], it[1][:60]])


P.PROPS["C15"]["streams"].append(o_c15_stream)


# ---------------------------------------------------------------- round-5 strengthening

def c10_dialect_sequences(ctx):
    """types through the real matcher: every dialect, '*' and and/but after a typed step (a keyword listed in some but not all
    of the given/when/then lists is still Unknown exactly when it is listed more than once)"""
    D = S.dialects()
    reqs = []
    for code in sorted(D):
        d = D[code]
        star = "* " if any("* " in d[r_] for r_ in ("given", "when", "then", "and", "but")) else None
        giv = [k for k in d["given"] if k != "* "][:1]
        whn = [k for k in d["when"] if k != "* "][:1]
        thn = [k for k in d["then"] if k != "* "][:1]
        andk = [k for k in d["and"] if k != "* "][:1]
        seqs = []
        for a in giv + whn + thn:
            for b in ([star] if star else []) + andk:
                seqs.append([a, b] + andk)
                seqs.append([b, a, b])
        body = ""
        for i, sq in enumerate(seqs):
            body += "  " + d["scenario"][0] + ": s%d\n" % i + "".join("    %sx\n" % k for k in sq)
        reqs.append(("events", [False, False, True, False, [["u", "# language: %s\n%s: f\n%s" % (code, d["feature"][0], body)]]]))

    def pr(r_, req=None):
        if "envelopes" not in r_:
            return {"outcome": outcome(r_)}
        return [pk_types(e["pickle"]) for e in r_["envelopes"] if "pickle" in e]
    return differential("dialect-type-sequences", reqs, proj=pr, nontrivial=lambda q, x: q[1][4][0][1][:40] if x.get("envelopes") else None,
                        classify=lambda q, x: "dialects", exhaustive=True)


P.PROPS["C10"]["streams"].append(c10_dialect_sequences)


def c08_placeholder_tags(ctx):
    """tags are carried by name: a tag that spells a placeholder is not interpolated"""
    src = ("@f-<a> @<b>\nFeature: f\n  @r<a>\n  Rule: r\n    @s-<a>-<b> @<a><a>\n    Scenario Outline: o <a>\n      Given <a> <b>\n"
           "      @e-<a>\n      Examples:\n        | a | b |\n        | 1 | 2 |\n      @e2-<b> @<missing>\n      Examples:\n        | b | a |\n        | 3 | 4 |\n"
           "    @p-<a>\n    Scenario: plain\n      Given x\n")
    reqs = [("events", [False, False, True, False, [["u", src]]])]

    def pr(r_, req=None):
        if "envelopes" not in r_:
            return {"outcome": outcome(r_)}
        return [pk_tags(e["pickle"]) for e in r_["envelopes"] if "pickle" in e]
    return differential("placeholder-tags", reqs, proj=pr, nontrivial=lambda q, x: "doc", classify=lambda q, x: "doc", exhaustive=True)


P.PROPS["C08"]["streams"].append(c08_placeholder_tags)


def c09_multiline_placeholder(ctx):
    """a header cell may contain a line feed (cell escape); its placeholder then spans two lines of a doc string"""
    src = ("Feature: f\n  Scenario Outline: o <a\\nb> <c>\n    Given s <c>\n      \"\"\"<c>\n      start <a\n      b> end\n      <c>\n      \"\"\"\n"
           "    And t\n      | <a\\nb> | x |\n    Examples:\n      | a\\nb | c |\n      | V | W |\n      | <c> | two\\nlines |\n")
    reqs = [("events", [False, False, True, False, [["u", src]]])]

    def pr(r_, req=None):
        if "envelopes" not in r_:
            return {"outcome": outcome(r_)}
        return [{"name": e["pickle"]["name"], "steps": [[st["text"], st.get("argument")] for st in e["pickle"]["steps"]]} for e in r_["envelopes"] if "pickle" in e]
    return differential("multi-line-placeholder", reqs, proj=pr, nontrivial=lambda q, x: "doc", classify=lambda q, x: "doc", exhaustive=True)


P.PROPS["C09"]["streams"].append(c09_multiline_placeholder)


def c15_shared_keyword_texts(ctx):
    """a keyword spelled alike in two dialects keeps each dialect's own type, whatever was parsed before in this process"""
    D = S.dialects()
    cat = {}
    for code in sorted(D):
        for role in ("given", "when", "then", "and", "but"):
            for k in D[code][role]:
                if k != "* ":
                    cat.setdefault(k, {}).setdefault(code, set()).add(role)
    reqs = []
    for k, by in sorted(cat.items()):
        codes = sorted(by)
        pairs = [(a, b) for a in codes for b in codes if a < b and by[a] != by[b]]
        for a, b in pairs[:3]:
            def doc(code):
                d = D[code]
                return "# language: %s\n%s: f\n  %s: s\n    %sx\n    %sy\n" % (code, d["feature"][0], d["scenario"][0], [g for g in d["given"] if g != "* "][0], k)
            reqs.append(("parse_history", ["en", [[False, doc(a)], [False, doc(b)], [False, doc(a)]]]))
            reqs.append(("parse_history", ["en", [[False, doc(b)], [False, doc(a)]]]))

    def proj(res, req=None):
        return [P.p_keywords(x) for x in res] if isinstance(res, list) else res
    return differential("keyword-shared-between-dialects", reqs, proj=proj, nontrivial=lambda q, x: canon(q[1])[:200], classify=lambda q, x: "hist", exhaustive=True)


P.PROPS["C15"]["streams"].append(c15_shared_keyword_texts)


def o_source_files(pid):
    """source_events.SourceEvents: the text of the file reaches the stream unchanged (CRLF, lone CR, BOM, no final newline),
    and locations name the physical lines of the file"""
    def run(ctx):
        import shutil
        impl = impl_mod()
        from gherkin.stream.source_events import SourceEvents
        texts = ["Feature: f\r\n  Scenario: s\r\n    Given g\r\n", "Feature: f\n  desc with\rlone CR\n  Scenario: s\n    Given g\n      \"\"\"\n      a\rb\n      \"\"\"\n    And bad here\n  oops\n",
                 "\ufeffFeature: f\n", "Feature: f\n  Scenario: s\n    Given g", "Feature: f\r\n\r\n  # c\r\n  Scenario: s\r\n    Given g\r\n    oops\r\n", "",
                 "Feature: é😀\n  Scenario: s\n    Given 😀 g\n      | a\u2028b |\n"]

        def check(text):
            d = tempfile.mkdtemp(prefix="verif-src-")
            try:
                # the file's name has no bearing on the envelope (the Python stream always reads plain Gherkin)
                path = os.path.join(d, ["x.feature", "notes.feature.md", "README.md", "x.FEATURE", "no-extension", "a b.feature.txt"][texts.index(text) % 6])
                with open(path, "w", encoding="utf8", newline="") as f:
                    f.write(text)
                evs = list(SourceEvents([path]).enum())
                if len(evs) != 1 or "source" not in evs[0]:
                    return {"what": "SourceEvents did not yield one source event: %r" % (evs,)}
                src = evs[0]["source"]
                if src.get("data") != text:
                    return {"what": "the source envelope's data is not the file's text", "data": src.get("data"), "file": text}
                if src.get("uri") != path or src.get("mediaType") != "text/x.cucumber.gherkin+plain":
                    return {"what": "source envelope uri / mediaType"}
                via_file = impl.events(True, True, True, False, [[path, src["data"]]])
                via_text = impl.events(True, True, True, False, [[path, text]])
                if canon(via_file) != canon(via_text):
                    return {"what": "envelopes from the file's source event differ from those of the same text"}
                # physical lines: split on LF only
                lines = text.split("\n")
                for e in via_file.get("envelopes", []):
                    for loc in collect(e, "location"):
                        if not (1 <= loc["line"] <= len(lines) + 1):
                            return {"what": "location %r outside the file's %d physical lines" % (loc, len(lines))}
                return None
            finally:
                shutil.rmtree(d, ignore_errors=True)
        def check_seq(seq):
            # a sequence of paths, one of them named more than once: one source envelope per path given, in the order given
            d = tempfile.mkdtemp(prefix="verif-src-")
            try:
                paths = {}
                for i in sorted(set(seq)):
                    paths[i] = os.path.join(d, "f%d.feature" % i)
                    with open(paths[i], "w", encoding="utf8", newline="") as f:
                        f.write(texts[i])
                evs = list(SourceEvents([paths[i] for i in seq]).enum())
                got = [(e.get("source", {}).get("uri"), e.get("source", {}).get("data")) for e in evs]
                want = [(paths[i], texts[i]) for i in seq]
                if got != want:
                    return {"what": "SourceEvents over %d paths (with repetitions) did not yield one source per path in order" % len(seq),
                            "got_uris": [os.path.basename(u or "") for u, _ in got], "want_uris": [os.path.basename(u) for u, _ in want]}
                def uris(res):
                    return [(k, (e[k].get("source", e[k]) if k == "parseError" else e[k]).get("uri")) for e in res.get("envelopes", []) for k in e]
                via = uris(impl.events(True, True, True, False, [[u, t] for u, t in got]))
                alone = [x for i in seq for x in uris(impl.events(True, True, True, False, [[paths[i], texts[i]]]))]
                if via != alone:
                    return {"what": "the stream over a path sequence with repetitions lost or reordered a source's envelopes", "got": via, "want": alone}
                return None
            finally:
                shutil.rmtree(d, ignore_errors=True)
        c = oracle("source-files", texts, check, describe=lambda t: t[:80])
        c2 = oracle("source-path-sequences", [[0, 1, 0], [3, 0, 3, 3], [2], [], [4, 1, 4, 0, 1], [6, 6]], check_seq, describe=repr)
        return [c, c2]
    run.__name__ = "o_source_files_" + pid
    return run


for _pid in ("C04", "C16", "C17"):
    P.PROPS[_pid]["streams"].append(o_source_files(_pid))


def c14_language_lines(ctx):
    """a document is rejected for its language header exactly when the header names an unknown dialect: first lines that
    only look like a header (digits, non-ASCII letters, case variants) are comments"""
    heads = ["#language: en2", "# language: v2", "# language: français", "#language: en_", "# language: é", "#language: 2", "# language: fr2 ",
             "#language: en.", "# language: sr-Cyrl", "# language: SR-cyrl", "#language: EN", "# language: en", "#language:no-such", "  # language: zz  ",
             "# language: en-tx", "#language: fr x", "# language:", "#language: fr#"]
    srcs = [h + "\nFeature: f\n  Scenario: s\n    Given g\n" for h in heads] + ["\n" + h + "\nFeature: f\n" for h in heads[:6]]
    return e2e("language-first-lines", srcs, P.p_errors, modes=(False, True), nontrivial=lambda q, x: q[1][2][:40], exhaustive=True)


P.PROPS["C14"]["streams"] += [c14_language_lines, P.unit_language]


def c03_description_shapes(ctx):
    """descriptions of every node kind assembled from every short sequence of comment / empty / blank / text lines
    (a description may start at a comment; blank lines after it are content; trailing blank lines go)"""
    import itertools
    pieces = {"c": "  # note\n", "e": "\n", "b": "   \t\n", "t": "  some text\n", "k": "  Given not a step here?\n", "u": "\ttabbed text  \n"}
    heads = [("Feature: f\n", "  Scenario: s\n    Given g\n"),
             ("Feature: f\n  Background: b\n", "    Given g\n  Scenario: s\n    Given h\n"),
             ("Feature: f\n  Rule: r\n", "    Example: e\n      Given g\n"),
             ("Feature: f\n  Scenario Outline: o\n", "    Given <a>\n    Examples: x\n      | a |\n      | 1 |\n"),
             ("Feature: f\n  Scenario Outline: o\n    Given <a>\n    Examples: x\n", "      | a |\n      | 1 |\n")]
    srcs = []
    keys = "cebtu"
    for n in range(0, 4):
        for combo in itertools.product(keys, repeat=n):
            body = "".join(pieces[x] for x in combo)
            for i, (pre, post) in enumerate(heads):
                if n == 3 and i not in (0, 1) and ("".join(combo).__len__() + sum(map(ord, combo))) % 3:
                    continue
                srcs.append(pre + body + post)
    r = rng("c03desc")
    for _ in range(S.n_for(200, 3000)):
        combo = [r.choice("cebtuk") for _ in range(r.randint(3, 7))]
        pre, post = r.choice(heads)
        srcs.append(pre + "".join(pieces[x] for x in combo) + post)
    return e2e("description-shapes", srcs, P.p_ast_text, nontrivial=nt_accepted("ast"), exhaustive=False)


P.PROPS["C03"]["streams"].append(c03_description_shapes)


def c01_error_line_characters(ctx):
    """an unexpected line is quoted in its error whatever characters it contains: braces, percent signs, backslashes,
    quotes, format fields, NUL-free control characters, non-BMP characters -- a typed error, never anything else"""
    odd = ["{", "}", "{}", "{0}", "{line}", "{column!r}", "{\"key\": 1}", "%s", "%(x)s", "%", "100%d", "\\", "\\1", "\\g<0>", "$1", "'", "\"", "'''",
           "{{", "}}", "{:>10}", "\t{x}\t", "a{b}c{d", "\U0001F600{", "${HOME}", "#{x}", "<%= x %>", "{[}", "{0.__class__}"]
    ctxs = [("Feature: f\n  Scenario: s\n    Given g\n", "\n"),            # after a step: an unexpected line
            ("Feature: f\n  Scenario: s\n    Given g\n      | a |\n", "\n"),  # after a table row
            ("", "\nFeature: f\n"),                                       # before the feature
            ("Feature: f\n  @tag\n", "\n  Scenario: s\n")]               # after a tag line
    srcs = [pre + "    " + o + post for o in odd for pre, post in ctxs]
    srcs += ["Feature: f\n  Scenario: s\n    Given g\n  @a{b} @c d\n  Scenario: t\n", "# language: {x}\nFeature: f\n", "#language:%s\nFeature: f\n"]
    reqs = [("parse", [stop, "en", s]) for s in srcs for stop in (False, True)] + [("events", [False, True, True, False, [["u", s]]]) for s in srcs]

    def proj(x, req=None):
        if "errors" in x:
            return [(e.get("type"), e.get("message")) for e in x["errors"]]
        if "error" in x:
            return [(x["error"].get("type"), x["error"].get("message"))]
        if "envelopes" in x:
            return [(list(e)[0], e["parseError"]["message"] if "parseError" in e else None) for e in x["envelopes"]]
        return {"outcome": P.outcome(x), "type": x.get("foreign")}
    return differential("error-line-characters", reqs, proj=proj, nontrivial=lambda q, x: canon(q[1])[:200] if ("errors" in x or "error" in x or any("parseError" in e for e in x.get("envelopes", []))) else None,
                        classify=lambda q, x: q[0] + (" foreign" if "foreign" in x else ""), exhaustive=True)


P.PROPS["C01"]["streams"].append(c01_error_line_characters)
P.PROPS["C14"]["streams"].append(c01_error_line_characters)


def c09_many_occurrences(ctx):
    """every occurrence is replaced, however many there are (1 .. 300 of one placeholder in a name, a step, a cell, a doc string,
    a media type; several placeholders interleaved)"""
    srcs = []
    for n in (1, 2, 31, 32, 33, 34, 63, 64, 65, 100, 300):
        many = " ".join(["<a>"] * n)
        mixed = "".join("<a><b>" for _ in range(n))
        srcs.append("Feature: f\n  Scenario Outline: o %s\n    Given s %s\n      | %s | x<b> |\n    And d\n      \"\"\"<b>\n      %s\n      %s\n      \"\"\"\n"
                    "    Examples:\n      | a | b |\n      | V | W |\n      | <b> | <a> |\n      |  | \\| |\n" % (many, mixed, many, many, mixed))
    reqs = [("events", [False, False, True, False, [["u", s]]]) for s in srcs]

    def pr(r_, req=None):
        if "envelopes" not in r_:
            return {"outcome": P.outcome(r_)}
        return [{"name": e["pickle"]["name"], "steps": [[st["text"], st.get("argument")] for st in e["pickle"]["steps"]]} for e in r_["envelopes"] if "pickle" in e]
    return differential("many-occurrences", reqs, proj=pr, nontrivial=lambda q, x: canon(q[1])[:120], classify=lambda q, x: "doc", exhaustive=True)


P.PROPS["C09"]["streams"].append(c09_many_occurrences)


# ---------------------------------------------------------------- round-7 strengthening: text is code points, not canonical forms
NON_NFC = ["é", "üx", "Å", "Ω", "கொ", "Å", "ẛ̣", "q̣̇", "̸x", "ñ", "豈", "   x"]


def unicode_form_sources():
    """documents whose names, step texts, cells, tags, descriptions, doc strings, media types, headers and comments are
    written in decomposed / singleton / compatibility forms (not NFC, not NFD-stable either)"""
    srcs = []
    for i, w in enumerate(NON_NFC):
        v = NON_NFC[(i + 1) % len(NON_NFC)]
        srcs.append("# c %s\n@t%s @%s\nFeature: f %s\n  d %s\n\n  Background: b%s\n    Given g %s\n      | %s | x%s |\n      | y | %s\\n%s |\n"
                    "  @s%s\n  Scenario Outline: o %s <%s> <h>\n    When w <%s> %s\n      \"\"\"%s\n      c %s\n    less %s\n      <%s>\n      \"\"\"\n"
                    "    Then <h> t\n      ```\n  %s\n      ```\n    Examples: e %s\n      | %s | h |\n      | %s | 1 |\n      | <h> | %s |\n"
                    % (w, w, v, w, v, w, v, w, v, w, v, w, v, w, w, v, v, w, v, w, w, v, w, v, w))
        srcs.append("Feature:%s\n  Rule:%s\n    Example:%s\n      *%s\n      | \\%s |%s|\n" % (w, v, w, " " + v, w, v))
    return srcs


def unicode_forms_stream(name, proj):
    def run(ctx):
        srcs = unicode_form_sources()
        return e2e("unicode-forms/" + name, srcs, proj, nontrivial=nt_accepted("ast"), exhaustive=True)
    run.__name__ = "unicode_forms_" + name
    run.__doc__ = "text is taken code point by code point: decomposed, singleton and compatibility forms are left as written (" + name + ")"
    return run


for _pid, _pj in (("C03", P.p_ast_text), ("C04", P.p_locations), ("C12", P.p_cells), ("C13", P.p_docstrings)):
    P.PROPS[_pid]["streams"].append(unicode_forms_stream(_pid, _pj))


def unicode_forms_pickles(pid, pj):
    def run(ctx):
        reqs = [("events", [False, False, True, False, [["u.feature", s]]]) for s in unicode_form_sources()]

        def pr(r_, req=None):
            if "envelopes" not in r_:
                return {"outcome": P.outcome(r_)}
            return [pj(e["pickle"]) for e in r_["envelopes"] if "pickle" in e]
        return differential("unicode-forms-pickles/" + pid, reqs, proj=pr, nontrivial=lambda q, x: canon(q[1])[:100], classify=lambda q, x: "doc", exhaustive=True)
    run.__name__ = "unicode_forms_pickles_" + pid
    run.__doc__ = "placeholders and values are compared code point by code point, whatever their canonical form"
    return run


for _pid, _pj in (("C09", pk_interp), ("C10", pk_types), ("C07", pk_steps)):
    P.PROPS[_pid]["streams"].append(unicode_forms_pickles(_pid, _pj))


def c05_unstable_keywords(ctx):
    """keywords are matched as listed: those of the table that are not in a canonical form (kn, ml, pa, ta ...) included"""
    import unicodedata
    D = S.dialects()
    srcs = []
    for code in sorted(D):
        d = D[code]
        for role in ("feature", "rule", "background", "scenario", "scenarioOutline", "examples", "given", "when", "then", "and", "but"):
            for kw in d[role]:
                if unicodedata.normalize("NFC", kw) == kw and unicodedata.normalize("NFD", kw) == kw:
                    continue
                f, sc, g = d["feature"][0], d["scenario"][0], d["given"][-1]
                if role == "feature":
                    doc = "%s: x\n  %s: y\n    %sz\n" % (kw, sc, g)
                elif role in ("given", "when", "then", "and", "but"):
                    doc = "%s: x\n  %s: y\n    %sfirst\n    %sz\n" % (f, sc, g, kw)
                elif role == "examples":
                    doc = "%s: x\n  %s: y\n    %s<a>\n    %s: e\n      | a |\n      | 1 |\n" % (f, d["scenarioOutline"][0], g, kw)
                elif role == "background":
                    doc = "%s: x\n  %s: b\n    %sz\n  %s: y\n    %sz\n" % (f, kw, g, sc, g)
                else:
                    doc = "%s: x\n  %s: y\n    %sz\n" % (f, kw, g) if role != "rule" else "%s: x\n  %s: r\n    %s: y\n      %sz\n" % (f, kw, sc, g)
                srcs.append("# language: %s\n%s" % (code, doc))
    return e2e("unstable-keywords", srcs, P.p_keywords, nontrivial=nt_accepted("ast"), exhaustive=True)


P.PROPS["C05"]["streams"].append(c05_unstable_keywords)
P.PROPS["C10"]["streams"].append(c05_unstable_keywords)


def long_runs_ast(pid, proj):
    def run(ctx):
        srcs = []
        for n in (100, 127, 128, 129, 255, 256, 257, 300, 700):
            comments = "".join("  # c%d\n" % i for i in range(n))
            mixed = "".join(("  @t%d\n" % i) if i % 5 == 0 else ("  # c%d\n" % i if i % 5 in (1, 2) else "\n") for i in range(n))
            for run_ in (comments, mixed):
                srcs.append("Feature: f\n  Scenario: s\n    Given g\n  @first\n" + run_ + "  Scenario: t\n    Given h\n")
                srcs.append("Feature: f\n  Scenario Outline: s\n    Given <a>\n  @first\n" + run_ + "  Examples:\n    | a |\n    | 1 |\n")
                srcs.append("Feature: f\n  Scenario: s\n    Given g\n  @first\n" + run_ + "  Rule: r\n    Example: e\n      Given h\n")
        return e2e("long-look-ahead-runs/" + pid, srcs, proj, nontrivial=nt_accepted("ast"), exhaustive=True)
    run.__name__ = "long_runs_" + pid
    run.__doc__ = "a tag line followed by 100 .. 700 comment, blank and tag lines: every line still reaches the AST (comments, tags), in order"
    return run


P.PROPS["C03"]["streams"].append(long_runs_ast("C03", lambda r, req=None: {"ok": erase_ids_locs(r["ok"])} if "ok" in r else {"outcome": P.outcome(r)}))


def erase_ids_locs(v):
    return P.erase(v, ("location", "id"))


def c01_language_names(ctx):
    """a language header naming anything but a listed dialect is a located error (or a comment) -- never a foreign exception:
    locale-style spellings, case variants, prefixes and extensions of listed names"""
    names = ["zh_CN", "zh-CN", "zh_cn", "en_au", "en-au", "en_AU", "sr_Cyrl", "sr-Cyrl", "sr_Latn", "en_pirate", "en-pirate", "en_Scouse", "en-Scouse", "EN", "En", "en-",
             "-en", "en--au", "e", "em", "emo", "en-tx", "en_tx", "pt", "pt_BR", "pt-br", "uz", "uz_cyrl", "__", "-", "_", "a-b_c", "zh-TW", "zh_TW", "tlh", "TLH"]
    srcs = ["# language: %s\nFeature: f\n  Scenario: s\n    Given g\n" % n for n in names] + ["#language:%s\n" % n for n in names[:12]]
    reqs = [("parse", [stop, "en", s]) for s in srcs for stop in (False, True)] + [("events", [False, True, True, False, [["u", s]]]) for s in srcs]

    def proj(x, req=None):
        if "envelopes" in x:
            return [list(e)[0] for e in x["envelopes"]]
        return P.p_c01(x)
    return differential("language-names", reqs, proj=proj, nontrivial=lambda q, x: canon(q[1])[:80], classify=lambda q, x: q[0] + ":" + P.outcome(x), exhaustive=True)


P.PROPS["C01"]["streams"].append(c01_language_names)
P.PROPS["C02"]["streams"].append(long_runs_ast("C02", P.p_tags_ast))


def c06_uris(ctx):
    """the pickles carry the document's uri as it is: backslashes, blanks, dots, non-ASCII, empty"""
    uris = ["features\\login.feature", "C:\\proj\\a b.feature", "a\\\\b", "./x/../y.feature", "file:///tmp/x.feature", "ü ñ/é.feature", "", " ", "a\tb", "x.feature.md", "\\", "//host/share\\f"]
    src = "Feature: f\n  Background:\n    Given b\n  Scenario: s\n    Given g\n  Scenario Outline: o <a>\n    Given <a>\n    Examples:\n      | a |\n      | 1 |\n  Rule: r\n    Example: e\n      Given h\n"
    reqs = [("events", [ps, True, True, False, [[u, src]]]) for u in uris for ps in (False, True)]

    def pr(r_, req=None):
        if "envelopes" not in r_:
            return {"outcome": P.outcome(r_)}
        return [(list(e)[0], (e[list(e)[0]].get("uri") if isinstance(e[list(e)[0]], dict) else None)) for e in r_["envelopes"]]
    return differential("uris", reqs, proj=pr, nontrivial=lambda q, x: canon(q[1])[:60], classify=lambda q, x: "doc", exhaustive=True)


P.PROPS["C06"]["streams"].append(c06_uris)
P.PROPS["C17"]["streams"].append(c06_uris)


def c10_long_conjunction_runs(ctx):
    """the type of an And / But step is the type of the nearest preceding step that is not one -- however far back it is"""
    srcs = []
    for n in (50, 600, 1100, 2500):
        ands = "".join("    %s s%d\n" % ("And" if i % 2 else "But", i) for i in range(n))
        srcs.append("Feature: f\n  Background:\n    Given b\n%s  Scenario: s\n    When w\n%s    Then t\n%s" % (ands[:400], ands, ands[:200]))
        srcs.append("Feature: f\n  Scenario Outline: o\n    Then <a>\n%s    Examples:\n      | a |\n      | 1 |\n" % ands)
    reqs = [("events", [False, False, True, False, [["u", s]]]) for s in srcs]

    def pr(r_, req=None):
        if "envelopes" not in r_:
            return {"outcome": P.outcome(r_), "type": r_.get("foreign")}
        return [pk_types(e["pickle"]) for e in r_["envelopes"] if "pickle" in e]
    return differential("long-conjunction-runs", reqs, proj=pr, nontrivial=lambda q, x: str(len(q[1][4][0][1])), classify=lambda q, x: "doc", exhaustive=True)


P.PROPS["C10"]["streams"].append(c10_long_conjunction_runs)
P.PROPS["C01"]["streams"].append(c10_long_conjunction_runs)


def c12_control_characters(ctx):
    """a cell is the text between its pipes whatever characters it holds: NUL and other control characters, separators,
    line/paragraph separators -- only blanks at its ends go, only the three escapes are decoded"""
    chars = ["\x00", "\x01", "\x0b", "\x0c", "\x1c", "\x1d", "\x1e", "\x1f", "\x7f", "\x85", "\xa0", "\u2028", "\u2029", "\ufeff", "\u200b", "\r"]
    rows = []
    for c in chars:
        rows += ["| a%sb | %s | x |" % (c, c), "| %sa | b%s | \\n%s |" % (c, c, c), "| \\%s | %s\\| | %s\\\\ |" % (c, c, c)]
    srcs = ["Feature: f\n  Scenario: s\n    Given g\n      %s\n" % rw for rw in rows]
    srcs += ["Feature: f\n  Scenario Outline: o\n    Given <x>\n    Examples:\n      | x | y | z |\n      %s\n" % rw for rw in rows]
    return e2e("control-characters-in-cells", srcs, P.p_cells, nontrivial=nt_accepted("ast"), exhaustive=True)


P.PROPS["C12"]["streams"].append(c12_control_characters)


def c13_media_types(ctx):
    """the media type is the text after the opening delimiter, trimmed -- also when it begins or ends with quote marks or
    backticks, or is made of them"""
    srcs = []
    for d, o in (('"""', "`"), ("```", '"')):
        q = d[0]
        for mt in (q, q + q, q + "x", q + "quoted" + q, "x" + q, o, o + o + o, o + "x" + o, " " + q + " ", q * 4, "json", "", " ", "<h>", q + "<h>"):
            srcs.append("Feature: f\n  Scenario Outline: s\n    Given g\n      %s%s\n      body\n      %s\n    Examples:\n      | h |\n      | v |\n" % (d, mt, d))
            srcs.append("Feature: f\n  Background:\n    Given g\n%s%s\nbody\n%s\n" % (d, mt, d))
    return e2e("media-types", srcs, P.p_docstrings, nontrivial=nt_accepted("ds"), exhaustive=True)


P.PROPS["C13"]["streams"].append(c13_media_types)


# ---------------------------------------------------------------- round-8 strengthening
def o_very_long_lines(ctx):
    """a physical line is one token however long it is (65535 .. 140000 characters): names, descriptions, step texts,
    cells, doc strings, comments come back whole, at their own line (the model is too slow on such lines: checked on the
    implementation against the pieces the text was assembled from)"""
    impl = impl_mod()

    def check(n):
        name, desc, text, cell, body, com = "f " + "n" * n, "d" * n, "g " + "z" * n, "x" * n, "y" * n, "# " + "c" * n
        src = ("Feature: " + name + "\n  " + desc + "\n  Scenario: s\n    Given " + text + "\n      | " + cell + " | b |\n      \n    And h\n      \"\"\"\n      " + body
               + "\n      \"\"\"\n  " + com + "\n")
        r = impl.parse(False, "en", src)
        if "ok" not in r:
            return {"what": "a well-formed document with long lines is rejected", "result": canon(r)[:300]}
        f = r["ok"]["feature"]
        sc = f["children"][0]["scenario"]
        got = [f["name"], f["description"], sc["steps"][0]["text"], sc["steps"][0]["dataTable"]["rows"][0]["cells"][0]["value"], sc["steps"][1]["docString"]["content"],
               r["ok"]["comments"][0]["text"], sc["location"]["line"], sc["steps"][1]["location"]["line"], r["ok"]["comments"][0]["location"]["line"]]
        want = [name, "  " + desc, text, cell, body, "  " + com, 3, 7, 11]
        if got != want:
            k = [i for i in range(len(want)) if got[i] != want[i]][0]
            return {"what": "field %d of a document with lines of %d characters is not what was written" % (k, n), "got": str(got[k])[:80], "want": str(want[k])[:80]}
        t = impl.tokens("en", src)
        if "ok" not in t or len(t["ok"].splitlines()) != src.count("\n") + 1:
            return {"what": "the token listing of a document with long lines does not have one row per line and one for the end of file"}
        return None
    return oracle("very-long-lines", [65535, 65536, 65537, 70000, 140000, (1 << 20) + 5, (1 << 22) + 5, (1 << 23) + 1] + ([(1 << 25) + 17] if ctx.get("pid") in (None, "C04") or S.n_for(0, 1) else []), check, describe=lambda n: "lines of %d characters" % n)


for _pid in ("C03", "C04", "C18"):
    P.PROPS[_pid]["streams"].append(o_very_long_lines)


def c02_empty_step_texts(ctx):
    """a step line made of its keyword alone (the keyword's own trailing blank included) is a step: the sentence
    Feature / Scenario / Step / Step is accepted, with every step nested in the scenario"""
    D = S.dialects()
    srcs = []
    for code in sorted(D)[::S.n_for(3, 1)]:
        d = D[code]
        kws = [k for role in ("given", "when", "then", "and", "but") for k in d[role]]
        body = "".join("    %s\n" % k for k in kws[:12])
        srcs.append("# language: %s\n%s: f\n  %s: s\n%s" % (code, d["feature"][0], d["scenario"][0], body))
        srcs.append("# language: %s\n%s: f\n  %s: s\n    %sx\n%s" % (code, d["feature"][0], d["scenario"][0], kws[0], body.replace("\n", "\r\n")))
        srcs.append("# language: %s\n%s: f\n  %s: s\n    %s" % (code, d["feature"][0], d["scenario"][0], kws[0]))   # no final newline
    def steps_of(v):
        out = []
        P.walk(v, lambda p_, k, x: out.extend([[st.get("keyword"), st.get("text")] for st in x]) if k == "steps" else None)
        return out
    return e2e("empty-step-texts", srcs, lambda r, req=None: {"ok": steps_of(r["ok"])} if "ok" in r else {"outcome": P.outcome(r)},
               nontrivial=nt_accepted("ast"), exhaustive=True)


P.PROPS["C02"]["streams"].append(c02_empty_step_texts)
P.PROPS["C05"]["streams"].append(c02_empty_step_texts)


def o_custom_objects(ctx):
    """the builder and the matcher handed to the parser are the ones it drives, whatever their truth value: a recording
    builder that is an (empty) list, a matcher with a __len__"""
    impl = impl_mod()
    from gherkin.parser import Parser
    from gherkin.token_matcher import TokenMatcher
    from gherkin.ast_builder import AstBuilder
    from gherkin.stream.id_generator import IdGenerator

    class RecBuilder(list):
        def __init__(self):
            super().__init__()
            self.inner = AstBuilder(IdGenerator())

        def reset(self):
            self.inner.reset()

        def start_rule(self, r):
            self.append(("S", r)); self.inner.start_rule(r)

        def end_rule(self, r):
            self.append(("E", r)); self.inner.end_rule(r)

        def build(self, t):
            self.append(("B", t.matched_type, t.location["line"])); self.inner.build(t)

        def get_result(self):
            return self.inner.get_result()

    class LenMatcher(TokenMatcher):
        def __len__(self):
            return 0

    docs = ["Feature: f\n  Background:\n    Given b\n  @t\n  Scenario Outline: o\n    Given <a>\n      | x |\n    @e\n    Examples:\n      | a |\n      | 1 |\n  Rule: r\n    Example: e\n      Given g\n        \"\"\"\n        d\n        \"\"\"\n",
            "# language: fr\nFonctionnalité: f\n  Scénario: s\n    Soit x\n    Et y\n"]

    def check(src):
        rb = RecBuilder()
        try:
            got = Parser(rb).parse(src)
        except Exception as e:  # noqa
            return {"what": "a document accepted with the default builder is not with a recording one: %r" % (e,)}
        ref = Parser().parse(src)
        if canon(got) != canon(ref):
            return {"what": "the result obtained through a recording builder differs"}
        n = src.count("\n") + (0 if src.endswith("\n") else 1)
        builds = [e for e in rb if e[0] == "B"]
        if [e[2] for e in builds] != list(range(1, n + 2)):
            return {"what": "the builder handed to the parser did not receive one token per line and the end of file", "received": [e[2] for e in builds][:20]}
        depth = 0
        for e in rb:
            depth += 1 if e[0] == "S" else -1 if e[0] == "E" else 0
            if depth < 0:
                return {"what": "end_rule without start_rule"}
        if depth != 0:
            return {"what": "rules left open"}
        if src.startswith("# language: fr"):
            try:
                a = Parser().parse("Fonctionnalité: f\n  Scénario: s\n    Soit x\n", LenMatcher("fr"))
                b = Parser().parse("Fonctionnalité: f\n  Scénario: s\n    Soit x\n", TokenMatcher("fr"))
            except Exception as e:  # noqa
                return {"what": "the matcher handed to parse() was not used: %r" % (e,)}
            if canon(a) != canon(b):
                return {"what": "a matcher with a __len__ gives another result"}
        return None
    return oracle("custom-builder-and-matcher", docs, check, describe=lambda s: s[:60])


P.PROPS["C02"]["streams"].append(o_custom_objects)
P.PROPS["C18"]["streams"].append(o_custom_objects)


def c12_hash_cells_and_wide_tables(ctx):
    """'#' has no meaning inside a table row; a table may have any number of columns (1 .. 600): rectangular ones are
    accepted, the first deviating row of a ragged one is reported"""
    srcs = []
    for rw in ("| #1 | x |", "| y | # two |", "| # |", "|#|#|", "| a | b | # was | c |", "| a # b | # |", "|  #x|y  #|", "| \\# | #\\| |"):
        srcs.append("Feature: f\n  Scenario: s\n    Given g\n      %s\n      %s\n" % (rw, rw))
        srcs.append("Feature: f\n  Scenario Outline: o\n    Given <a>\n    Examples:\n      %s\n      %s\n" % (rw, rw))
    for w in (1, 2, 255, 256, 257, 258, 300, 600):
        row = lambda i: "      |" + "".join(" c%d_%d |" % (i, j) for j in range(w)) + "\n"
        srcs.append("Feature: f\n  Scenario: s\n    Given g\n" + row(0) + row(1) + row(2))
        srcs.append("Feature: f\n  Scenario: s\n    Given g\n" + row(0) + row(1) + "      |" + " x |" * (w + 1) + "\n" + row(3))
        srcs.append("Feature: f\n  Scenario Outline: o\n    Given <c0_0>\n    Examples:\n" + row(0) + row(1))
    return e2e("hash-cells-and-wide-tables", srcs, P.p_cells, nontrivial=lambda q, x: q[1][2][:60], exhaustive=True)


P.PROPS["C12"]["streams"].append(c12_hash_cells_and_wide_tables)

PERTURB.append("#language: fr\nFonctionnalité: f\n  Scénario: s\n    Soit x\n      \"\"\"\n      jamais fermé\n")
PERTURB.append("# language: no\nEgenskap: f\n  Scenario: s\n    Gitt g\n        ```\n   open and dialect switched\n")


def o_c17_eager_iterators(ctx):
    """the envelopes of a source do not depend on when its iterator is drained: creating the iterators of all sources
    first and draining them afterwards gives what handling the sources one after the other gives"""
    impl = impl_mod()
    from gherkin.stream.gherkin_events import GherkinEvents
    import copy as _copy
    pool = ["Feature: a\n  Scenario: s\n    Given g\n", "Feature: b\n  @t\n  Scenario Outline: o\n    Given <x>\n    Examples:\n      | x |\n      | 1 |\n      | 2 |\n",
            "Feature: bad\n  oops\n", "Feature: c\n  Background:\n    Given b\n  Rule: r\n    Example: e\n      Given g\n", ""]
    r = rng("c17eager")
    seqs = [[pool[0], pool[1]], [pool[1], pool[2], pool[3]], pool] + [[r.choice(pool) for _ in range(r.randint(2, 5))] for _ in range(S.n_for(10, 100))]
    items = [(seq, opts) for seq in seqs for opts in ((True, True, True), (False, True, True), (False, False, True), (False, True, False))]

    def check(it):
        seq, (ps, pa, pp) = it
        def mk():
            return GherkinEvents(GherkinEvents.Options(print_source=ps, print_ast=pa, print_pickles=pp))
        evs = [{"source": {"uri": "u%d" % i, "data": s, "mediaType": "text/x.cucumber.gherkin+plain"}} for i, s in enumerate(seq)]
        ge = mk()
        one_by_one = [_copy.deepcopy(list(ge.enum(e))) for e in evs]
        ge2 = mk()
        its = [ge2.enum(e) for e in evs]
        drained = [_copy.deepcopy(list(x)) for x in its]
        if canon(one_by_one) != canon(drained):
            return {"what": "envelopes depend on when the iterators are created and drained", "sequential": one_by_one[0][:2], "eager": drained[0][:2]}
        return None
    return oracle("eager-iterators", items, check, describe=lambda it: repr(it[1]) + " " + repr([s[:20] for s in it[0]]))


P.PROPS["C17"]["streams"].append(o_c17_eager_iterators)
P.PROPS["C15"]["streams"].append(o_c17_eager_iterators)


def c03_title_shapes(ctx):
    """the name of a keyword line is the rest of the line after the keyword and ONE colon, trimmed: names that begin with
    colons, comment / tag / table / doc-string characters, names that are keywords, names made of blanks"""
    names = [":x", "::module::login", ":", "::", ":::", " :x", ": :", ":x:", "#x", " # not a comment", "@x", "|x|", '"' * 3, "```", "Given x", "Feature: nested",
             "x:", "  x : y  ", "\\:", "*", "* x", "<a>", ":\t:", "\u00a0:\u00a0", "-", "--", ":-)"]
    srcs = []
    for nm in names:
        srcs.append("Feature:%s\n  Rule:%s\n    Background:%s\n      Given g\n    Scenario:%s\n      Given h\n    Scenario Outline:%s\n      Given <a>\n      Examples:%s\n        | a |\n        | 1 |\n"
                    % (nm, nm, nm, nm, nm, nm))
        srcs.append("Feature:%s\n  Example:%s\n    Given g\n  Scenario Template:%s\n    Given <a>\n    Scenarios:%s\n      | a |\n" % (nm, nm, nm, nm))
    return e2e("title-shapes", srcs, P.p_ast_text, nontrivial=nt_accepted("ast"), exhaustive=True)


P.PROPS["C03"]["streams"].append(c03_title_shapes)
P.PROPS["C04"]["streams"].append(c03_title_shapes)


def c02_unclosed_rows(ctx):
    """a line whose first non-blank character is '|' is a table row wherever the grammar reads one, whatever follows the
    '|' -- also a row without a closing '|' (zero cells): after a step it opens the data table, after an Examples line the
    examples table; a step after such an examples row is not a sentence"""
    rows = ["|", "| a", "|\t", "|   x", "|x", "| ", "|\\", "|\\|", "| a | b", "||", "| a |"]
    srcs = []
    for rw in rows:
        srcs.append("Feature: f\n  Scenario: s\n    Given g\n      %s\n" % rw)
        srcs.append("Feature: f\n  Scenario: s\n    Given g\n      %s\n      %s\n    When h\n" % (rw, rw))
        srcs.append("Feature: f\n  Scenario Outline: o\n    Given <a>\n    Examples:\n      %s\n" % rw)
        srcs.append("Feature: f\n  Scenario Outline: o\n    Given <a>\n    Examples:\n      %s\n    Given too late\n" % rw)
        srcs.append("Feature: f\n  Rule: r\n    Scenario Outline: o\n      Given <a>\n      @t\n      Examples:\n      %s\n      %s\n\n      # c\n      Examples: again\n      %s\n" % (rw, rw, rw))
        srcs.append("Feature: f\n  %s\n  Scenario: s\n" % rw)       # where no row is expected: free text
    return e2e("unclosed-rows", srcs, P.p_ast_text, modes=(False, True), nontrivial=lambda q, x: q[1][2][:70], exhaustive=True)


P.PROPS["C02"]["streams"].append(c02_unclosed_rows)
P.PROPS["C12"]["streams"].append(c02_unclosed_rows)


def o_hash_seeds(ctx):
    """parsing and compiling do not depend on the interpreter's string-hash seed: fresh interpreters started with
    different PYTHONHASHSEED values produce byte-identical ASTs, pickles and errors for the same documents
    (repeated tag names, many tags, repeated cells, repeated step texts included)"""
    import subprocess, hashlib
    from common import REPO
    docs = ["@a @b @c @a\nFeature: f\n  @d @a @e\n  Scenario: s\n    Given g\n",
            "@smoke @x @y\nFeature: f\n  @z @smoke\n  Rule: r\n    @w @x\n    Scenario Outline: o\n      Given <a>\n      @q @smoke @r\n      Examples:\n        | a |\n        | 1 |\n        | 1 |\n",
            "Feature: f\n  Background:\n    Given b\n  Scenario: s\n    Given g\n      | a | a | b |\n      | 1 | 1 | 2 |\n    And g\n    And g\n",
            "@t1 @t2 @t3 @t4 @t5 @t6 @t7 @t8 @t9 @t1 @t2\nFeature: many\n  Scenario: s\n    * x\n",
            "Feature: bad\n  oops\n  @a @b @a\n  nope\n", "# language: fr\n@é @è @é\nFonctionnalité: f\n  @ê @é\n  Scénario: s\n    Soit x\n"]
    script = ("import sys, json\nfrom gherkin.parser import Parser\nfrom gherkin.pickles.compiler import Compiler\nfrom gherkin.stream.id_generator import IdGenerator\n"
              "from gherkin.ast_builder import AstBuilder\nfrom gherkin.errors import CompositeParserException, ParserException\n"
              "docs = json.loads(sys.stdin.read())\nout = []\n"
              "for d in docs:\n"
              "    ids = IdGenerator()\n"
              "    try:\n"
              "        ast = Parser(AstBuilder(ids)).parse(d)\n"
              "        ast['uri'] = 'u'\n"
              "        out.append([ast, Compiler(ids).compile(ast)])\n"
              "    except CompositeParserException as e:\n"
              "        out.append([str(x) for x in e.errors])\n"
              "    except ParserException as e:\n"
              "        out.append([str(e)])\n"
              "sys.stdout.write(json.dumps(out))\n")
    env0 = dict(os.environ, PYTHONPATH=os.path.join(REPO, "python"), PYTHONDONTWRITEBYTECODE="1")
    outs = {}
    for seed in ("0", "1", "2", "77", "12345", "4294967295")[:S.n_for(4, 6)]:
        try:
            pr = subprocess.run([sys.executable, "-c", script], input=json.dumps(docs), capture_output=True, text=True, env=dict(env0, PYTHONHASHSEED=seed), timeout=600)
        except subprocess.TimeoutExpired:
            continue        # a busy machine is not a finding; the seeds that did run are compared
        outs[seed] = pr.stdout if pr.returncode == 0 else "exit %d: %s" % (pr.returncode, pr.stderr[-300:])
    if "0" not in outs:
        outs["0"] = next(iter(outs.values()), "[]")
    ref = outs["0"]

    def check(i):
        per = {}
        for seed, o in outs.items():
            try:
                per[seed] = json.dumps(json.loads(o)[i])
            except Exception:
                per[seed] = o[:200]
        if len(set(per.values())) != 1:
            a, b = sorted(set(per.values()))[:2]
            return {"what": "result depends on PYTHONHASHSEED", "document": docs[i], "one": a[:400], "other": b[:400], "seeds": sorted(per)}
        return None
    return oracle("hash-seeds", list(range(len(docs))), check, describe=lambda i: docs[i][:60])


P.PROPS["C15"]["streams"].append(o_hash_seeds)
P.PROPS["C08"]["streams"].append(o_hash_seeds)


def o_c01_every_dialect(ctx):
    """no foreign exception under any dialect of the table: for every dialect code a document that selects it and then
    goes through every match_* method (free text, tag, row, doc string, bullet, keyword-less lines), both modes, stream"""
    impl = impl_mod()
    from common import REPO
    with open(os.path.join(REPO, "python", "gherkin", "gherkin-languages.json"), encoding="utf8") as f:
        table = json.load(f)
    codes = sorted(table)

    def kw(code, role):
        v = table[code].get(role) or ["Missing"]
        return [k for k in v if k.strip() != "*"][0] if any(k.strip() != "*" for k in v) else v[0]

    def bodies_of(code):
        # the dialect's own feature / scenario / step keywords, so that every state's tests are reached
        head = "%s: f\n" % kw(code, "feature")
        return ["some free text\n  more text\n@tag\n| row |\n```\nx\n```\n* bullet\nRule: r\nnot a keyword:\n", "\n\n# comment\nplain\n",
                head + "  free text in the description\n  not a keyword:\n  %s: s\n    %sx\n    oops\n" % (kw(code, "scenario"), kw(code, "given")),
                head + "\n  @t\n  %s: s\n    description line\n    %sx\n      | a |\n    ```\n    text\n" % (kw(code, "scenarioOutline"), kw(code, "when"))]

    def check(code):
        for body in bodies_of(code):
            src = "# language: %s\n%s" % (code, body)
            for stop in (False, True):
                res = impl.parse(stop, "en", src)
                if "foreign" in res:
                    return {"what": "foreign exception %s from Parser.parse under dialect %s (stop=%s): %s" % (res["foreign"], code, stop, res.get("text")), "source": src}
            ev = impl.events(True, True, True, False, [["u", src]])
            if "envelopes" not in ev:
                return {"what": "GherkinEvents.enum raised under dialect %s: %r" % (code, ev), "source": src}
            res = impl.parse(False, code, body)
            if "foreign" in res:
                return {"what": "foreign exception %s with TokenMatcher(%r): %s" % (res["foreign"], code, res.get("text")), "source": body}
        return None
    return oracle("every-dialect-exception-types", codes, check, describe=lambda c: c)


P.PROPS["C01"]["streams"].append(o_c01_every_dialect)
P.PROPS["C05"]["streams"] += [c14_language_lines, P.unit_language]
P.PROPS["C10"]["streams"].append(o_interleave)
P.PROPS["C15"]["streams"].append(compile_stream("C15", pj_pickles(lambda p: p), nt_pickles(lambda p: len(p["tags"]) >= 1), nparsed=(150, 2000), nrandom=(300, 6000)))


def o_error_location_consistency(ctx):
    """the location an error object carries is the position its message names, at the time the error is delivered (collected
    errors are delivered after the parse went on: nothing may have rewritten them meanwhile)"""
    import re as _re
    impl = impl_mod()
    heads = ["# language: zz", "   # language: nope", "\t#language:xx-YY", " # language: qq  "]
    srcs = [h + "\nFeature: f\n  Scenario: s\n    Given g\n" for h in heads] + ["\n\n  " + h + "\nFeature: f\n" for h in heads]
    srcs += ["Feature: f\n   @a b\n  Scenario: s\n", "Feature: f\n  Scenario: s\n    Given g\n        | a |\n        | b | c |\n", "  oops\nFeature: f\n      bad again:\n"]
    srcs += S.mutated_sources(S.n_for(150, 2000), salt="errloc")

    def check(src):
        for stop in (False, True):
            res = impl.parse(stop, "en", src)
            for e in res.get("errors", []) + ([res["error"]] if "error" in res else []):
                m = _re.match(r"\((\d+):(\d+)\): ", e["message"])
                if not m:
                    return {"what": "error message without a position prefix: %r" % (e,)}
                loc = e["location"]
                if (loc.get("line"), loc.get("column") or 0) != (int(m.group(1)), int(m.group(2))):
                    return {"what": "error location %r is not the position its message names %r (stop=%s)" % (loc, e["message"][:60], stop)}
        ev = impl.events(False, True, True, False, [["u", src]])
        for env in ev.get("envelopes", []):
            if "parseError" in env:
                pe = env["parseError"]
                m = _re.match(r"\((\d+):(\d+)\): ", pe["message"])
                loc = pe["source"]["location"]
                if not m or (loc.get("line"), loc.get("column") or 0) != (int(m.group(1)), int(m.group(2))):
                    return {"what": "parseError location %r is not the position its message names %r" % (loc, pe["message"][:60])}
        return None
    return oracle("error-location-consistency", srcs, check, describe=lambda s_: s_[:80])


for _pid in ("C04", "C05", "C14"):
    P.PROPS[_pid]["streams"].append(o_error_location_consistency)


# ---------------------------------------------------------------- entry points that share nothing (round 11)
def _dialect_pool():
    """plain documents of every dialect using every step keyword ('* ' included), doc strings of every delimiter
    (four backticks included), a table and tags"""
    D = S.dialects()
    out = []
    for code in sorted(D):
        d = D[code]
        head = "# language: %s\n" % code
        steps = [k for role in ("given", "when", "then", "and", "but") for k in d[role]]
        seen, uniq = set(), []
        for k in steps:
            if k not in seen:
                seen.add(k)
                uniq.append(k)
        body = "".join("    %sx%d\n" % (k, i) for i, k in enumerate(uniq))
        out.append(head + "%s: f\n  %s: b\n    * first\n  %s: s\n%s" % (d["feature"][0], d["background"][0], d["scenario"][0], body))
    en = ["Feature: f\n  Scenario: s\n    Given a\n      ````\n      four\n      ````\n    And b\n      ```\n      three\n      ```\n    And c\n      \"\"\"\n      quotes\n      \"\"\"\n",
          "Feature: f\n  Scenario: s\n    * a\n      ```md\n      ````\n      ```\n    * b\n      | c |\n",
          "Feature: f\n  Scenario: s\n    Given a\n      ````\n      never closed by three\n      ```\n",
          "Feature: f\n\n  * not a step here\n  Scenario: s\n    * a step\n    - not a step\n    + neither\n"]
    return out + en


def o_markdown_coexists(ctx):
    """the Markdown matcher and the plain matcher live in one process: constructing and using a Markdown matcher (any
    dialect) changes nothing for plain documents parsed before and after it, and leaves the in-memory dialect table equal
    to the shipped one (run in a fresh interpreter, so that the order of construction is the one written here)"""
    import subprocess
    from common import REPO
    pool = _dialect_pool()
    md = "# Feature: f\n\n## Scenario: s\n\n* Given a\n* When b\n\n```\ndoc\n```\n\n| a |\n|---|\n| 1 |\n"
    script = ("import sys, json, copy\nfrom gherkin.parser import Parser\nfrom gherkin.token_matcher import TokenMatcher\n"
              "from gherkin.errors import CompositeParserException, ParserException\n"
              "import gherkin.dialect as GD\n"
              "inp = json.loads(sys.stdin.read())\n"
              "def plain(d):\n"
              "    try:\n"
              "        return Parser().parse(d, TokenMatcher('en'))\n"
              "    except CompositeParserException as e:\n"
              "        return [str(x) for x in e.errors]\n"
              "    except ParserException as e:\n"
              "        return [str(e)]\n"
              "    except Exception as e:\n"
              "        return 'foreign ' + type(e).__name__\n"
              "table0 = copy.deepcopy(GD.DIALECTS)\n"
              "before = [plain(d) for d in inp['pool']]\n"
              "from gherkin.token_matcher_markdown import GherkinInMarkdownTokenMatcher as M\n"
              "mds = []\n"
              "for code in inp['codes']:\n"
              "    m = M(code)\n"
              "    try:\n"
              "        mds.append(json.dumps(Parser().parse(inp['md'], m)))\n"
              "    except Exception as e:\n"
              "        mds.append(type(e).__name__)\n"
              "mid = [plain(d) for d in inp['pool']]\n"
              "m = M('en')\n"
              "for d in inp['pool'][:40]:\n"
              "    try:\n"
              "        Parser().parse(d, m)\n"
              "    except Exception:\n"
              "        pass\n"
              "after = [plain(d) for d in inp['pool']]\n"
              "sys.stdout.write(json.dumps({'before': before, 'mid': mid, 'after': after, 'table_same': table0 == GD.DIALECTS,\n"
              "    'table': {c: GD.DIALECTS[c] for c in GD.DIALECTS if GD.DIALECTS[c] != table0.get(c)}, 'md_en': mds[inp['codes'].index('en')]}))\n")
    env0 = dict(os.environ, PYTHONPATH=os.path.join(REPO, "python"), PYTHONDONTWRITEBYTECODE="1", PYTHONHASHSEED="0")
    codes = sorted(S.dialects())
    try:
        pr = subprocess.run([sys.executable, "-c", script], input=json.dumps({"pool": pool, "codes": codes, "md": md}), capture_output=True, text=True, env=env0, timeout=900)
        rep = json.loads(pr.stdout) if pr.returncode == 0 else {"crash": "exit %d: %s" % (pr.returncode, pr.stderr[-400:])}
    except subprocess.TimeoutExpired:
        rep = None        # a busy machine is not a finding
    want_tab = S.dialects()

    def check(i):
        if rep is None:
            return None
        if "crash" in rep:
            return {"what": "the interpreter that builds Markdown matchers between plain parses failed: " + rep["crash"]}
        if i == len(pool):
            if not rep["table_same"]:
                return {"what": "the in-memory dialect table changed while Markdown matchers were built and used", "changed": sorted(rep["table"])[:5]}
            return None
        b, m_, a = rep["before"][i], rep["mid"][i], rep["after"][i]
        if canon(b) != canon(m_) or canon(b) != canon(a):
            return {"what": "a plain document parses differently once a Markdown matcher has been built or used in the same process",
                    "before": canon(b)[:300], "after": canon(m_ if canon(b) != canon(m_) else a)[:300]}
        if isinstance(b, str):
            return {"what": "a plain document raised a foreign exception: " + b}
        return None
    return oracle("markdown-coexists", list(range(len(pool) + 1)), check, describe=lambda i: pool[i][:70] if i < len(pool) else "dialect table")


for _pid in ("C05", "C13", "C19", "C15", "C12"):
    P.PROPS[_pid]["streams"].append(o_markdown_coexists)


def o_call_isolation(ctx):
    """what a call returned belongs to its caller, and objects constructed with defaults are independent: (a) a result
    (AST or list of errors) is not changed by later calls on the same parser; (b) changing a returned AST or pickle list
    in place does not change what later calls return; (c) two default-constructed parsers / builders / compilers number
    their results alike"""
    import copy as _copy
    impl = impl_mod()
    docs = ["", "# just a comment\n", "\n\n", "Feature: f\n  # c1\n  Scenario: s\n    Given g\n  # c2\n", "# c0\nFeature: g\n  @t\n  Scenario Outline: o\n    Given <a>\n    Examples:\n      | a |\n      | 1 |\n# c3\n",
            "Feature: bad\n  oops\n  nope\n", "# c4\n@t\n", "Feature: f\n  Background:\n    Given b\n  Rule: r\n    Scenario: s\n      Given g\n        | a |\n# tail\n",
            "#language: fr\nFonctionnalité: f\n  # c\n  Scénario: s\n    Soit x\n"]

    def run(p, src, m=None):
        try:
            return ("ok", p.parse(impl.source_arg(src), m) if m is not None else p.parse(impl.source_arg(src)))
        except impl.CompositeParserException as e:
            return ("errors", e)
        except impl.ParserException as e:
            return ("error", e)

    def view(r):
        k, v = r
        return canon(v) if k == "ok" else canon([impl.err_json(x) for x in (v.errors if k == "errors" else [v])])

    def scribble(v):
        """change a returned value in place, everywhere"""
        if isinstance(v, dict):
            for x in list(v.values()):
                scribble(x)
            v["scribbled"] = True
        elif isinstance(v, list):
            for x in v:
                scribble(x)
            v += [{"scribbled": True}]

    items = [("later", a, b, shared_m) for a in docs for b in docs[:6] for shared_m in (False, True)]
    items += [("scribble-ast", a, b, False) for a in docs for b in docs[:5]]
    items += [("scribble-pickles", a, b, False) for a in docs for b in docs[:5]]
    items += [("defaults", a, None, False) for a in docs]

    def check(it):
        kind, a, b, shared_m = it
        if kind == "later":
            p = impl.Parser(impl.AstBuilder(impl.CountingIdGen()))
            m = impl.TokenMatcher("en") if shared_m else None
            ra = run(p, a, m)
            snap = view(ra)
            for nxt in (b, a):
                run(p, nxt, m)
                if view(ra) != snap:
                    return {"what": "a result changed after a later parse on the same parser", "was": snap[:300], "now": view(ra)[:300]}
            return None
        if kind == "scribble-ast":
            p = impl.Parser(impl.AstBuilder(impl.CountingIdGen()))
            want_b = view(run(impl.Parser(impl.AstBuilder(impl.CountingIdGen())), b))
            ra = run(p, a)
            if ra[0] == "ok":
                scribble(ra[1])
            p2 = impl.Parser(impl.AstBuilder(impl.CountingIdGen()))
            for q in (p2, impl.Parser(impl.AstBuilder(impl.CountingIdGen()))):
                got = view(run(q, b))
                if got != want_b:
                    return {"what": "a parse returns something else after an earlier AST was changed in place", "want": want_b[:300], "got": got[:300]}
            return None
        if kind == "scribble-pickles":
            def comp(c, g, src):
                r = run(impl.Parser(impl.AstBuilder(g)), src)
                if r[0] != "ok":
                    return None
                d = r[1]
                d["uri"] = "u"
                return c.compile(d)
            g0 = impl.CountingIdGen()
            want_b = canon(comp(impl.Compiler(g0), g0, b))
            g1 = impl.CountingIdGen()
            c1 = impl.Compiler(g1)
            pa = comp(c1, g1, a)
            if pa is not None:
                scribble(pa)
            g1.n = 0
            got1 = canon(comp(c1, g1, b))
            g2 = impl.CountingIdGen()
            got2 = canon(comp(impl.Compiler(g2), g2, b))
            for got in (got1, got2):
                if got != want_b:
                    return {"what": "a compile returns something else after an earlier pickle list was changed in place", "want": want_b[:300], "got": got[:300]}
            return None
        # defaults
        first = view(run(impl.Parser(), a))
        impl.Parser()
        second = view(run(impl.Parser(), a))
        if first != second:
            return {"what": "two default-constructed parsers give different results for the same document", "first": first[:300], "second": second[:300]}
        third = view(run(impl.Parser(impl.AstBuilder()), a))
        if third != first:
            return {"what": "a parser over a default-constructed builder gives another result than a default-constructed parser", "first": first[:300], "third": third[:300]}
        r = run(impl.Parser(), a)
        if r[0] == "ok":
            def pick():
                d = _copy.deepcopy(r[1])
                d["uri"] = "u"
                return canon(impl.Compiler().compile(d))
            x, y = pick(), pick()
            if x != y:
                return {"what": "two default-constructed compilers give different pickles for the same document", "first": x[:300], "second": y[:300]}
        return None
    return oracle("call-isolation", items, check, describe=lambda it: [it[0], (it[1] or "")[:40], (it[2] or "")[:40], it[3]])


for _pid in ("C03", "C04", "C06", "C11", "C15"):
    P.PROPS[_pid]["streams"].append(o_call_isolation)


def c02_docstring_closers(ctx):
    """inside a doc string only a line that is exactly the opening delimiter (blanks around it allowed) closes it: the
    delimiter followed by text, the other delimiter, a longer run of the delimiter character are content; what follows
    the real closing line is read as usual"""
    srcs = []
    for d, o in (('"""', "```"), ("```", '"""')):
        inner = [d + "json", d + " json", d + d, d + d[0], o, o + "x", "  " + d + "x", d + "\t", d + "  ", "\\" + d, d[:2], "x" + d, d + "#c", d + " " + d]
        for ln in inner:
            for after in ("    And h\n", "  @t\n  Scenario: t\n", "      | a |\n", "", "    " + d + "\n", "  Examples:\n"):
                srcs.append("Feature: f\n  Scenario: s\n    Given g\n      %s\n      body\n      %s\n      more\n      %s\n%s" % (d, ln, d, after))
                srcs.append("Feature: f\n  Background:\n    Given g\n      %smedia\n      %s\n%s" % (d, ln, after))
    return e2e("docstring-closers", srcs, lambda r, req=None: {"ok": erase_ids_locs(r["ok"])} if "ok" in r else {"outcome": P.outcome(r), "errors": [e.get("message") for e in r.get("errors", [])] + ([r["error"].get("message")] if "error" in r else [])},
               modes=(False, True), nontrivial=lambda q, x: q[1][2][:90], exhaustive=True)


P.PROPS["C02"]["streams"].append(c02_docstring_closers)
P.PROPS["C13"]["streams"].append(c02_docstring_closers)


def o_c12_gapped_tables(ctx):
    """rows of a table separated by blank lines and comments are rows of that one table: a cell matrix written with gaps
    reads back as written (data tables in every step context, examples tables), and a row whose cell count deviates is
    reported at its own line whatever lies between it and the first row"""
    impl = impl_mod()
    r = rng("c12gaps")
    gaps = ["", "\n", "   \n", "      # note\n", "\n      # note | with | pipes\n\n", "#c\n", "\t\n\n"]
    ctxs = [("Feature: f\n  Scenario: s\n    Given t\n", "    And more\n", lambda f: f["children"][0]["scenario"]["steps"][0]["dataTable"]["rows"]),
            ("Feature: f\n  Background:\n    Given t\n", "\n  Scenario: s\n    Given g\n", lambda f: f["children"][0]["background"]["steps"][0]["dataTable"]["rows"]),
            ("Feature: f\n  Rule: r\n    Scenario: s\n      When t\n", "", lambda f: f["children"][0]["rule"]["children"][0]["scenario"]["steps"][0]["dataTable"]["rows"]),
            ("Feature: f\n  Rule: r\n    Background:\n      * t\n", "    Scenario: z\n", lambda f: f["children"][0]["rule"]["children"][0]["background"]["steps"][0]["dataTable"]["rows"]),
            ("Feature: f\n  Scenario Outline: o\n    Given <c>\n    Examples:\n", "\n  @t\n  Scenario: n\n",
             lambda f: [f["children"][0]["scenario"]["examples"][0]["tableHeader"]] + f["children"][0]["scenario"]["examples"][0]["tableBody"]),
            ("Feature: f\n  Rule: r\n    Scenario Outline: o\n      Given <c>\n      Examples: one\n        | c |\n      Examples: two\n", "",
             lambda f: [f["children"][0]["rule"]["children"][0]["scenario"]["examples"][1]["tableHeader"]] + f["children"][0]["rule"]["children"][0]["scenario"]["examples"][1]["tableBody"])]
    items = []
    for _ in range(S.n_for(400, 6000)):
        ci = r.randrange(len(ctxs))
        w = r.randint(1, 3)
        nrows = r.randint(2, 5)
        counts = [w] * nrows
        if r.random() < 0.4:
            counts[r.randrange(1, nrows)] = r.choice([x for x in (0, 1, 2, 3, 4) if x != w])
        items.append((ci, counts, [r.choice(gaps) for _ in range(nrows)]))

    def check(it):
        ci, counts, gs = it
        pre, post, rows_of = ctxs[ci]
        src, line, lines, mat = pre, pre.count("\n"), [], []
        for i, k in enumerate(counts):
            g = gs[i] if i else ""
            src += g
            line += g.count("\n")
            cells = ["r%dc%d" % (i, j) for j in range(k)]
            src += "      |" + "".join(" %s |" % c for c in cells) + "\n"
            line += 1
            lines.append(line)
            mat.append(cells)
        src += post
        res = impl.parse(False, "en", src)
        bad = [i for i, k in enumerate(counts) if k != counts[0]]
        if not bad:
            if "ok" not in res:
                return {"what": "a rectangular table written with blank lines and comments between its rows is rejected", "source": src, "result": canon(res)[:300]}
            rows = rows_of(res["ok"]["feature"])
            got = [[c["value"] for c in rw["cells"]] for rw in rows]
            if got != mat or [rw["location"]["line"] for rw in rows] != lines:
                return {"what": "a table written with gaps between its rows does not read back as written", "source": src, "got": got, "lines": [rw["location"]["line"] for rw in rows]}
            return None
        errs = res.get("errors", [])
        if len(errs) != 1 or "inconsistent cell count" not in errs[0]["message"] or errs[0]["location"].get("line") != lines[bad[0]]:
            return {"what": "a ragged table (gaps between rows) is not reported once, at its first deviating row (line %d)" % lines[bad[0]], "source": src, "result": canon(res)[:300]}
        return None
    return oracle("gapped-tables", items, check, describe=lambda it: [it[0], it[1], it[2]])


P.PROPS["C12"]["streams"].append(o_c12_gapped_tables)
P.PROPS["C12"]["sources"] = TABLE_SOURCES
for _pid in ("C12", "C13"):
    P.PROPS[_pid]["streams"].append(o_very_long_lines)
P.PROPS["C17"]["streams"].append(o_error_location_consistency)
P.PROPS["C18"]["streams"].append(c01_error_line_characters)
P.PROPS["C05"]["streams"].append(o_interleave)
# the table the package ships and loads is the master table, whatever property reads keywords through it
for _pid in sorted(P.PROPS):
    if o_json_identity not in P.PROPS[_pid]["streams"]:
        P.PROPS[_pid]["streams"].append(o_json_identity)


# ---------------------------------------------------------------- round 12
ABORTING_DOCS = OPEN_DOCSTRING_DOCS + [
    # an error raised while look-ahead tokens are buffered: the ragged table is closed by a tag line the look-ahead ran over
    "Feature: f\n  Scenario: s\n    Given t\n      | a |\n      | b | c |\n  @tag\n\n  # c\n  Scenario: x\n    Given y\n",
    "Feature: f\n  Scenario Outline: o\n    Given <a>\n    Examples:\n      | a |\n      | 1 | 2 |\n    @e\n\n    Examples:\n      | a |\n",
    # the same as the eleventh error of a collecting run
    "Feature: f\n  Scenario: s\n    Given g\n" + "".join("    oops %d\n" % i for i in range(10)) + "    Given t\n      | a |\n      | b | c |\n  @tag\n\n  Scenario: x\n    Given y\n",
    # eleven and more errors; an unexpected end of file after a tag line; a doc string left open in another dialect
    "Feature: f\n  Scenario: s\n    Given g\n" + "".join("    nope %d\n" % i for i in range(14)),
    "Feature: f\n  Scenario: s\n    Given g\n  @dangling\n",
    "# language: fr\nFonctionnalité: f\n  Scénario: s\n    Soit g\n      ```\n      ouvert\n",
    "# language: no-such\nFeature: f\n"]
FOLLOWING_DOCS = [
    "Feature: v\n  Scenario: s\n    Given g\n      \"\"\"\n      body\n      \"\"\"\n    When h\n      ```\n      other\n      ```\n    Then i\n    And j\n    But k\n    * l\n",
    "Feature: v\n  Scenario: s2\n    Given y\n",
    "Feature: v\n  Background:\n    Given b\n      | a |\n  Rule: r\n    @t\n    Scenario Outline: o\n      When <a>\n        \"\"\"\n        <a>\n        \"\"\"\n      Examples:\n        | a |\n        | 1 |\n",
    "# language: de\nFunktionalität: v\n  Szenario: s\n    Angenommen g\n    Wenn h\n    Dann i\n",
    "# c\n", ""]


def abort_histories(pid, proj):
    """one Parser, one TokenMatcher, one builder through several documents: after a parse that was cut short (a doc string
    left open, an error raised while look-ahead tokens were buffered, the error cap, an unknown dialect, another dialect's
    header) the next documents parse as they do alone -- typed results, same acceptance, same AST"""
    def stream(ctx):
        reqs = []
        for dflt in ("en", "fr"):
            for a in ABORTING_DOCS:
                for stop in (False, True):
                    for f in FOLLOWING_DOCS[:4]:
                        reqs.append(("parse_history", [dflt, [[stop, a], [False, f]]]))
                    reqs.append(("parse_history", [dflt, [[stop, a], [stop, a], [True, FOLLOWING_DOCS[0]], [False, FOLLOWING_DOCS[3]], [False, FOLLOWING_DOCS[1]]]]))
        r = rng("aborth/" + pid)
        for _ in range(S.n_for(100, 1500)):
            reqs.append(("parse_history", [r.choice(["en", "en", "fr", "de"]), [[r.random() < 0.4, r.choice(ABORTING_DOCS + FOLLOWING_DOCS)] for _ in range(r.randint(2, 5))]]))

        def pj(res, req=None):
            return [proj(x) for x in res] if isinstance(res, list) else res
        return differential("after-a-parse-cut-short/" + pid, reqs, proj=pj, nontrivial=lambda q, x: canon(q[1])[:300], classify=lambda q, x: "hist:%d" % len(q[1][1]), exhaustive=False)
    stream.__name__ = "abort_histories_" + pid
    stream.__doc__ = abort_histories.__doc__
    return stream


def _typed_outcome(x, req=None):
    return {"outcome": P.outcome(x), "foreign": x.get("foreign"), "errors": [e.get("type") for e in x.get("errors", [])] + ([x["error"].get("type")] if "error" in x else [])}


P.PROPS["C01"]["streams"].append(abort_histories("C01", _typed_outcome))
P.PROPS["C02"]["streams"].append(abort_histories("C02", lambda x, req=None: outcome(x)))
P.PROPS["C03"]["streams"].append(abort_histories("C03", P.p_ast_text))
P.PROPS["C05"]["streams"].append(abort_histories("C05", P.p_whole))
P.PROPS["C13"]["streams"].append(abort_histories("C13", P.p_docstrings))
P.PROPS["C15"]["streams"].append(abort_histories("C15", P.p_whole))
P.PROPS["C18"]["streams"].append(abort_histories("C18", P.p_whole))


def o_retained_envelopes(ctx):
    """an envelope belongs to whoever received it: the envelopes of a stream, kept as objects while the stream goes on to
    the next sources, still say at the end what they said when they were yielded"""
    impl = impl_mod()
    from gherkin.stream.gherkin_events import GherkinEvents
    pool = ["# c1\nFeature: a\n  # c2\n  Scenario: s\n    Given g\n", "Feature: b\n  @t\n  Scenario Outline: o\n    Given <x>\n    # c3\n    Examples:\n      | x |\n      | 1 |\n",
            "# c4\nFeature: bad\n  Scenario: s\n    oops\n", "# only\n", "", "Feature: c\n  Background:\n    Given b\n  Rule: r\n    # c5\n    Example: e\n      Given g\n# tail\n"]
    r = rng("c17kept")
    seqs = [[pool[0], pool[1]], [pool[0], pool[3], pool[5]], [pool[2], pool[0], pool[2], pool[4]], pool] + [[r.choice(pool) for _ in range(r.randint(2, 6))] for _ in range(S.n_for(20, 300))]
    items = [(seq, opts) for seq in seqs for opts in ((True, True, True), (False, True, True), (False, True, False), (True, False, True))]

    def check(it):
        seq, (ps, pa, pp) = it
        ge = GherkinEvents(GherkinEvents.Options(print_source=ps, print_ast=pa, print_pickles=pp))
        kept, said = [], []
        for i, s in enumerate(seq):
            for env in ge.enum({"source": {"uri": "u%d" % i, "data": s, "mediaType": "text/x.cucumber.gherkin+plain"}}):
                kept.append(env)
                said.append(canon(env))
        for k, (env, was) in enumerate(zip(kept, said)):
            if canon(env) != was:
                return {"what": "envelope %d of the stream changed after it was yielded" % k, "was": was[:300], "now": canon(env)[:300]}
        return None
    return oracle("retained-envelopes", items, check, describe=lambda it: repr(it[1]) + " " + repr([s[:20] for s in it[0]]))


for _pid in ("C17", "C15", "C04"):
    P.PROPS[_pid]["streams"].append(o_retained_envelopes)


def o_c13_docstrings_in_context(ctx):
    """intended-result oracle: a doc string reads back as written wherever a step can stand (feature / rule background,
    scenario, outline, inside or outside a rule), whatever its lines look like -- blank and whitespace-only lines,
    comments, tags, keyword lines, rows, the other delimiter, the escaped delimiter; parsing resumes after the closing line"""
    impl = impl_mod()
    r = rng("c13ctx")
    ctxs = [("Feature: f\n  Background:\n    Given s\n", lambda f: f["children"][0]["background"]["steps"][0]),
            ("Feature: f\n  Scenario: a\n    Given s\n", lambda f: f["children"][0]["scenario"]["steps"][0]),
            ("Feature: f\n  Scenario Outline: a\n    Given s\n", lambda f: f["children"][0]["scenario"]["steps"][0]),
            ("Feature: f\n  Rule: r\n    Background:\n      Given s\n", lambda f: f["children"][0]["rule"]["children"][0]["background"]["steps"][0]),
            ("Feature: f\n  Rule: r\n    Example: a\n      Given s\n", lambda f: f["children"][0]["rule"]["children"][0]["scenario"]["steps"][0]),
            ("Feature: f\n  Rule: r\n    Scenario Outline: a\n      Given s\n", lambda f: f["children"][0]["rule"]["children"][0]["scenario"]["steps"][0]),
            ("Feature: f\n  Background:\n    Given b\n  Rule: r\n    Background:\n      Given s\n", lambda f: f["children"][1]["rule"]["children"][0]["background"]["steps"][0])]
    lines = ["", "   ", "\t", "plain", "# comment", "@tag", "Feature: x", "Scenario: y", "Given z", "| a | b |", "Examples:", "* star", "  deeper", "trailing  ", "😀 é"]
    items = []
    for ci in range(len(ctxs)):
        for d in ('"""', "```"):
            for _ in range(S.n_for(12, 150)):
                o = "```" if d == '"""' else '"""'
                body = [r.choice(lines + [o, "\\" + d[0] * 3 if d == '"""' else "\\`\\`\\`", o + "x"]) for _ in range(r.randint(0, 7))]
                items.append((ci, d, r.choice(["", "", "json", "text/x"]), r.randint(0, 8), body))

    def check(it):
        ci, d, media, ind, body = it
        pre, step_of = ctxs[ci]
        pad = " " * ind
        esc = '\\"\\"\\"' if d == '"""' else "\\`\\`\\`"
        src = pre + pad + d + media + "\n" + "".join((pad + ln if ln.strip() or ln else ln) + "\n" for ln in body) + pad + d + "\n" + "    And after\n"
        want = "\n".join(ln.replace(esc, d) for ln in body)
        res = impl.parse(False, "en", src)
        if "ok" not in res:
            return {"what": "a document with a closed doc string is rejected", "source": src, "result": canon(res)[:300]}
        try:
            ds = step_of(res["ok"]["feature"]).get("docString")
        except Exception as e:  # noqa
            return {"what": "the step that carries the doc string is not where the source has it (%r)" % (e,), "source": src}
        if not ds or ds.get("content") != want or ds.get("delimiter") != d or ds.get("mediaType") != (media or None):
            return {"what": "a doc string does not read back as written", "source": src, "want": want, "got": ds}
        return None
    return oracle("docstrings-in-context", items, check, describe=lambda it: [it[0], it[1], it[2], it[3], it[4]])


P.PROPS["C13"]["streams"].append(o_c13_docstrings_in_context)


# ---------------------------------------------------------------- round 13
def o_c11_long_id_runs(ctx):
    """ids stay distinct and gap-free however many are drawn from one generator: thousands of ids through one stream of
    large documents, and through the generator itself"""
    impl = impl_mod()
    from gherkin.stream.gherkin_events import GherkinEvents
    from gherkin.stream.id_generator import IdGenerator

    def big(k, rows):
        body = "".join("  @t%d\n  Scenario Outline: o%d\n    Given <a> and <b>\n      | x | y |\n    Examples:\n      | a | b |\n%s" % (i, i, "".join("      | %d | %d |\n" % (j, i) for j in range(rows))) for i in range(k))
        return "@f\nFeature: big\n  Background:\n    Given b\n" + body
    items = [("generator", S.n_for(5000, 200000)), ("stream", (6, 12, 4)), ("stream", (3, 40, S.n_for(3, 30)))]

    def check(it):
        kind, arg = it
        if kind == "generator":
            g = IdGenerator()
            for i in range(arg):
                x = g.get_next_id()
                if x != str(i):
                    return {"what": "the %d-th id drawn from a fresh generator is %r" % (i + 1, x)}
            return None
        k, rows, ndocs = arg
        ge = GherkinEvents(GherkinEvents.Options(print_source=False, print_ast=True, print_pickles=True))
        ids = []
        for d in range(ndocs):
            for env in ge.enum({"source": {"uri": "u%d" % d, "data": big(k, rows), "mediaType": "text/x.cucumber.gherkin+plain"}}):
                if "parseError" in env:
                    return {"what": "a well-formed large document is rejected", "error": env["parseError"]["message"][:100]}
                P.walk(env, lambda p_, key, v: ids.append(v) if key == "id" else None)
        n = len(ids)
        if len(set(ids)) != n:
            seen, dup = set(), None
            for x in ids:
                if x in seen:
                    dup = x
                    break
                seen.add(x)
            return {"what": "id %r occurs twice among the %d ids of one stream" % (dup, n)}
        if set(ids) != {str(i) for i in range(n)}:
            missing = sorted({str(i) for i in range(n)} - set(ids), key=int)[:3]
            return {"what": "the %d ids of a stream of accepted documents are not 0..%d (missing %r)" % (n, n - 1, missing)}
        return None
    return oracle("long-id-runs", items, check, describe=lambda it: repr(it))


for _pid in ("C11", "C15", "C17"):
    P.PROPS[_pid]["streams"].append(o_c11_long_id_runs)


LINE_BREAKERS = ["\x0b", "\x0c", "\x1c", "\x1d", "\x1e", "\x85", "\u2028", "\u2029", "\r"]   # str.splitlines breaks here; a Gherkin line ends at LF only


def line_breaker_sources():
    """documents with one of the characters at which str.splitlines (but not readline) breaks, inside a name, a
    description, a step text, a cell, a doc-string line, a tag line's comment, a comment -- one position at a time and all at once"""
    srcs = []
    for ch in LINE_BREAKERS:
        mid = "a" + ch + "b"
        parts = {"name": "Feature: f\n  Scenario Outline: n %s <x>\n    Given g\n    Examples:\n      | x |\n      | 1 |\n" % mid,
                 "desc": "Feature: f\n  d %s\n  Scenario: s\n    Given g\n" % mid,
                 "step": "Feature: f\n  Background:\n    Given b %s\n  Scenario: s\n    When w %s\n" % (mid, mid),
                 "cell": "Feature: f\n  Scenario Outline: o\n    Given <x>\n      | %s | <x> |\n    Examples:\n      | x |\n      | %s |\n" % (mid, mid),
                 "doc": "Feature: f\n  Background:\n    Given b\n      \"\"\"\n      %s\n      \"\"\"\n  Rule: r\n    Background:\n      Given rb\n        ```\n        %s@leak\n        ```\n    Scenario: s\n      Given g\n" % (mid, mid),
                 "tagtail": "Feature: f\n  Scenario: one\n    Given note%s@leak\n  @t\n  Scenario: two\n    Given h\n" % ch,
                 "comment": "# c %s\nFeature: f\n  # d %s Scenario: x\n  Scenario: s\n    Given g\n" % (mid, ch)}
        srcs += list(parts.values())
        srcs.append("# c %s\n@t\nFeature: f %s\n  d %s\n  Background:\n    Given b %s\n      | %s |\n  Scenario Outline: o %s\n    When <x> %s\n      \"\"\"\n      %s <x>\n      \"\"\"\n    Examples:\n      | x |\n      | %s |\n"
                    % (mid, mid, mid, mid, mid, mid, mid, mid, mid))
    return srcs


def line_breaker_ast(name, proj):
    def run(ctx):
        return e2e("line-breakers/" + name, line_breaker_sources(), proj, modes=(False, True), nontrivial=lambda q, x: q[1][2][:60], exhaustive=True)
    run.__name__ = "line_breakers_" + name
    run.__doc__ = "a line ends at a line feed only: VT, FF, FS, GS, RS, NEL, LS, PS and a lone CR are ordinary characters of the line (" + name + ")"
    return run


def line_breaker_pickles(pid, pj):
    def run(ctx):
        reqs = [("events", [False, False, True, False, [["u.feature", s]]]) for s in line_breaker_sources()]

        def pr(r_, req=None):
            if "envelopes" not in r_:
                return {"outcome": P.outcome(r_)}
            return [pj(e["pickle"]) if "pickle" in e else {"parseError": e["parseError"]["message"]} for e in r_["envelopes"] if "pickle" in e or "parseError" in e]
        return differential("line-breakers-pickles/" + pid, reqs, proj=pr, nontrivial=lambda q, x: canon(q[1])[:100], classify=lambda q, x: "doc", exhaustive=True)
    run.__name__ = "line_breakers_pickles_" + pid
    run.__doc__ = "pickles of documents with VT, FF, FS, GS, RS, NEL, LS, PS or a lone CR inside names, steps, cells and doc strings"
    return run


for _pid, _pj in (("C02", lambda x, req=None: outcome(x)), ("C03", P.p_ast_text), ("C04", P.p_locations), ("C12", P.p_cells), ("C13", P.p_docstrings), ("C18", P.p_whole)):
    P.PROPS[_pid]["streams"].append(line_breaker_ast(_pid, _pj))
for _pid, _pj in (("C06", pk_sources), ("C07", pk_steps), ("C08", pk_tags), ("C09", pk_interp), ("C10", pk_types), ("C11", pk_ids)):
    P.PROPS[_pid]["streams"].append(line_breaker_pickles(_pid, _pj))


def c13_shared_lines(ctx):
    """a line is unescaped according to the doc string it stands in, not to where the same text was seen before: several
    doc strings of different delimiters in one document (and a description) sharing identical lines that hold an
    escaped delimiter of either kind"""
    shared = ['\\"\\"\\"', "\\`\\`\\`", 'x \\"\\"\\" y \\`\\`\\` z', "plain", ""]
    srcs = []
    for ds in itertools.product(('"""', "```"), repeat=3):
        for ind in ("", "      "):
            body = "".join(ind + ln + "\n" for ln in shared)
            srcs.append("Feature: f\n  Background:\n    Given b\n%s%s\n%s%s%s\n  Scenario: s\n%s    Given g\n%s%s\n%s%s%s\n  Scenario Outline: o\n    Given <a>\n%s%s\n%s%s%s\n    Examples:\n      | a |\n      | 1 |\n"
                        % (ind, ds[0], body, ind, ds[0], "".join("    " + ln + "\n" for ln in shared if ln), ind, ds[1], body, ind, ds[1], ind, ds[2], body, ind, ds[2]))
    reqs = [("parse", [False, "en", s]) for s in srcs]
    reqs += [("parse_history", ["en", [[False, a], [False, b]]]) for a in srcs[:4] for b in srcs[-4:]]

    def pj(x, req=None):
        if isinstance(x, list):
            return [P.p_docstrings(y) for y in x]
        return P.p_docstrings(x)
    return differential("shared-lines-in-doc-strings", reqs, proj=pj, nontrivial=lambda q, x: canon(q[1])[:120], classify=lambda q, x: q[0], exhaustive=True)


P.PROPS["C13"]["streams"].append(c13_shared_lines)
P.PROPS["C03"]["streams"].append(c13_shared_lines)

# the same malformed tag line at different line numbers of different documents (whatever object holds a line must not
# remember where the same text stood before)
ABORTING_DOCS += ["@smoke test\nFeature: f\n  Scenario: s\n", "Feature: f\n\n\n@smoke test\n  Scenario: s\n    Given g\n", "# c\n# d\nFeature: f\n  Scenario: s\n    Given g\n@smoke test\n"]


# ---------------------------------------------------------------- round 14
P.PROPS["C04"]["streams"].append(abort_histories("C04", P.p_locations))
P.PROPS["C16"]["streams"].append(long_runs_ast("C16", P.p_whole))


def c16_repeated_insertions(ctx):
    """inserting many blank and comment lines at one place (1 .. 70 of them, before a tagged Scenario / Examples / Rule line,
    inside the tag run) changes only line numbers and the comment list: model against implementation on every variant"""
    bases = [("Feature: f\n  Scenario: s\n    Given g\n  @a @b\n", "  @c\n  Scenario: t\n    Given h\n"),
             ("Feature: f\n  Scenario Outline: s\n    Given <x>\n    @e1\n", "    @e2\n    Examples:\n      | x |\n      | 1 |\n"),
             ("Feature: f\n  Background:\n    Given b\n  @r\n", "  Rule: r\n    @s\n    Example: e\n      Given h\n")]
    srcs = []
    for pre, post in bases:
        for n in (1, 2, 15, 16, 17, 30, 31, 32, 33, 63, 64, 65, 70):
            srcs.append(pre + "\n" * n + post)
            srcs.append(pre + "".join("  # c%d\n" % i for i in range(n)) + post)
            srcs.append(pre + "".join(("   \n" if i % 2 else "  # c%d\n" % i) for i in range(n)) + post)
    return e2e("repeated-insertions", srcs, P.p_whole, modes=(False, True), nontrivial=nt_accepted("ast"), exhaustive=True)


P.PROPS["C16"]["streams"].append(c16_repeated_insertions)


def c09_wide_tables(ctx):
    """placeholders are replaced column by column in header order whatever the number of columns: tables of 3 .. 40 columns
    whose values contain the placeholders of later and of earlier columns, regex metacharacters and backslashes"""
    srcs = []
    for n in (3, 9, 10, 11, 12, 20, 40):
        heads = ["c%d" % i for i in range(1, n + 1)]
        rows = [["<c%d>" % n] + ["v%d" % i for i in range(2, n + 1)],                       # the first value names the last column
                ["<c2>", "<c3>"] + ["w%d" % i for i in range(3, n + 1)],                    # a chain
                ["v1"] * (n - 1) + ["<c1>"],                                                # the last value names the first column
                ["\\1", "$2", ".*", "\\g<0>"][:min(4, n)] + ["z"] * max(0, n - 4)]
        text = " ".join("<%s>" % h for h in heads)
        srcs.append("Feature: f\n  Scenario Outline: o <c1> <c%d>\n    Given %s\n      | <c1> | <c%d> |\n    And d\n      \"\"\"<c1>\n      <c1>-<c%d>\n      \"\"\"\n    Examples:\n      | %s |\n%s"
                    % (n, text, n, n, " | ".join(heads), "".join("      | %s |\n" % " | ".join(r) for r in rows)))
    reqs = [("events", [False, False, True, False, [["u.feature", s]]]) for s in srcs]

    def pr(r_, req=None):
        if "envelopes" not in r_:
            return {"outcome": P.outcome(r_)}
        return [pk_interp(e["pickle"]) for e in r_["envelopes"] if "pickle" in e]
    return differential("wide-tables", reqs, proj=pr, nontrivial=lambda q, x: canon(q[1])[:100], classify=lambda q, x: "doc", exhaustive=True)


P.PROPS["C09"]["streams"].append(c09_wide_tables)
P.PROPS["C06"]["streams"].append(c09_wide_tables)


def abort_streams(pid):
    """one stream through several sources: after a source that was cut short (the eleventh error reached while look-ahead
    tokens were buffered, a doc string left open, an unknown dialect) the following sources yield the envelopes they yield
    in a stream of their own, with the ids raised by the counter"""
    def stream(ctx):
        reqs = []
        for a in ABORTING_DOCS:
            for f in FOLLOWING_DOCS[:4]:
                for opts in ((False, True, True), (True, True, False)):
                    reqs.append(("events", [opts[0], opts[1], opts[2], False, [["a.feature", a], ["b.feature", f], ["c.feature", FOLLOWING_DOCS[1]]]]))
            reqs.append(("events", [False, True, True, True, [["a.feature", a], ["b.feature", FOLLOWING_DOCS[0]]]]))
        return differential("stream-after-a-source-cut-short/" + pid, reqs, nontrivial=lambda q, x: canon(q[1])[:300], classify=lambda q, x: "stream", exhaustive=True)
    stream.__name__ = "abort_streams_" + pid
    stream.__doc__ = abort_streams.__doc__
    return stream


for _pid in ("C17", "C15", "C01"):
    P.PROPS[_pid]["streams"].append(abort_streams(_pid))


# ---------------------------------------------------------------- every property through the other entry points
def entry_matrix(pid, proj=None, pickles=None):
    """the documents of the acceptance corpus and generated documents, not parsed on their own but (a) as the second document
    of one parser / matcher / builder after a parse that was cut short, (b) as a later source of one stream after such a
    source: the property's projection of the result, model against implementation"""
    def stream(ctx):
        docs = P.corpus_sources() + [s for s, _ in S.gen_sources(S.n_for(30, 400), salt=pid + "/matrix")]
        reqs = []
        for i, d in enumerate(docs):
            a = ABORTING_DOCS[i % len(ABORTING_DOCS)]
            if pickles is None:
                reqs.append(("parse_history", ["en", [[i % 2 == 1, a], [False, d]]]))
            reqs.append(("events", [pickles is None and i % 3 == 0, pickles is None, True, False, [["a.feature", a], ["d.feature", d]]]))

        def pj(res, req=None):
            if isinstance(res, list):
                return [proj(x) for x in res] if proj else res
            if isinstance(res, dict) and "envelopes" in res:
                if pickles is not None:
                    return [pickles(e["pickle"]) for e in res["envelopes"] if "pickle" in e]
                if proj is not None:
                    def one(e):
                        if "gherkinDocument" not in e:
                            return e
                        try:
                            return proj({"ok": e["gherkinDocument"]})
                        except (KeyError, TypeError):      # a projection that also reads the matcher / builder state of a parse result
                            return e
                    return [one(e) for e in res["envelopes"] if "pickle" not in e]
            return res
        return differential("entry-matrix/" + pid, reqs, proj=pj, nontrivial=lambda q, x: canon(q[1])[:300], classify=lambda q, x: q[0], exhaustive=False)
    stream.__name__ = "entry_matrix_" + pid
    stream.__doc__ = entry_matrix.__doc__
    return stream


for _pid, _pj in (("C01", _typed_outcome), ("C02", lambda x, req=None: outcome(x)), ("C03", P.p_ast_text), ("C04", P.p_locations), ("C05", P.p_whole),
                  ("C12", P.p_cells), ("C13", P.p_docstrings), ("C14", P.p_whole), ("C15", P.p_whole), ("C16", P.p_whole), ("C18", P.p_whole)):
    P.PROPS[_pid]["streams"].append(entry_matrix(_pid, proj=_pj))
for _pid, _pk in (("C06", pk_sources), ("C07", pk_steps), ("C08", pk_tags), ("C09", pk_interp), ("C10", pk_types), ("C11", pk_ids)):
    P.PROPS[_pid]["streams"].append(entry_matrix(_pid, pickles=_pk))
P.PROPS["C17"]["streams"].append(entry_matrix("C17"))


# ---------------------------------------------------------------- round 15: the process environment, exception paths, other shapes of input
_ENV_SCRIPT = r'''
import sys, json, os, tempfile
from gherkin.parser import Parser
from gherkin.pickles.compiler import Compiler
from gherkin.stream.gherkin_events import GherkinEvents
from gherkin.stream.source_events import SourceEvents
from gherkin.token_matcher_markdown import GherkinInMarkdownTokenMatcher
from gherkin.token_formatter_builder import TokenFormatterBuilder
from gherkin.errors import CompositeParserException, ParserException
import gherkin.dialect as GD
inp = json.loads(sys.stdin.read())
def guarded(f):
    try:
        return f()
    except CompositeParserException as e:
        return {"errors": [str(x) for x in e.errors]}
    except ParserException as e:
        return {"errors": [str(e)]}
    except Exception as e:
        return {"foreign": type(e).__name__ + ": " + str(e)[:200]}
def one(src):
    def f():
        d = Parser().parse(src)
        d["uri"] = "u"
        return {"ast": d, "pickles": Compiler().compile(d)}
    return guarded(f)
out = {"strings": [one(s) for s in inp["docs"]]}
tmp = tempfile.mkdtemp()
paths = []
for i, s in enumerate(inp["docs"]):
    pth = os.path.join(tmp, "d%d.feature" % i)
    with open(pth, "w", encoding="utf8", newline="") as f:
        f.write(s)
    paths.append(pth)
out["paths"] = [one(p) for p in paths]
out["tokens"] = [guarded(lambda p=p: Parser(TokenFormatterBuilder()).parse(p)) for p in paths]
def stream():
    ge = GherkinEvents(GherkinEvents.Options(print_source=True, print_ast=True, print_pickles=True))
    envs = []
    for ev in SourceEvents(paths).enum():
        envs.extend(ge.enum(ev))
    return json.loads(json.dumps(envs).replace(json.dumps(tmp)[1:-1], "TMP"))
out["stream"] = guarded(stream)
def stream_mem():
    ge = GherkinEvents(GherkinEvents.Options(print_source=True, print_ast=True, print_pickles=True))
    envs = []
    for pth, s in zip(paths, inp["docs"]):
        envs.extend(ge.enum({"source": {"uri": pth, "data": s, "mediaType": "text/x.cucumber.gherkin+plain"}}))
    return json.loads(json.dumps(envs).replace(json.dumps(tmp)[1:-1], "TMP"))
out["stream_mem"] = guarded(stream_mem)
def cli(script, args):
    import io, contextlib, runpy
    buf = io.StringIO()
    old_argv = sys.argv
    sys.argv = [script] + args
    try:
        with contextlib.redirect_stdout(buf):
            runpy.run_path(os.path.join(inp["scripts"], script), run_name="__main__")
    finally:
        sys.argv = old_argv
    return buf.getvalue().replace(json.dumps(tmp)[1:-1], "TMP").replace(tmp, "TMP")
out["cli_events"] = guarded(lambda: [json.loads(l) for l in cli("generate_events.py", ["--no-source"] + paths).splitlines()])
out["cli_events_ast_only"] = guarded(lambda: [json.loads(l) for l in cli("generate_events.py", ["--no-pickles", "--no-source"] + paths[:2]).splitlines()])
out["cli_tokens"] = guarded(lambda: cli("generate_tokens.py", paths))
out["md"] = guarded(lambda: Parser().parse(inp["md"], GherkinInMarkdownTokenMatcher("en")))
with open(inp["master"], encoding="utf8") as f:
    out["table"] = GD.DIALECTS == json.load(f)
for pth in paths:
    os.remove(pth)
os.rmdir(tmp)
sys.stdout.write(json.dumps(out))
'''


def o_environment_matrix(ctx):
    """nothing depends on the process environment: fresh interpreters started under the C locale (no UTF-8 mode, no locale
    coercion), with -O, with -OO give, for documents passed as strings, read by path, streamed from files, listed as tokens
    and written in Markdown, byte for byte what the default interpreter gives -- and load the same dialect table"""
    import subprocess
    from common import REPO
    docs = ["# language: fr\n@é @t\nFonctionnalité: café \U0001F600\n  déjà vu\n\n  Contexte:\n    Soit un élève\n      | ça | là |\n  Plan du scénario: o <a>\n    Quand <a> à l'œuvre\n      \"\"\"md\n      naïve <a>\n      \"\"\"\n    Exemples:\n      | a |\n      | ü |\n",
            "Feature: f\n  Background:\n    Given b\n      | x | y |\n  Rule: r\n    @s\n    Scenario Outline: o\n      Given <a>\n        ```\n        <a> \\`\\`\\`\n        ```\n      And c\n        \"\"\"\n        second\n        \"\"\"\n      And d\n        ```\n        third\n        ```\n      Examples:\n          indented description after doc strings\n        | a |\n        | 1 |\n        | 2 |\n\n  Rule: q\n    Example: e\n      * star\r\n",
            "Feature: bad\n  Scenario: s\n    Given g\n      | a |\n      | b | c |\n    oops é\n  @x y\n",
            "# only 日本語\n", "", "\ufeffFeature: with a byte-order mark\n  Scenario: s\n    Given g\n"]
    md = "# Feature: f\n\n## Scenario: s\n\n* Given a\n  | a |\n  |---|\n  | 1 |\n\n`@t`\n## Scenario: t\n- When b\n"
    inp = json.dumps({"docs": docs, "md": md, "master": os.path.join(REPO, "gherkin-languages.json"), "scripts": os.path.join(REPO, "python", "scripts")})
    base_env = dict(os.environ, PYTHONPATH=os.path.join(REPO, "python"), PYTHONDONTWRITEBYTECODE="1", PYTHONHASHSEED="0")
    variants = {"default": ([], {}),
                "C locale": ([], {"LC_ALL": "C", "LANG": "C", "PYTHONUTF8": "0", "PYTHONCOERCECLOCALE": "0"}),
                "-O": (["-O"], {}), "-OO": (["-OO"], {}), "-W error": (["-W", "error"], {}), "-X dev -W error": (["-X", "dev", "-W", "error"], {}), "POSIX locale": (["-X", "utf8=0"], {"LC_ALL": "POSIX", "LANG": "POSIX", "PYTHONCOERCECLOCALE": "0"})}
    outs = {}
    for name, (flags, env) in variants.items():
        try:
            pr = subprocess.run([sys.executable] + flags + ["-c", _ENV_SCRIPT], input=inp, capture_output=True, text=True, env=dict(base_env, **env), timeout=600)
            # stderr is not compared: the pinned tree itself leaves the file of a scanner to the garbage collector (a ResourceWarning
            # there is printed, never raised)
            outs[name] = pr.stdout if pr.returncode == 0 else "exit %d: %s" % (pr.returncode, pr.stderr[-400:])
        except subprocess.TimeoutExpired:
            outs[name] = None       # a busy machine is not a finding
    base = outs.get("default")

    def check(name):
        o = outs[name]
        if o is None or base is None:
            return None
        if name == "default":
            try:
                b = json.loads(o)
            except Exception:
                return {"what": "the default interpreter failed on the battery: " + o[:300]}
            if not b["table"]:
                return {"what": "the loaded dialect table differs from the master table"}
            if canon(b["strings"]) != canon(b["paths"]):
                return {"what": "a document read by path parses differently from the same text passed as a string"}
            if canon(b["stream"]) != canon(b["stream_mem"]):
                return {"what": "the envelopes of files read through SourceEvents differ from those of source events carrying the same text"}
            api = [e for e in b["stream"] if "source" not in e] if isinstance(b["stream"], list) else b["stream"]
            if canon(b["cli_events"]) != canon(api):
                return {"what": "scripts/generate_events.py --no-source prints other envelopes than the stream API yields for the same files", "cli": canon(b["cli_events"])[:300]}
            if isinstance(b["cli_tokens"], str) and isinstance(b["tokens"][0], str) and b["cli_tokens"] != "".join(t + "\n" for t in b["tokens"] if isinstance(t, str)) and all(isinstance(t, str) for t in b["tokens"]):
                return {"what": "scripts/generate_tokens.py prints other listings than TokenFormatterBuilder gives for the same files"}
            return None
        if o != base:
            try:
                a, b = json.loads(o), json.loads(base)
                part = [k for k in b if canon(a.get(k)) != canon(b[k])]
                detail = canon(a.get(part[0]))[:300] if part else ""
            except Exception:
                part, detail = ["(no output)"], o[:300]
            return {"what": "results under %s differ from those of the default interpreter (%s)" % (name, ", ".join(part)), "got": detail}
        return None
    return oracle("environment-matrix", list(variants), check, describe=lambda n: n)


for _pid in sorted(P.PROPS):
    P.PROPS[_pid]["streams"].append(o_environment_matrix)


def o_compile_other_inputs(ctx):
    """Compiler.compile on documents that did not come straight from the parser, and around failures: (a) an AST that went
    through JSON (equal, not identical, strings) gives the same pickles; (b) the children of a feature or a rule in any
    arrangement (a scenario after a rule, backgrounds anywhere) are compiled in the order they are listed, against the
    model; (c) after a compile that raised part-way (an id generator that fails at its k-th call), the same AST object
    is unchanged and compiles, with a fresh or with the same compiler, to what a copy taken before compiles to; (d) the
    input AST is never modified"""
    import copy as _copy
    impl = impl_mod()
    srcs = ["@f\nFeature: f\n  Background:\n    Given b\n      | t |\n    And b2\n  @s\n  Scenario: one\n    And first\n    But second\n  Scenario Outline: o <a>\n    * <a>\n    @e\n    Examples:\n      | a |\n      | 1 |\n      | 2 |\n  @r\n  Rule: r\n    Background:\n      And rb\n        \"\"\"\n        doc\n        \"\"\"\n    @rs\n    Example: e\n      Then t\n  Rule: q\n    Scenario: last\n      When w\n",
            "# language: fr\nFonctionnalité: f\n  Scénario: s\n    Soit a\n    Et b\n    Mais c\n"]
    docs = []
    for s in srcs:
        r = impl.parse(False, "en", s)
        docs.append(r["ok"])
    rr = rng("c06other")
    items = [("json", i, None) for i in range(len(docs))]
    for i in range(len(docs)):
        for _ in range(S.n_for(8, 60)):
            items.append(("arrange", i, rr.random()))
    items += [("raise", i, k) for i in range(len(docs)) for k in range(0, 14)]

    class Failing:
        def __init__(self, k):
            self.n, self.k = 100, k

        def get_next_id(self):
            if self.n - 100 == self.k:
                raise RuntimeError("id generator failed")
            self.n += 1
            return str(self.n - 1)

    def comp(c, g, doc):
        g.n = 100
        d = doc
        return canon(c.compile(d))

    def check(it):
        kind, i, arg = it
        doc = _copy.deepcopy(docs[i])
        doc["uri"] = "u"
        pristine = _copy.deepcopy(doc)
        g0 = impl.CountingIdGen()
        want = comp(impl.Compiler(g0), g0, _copy.deepcopy(pristine))
        if kind == "json":
            g = impl.CountingIdGen()
            got = comp(impl.Compiler(g), g, json.loads(json.dumps(doc)))
            if got != want:
                return {"what": "an AST that went through JSON compiles to other pickles", "want": want[:300], "got": got[:300]}
            return None
        if kind == "arrange":
            r2 = rng("arr%r" % arg)
            f = doc.get("feature")
            if f:
                r2.shuffle(f["children"])
                for ch in f["children"]:
                    if "rule" in ch:
                        r2.shuffle(ch["rule"]["children"])
            req = ("compile", ["u", {k: v for k, v in doc.items() if k != "uri"}, 100])
            m = run_model([req])[0]
            im = impl.compile_doc("u", {k: v for k, v in doc.items() if k != "uri"}, 100)
            if canon(m) != canon(im):
                return {"what": "an AST whose children are listed in another arrangement compiles differently from the model", "model": canon(m)[:300], "impl": canon(im)[:300]}
            return None
        g = Failing(arg)
        c = impl.Compiler(g)
        try:
            c.compile(doc)
            return None                      # the k-th id was never asked for
        except RuntimeError:
            pass
        if canon(doc) != canon(pristine):
            return {"what": "the input AST is left modified by a compile that raised", "k": arg}
        g1 = impl.CountingIdGen()
        got = comp(impl.Compiler(g1), g1, doc)
        if got != want:
            return {"what": "an AST compiles differently after an earlier compile of it raised part-way", "want": want[:300], "got": got[:300]}
        g.k = 10 ** 9
        g.n = 100
        got2 = canon(c.compile(_copy.deepcopy(pristine)))
        if got2 != want:
            return {"what": "a compiler gives other pickles after one of its compiles raised part-way", "want": want[:300], "got": got2[:300]}
        return None
    return oracle("compile-other-inputs", items, check, describe=lambda it: [it[0], it[1], it[2]])


for _pid in ("C06", "C07", "C08", "C09", "C10", "C11", "C15"):
    P.PROPS[_pid]["streams"].append(o_compile_other_inputs)


def o_stream_usage(ctx):
    """one GherkinEvents object used in the ways its interface allows: the options object changed between sources; many
    tagged sources with print_ast off (every AST is dropped before the next is parsed); two enum() generators drained
    alternately; sources handled on different threads, one after the other -- ids stay distinct, every pickle's tags, uri
    and references are those of its own document"""
    import threading
    impl = impl_mod()
    from gherkin.stream.gherkin_events import GherkinEvents

    def doc(i):
        return "@f%d @g\nFeature: f%d\n  @s%d\n  Scenario: s\n    Given g%d\n  @o%d\n  Scenario Outline: o\n    Given <a>\n    @e%d\n    Examples:\n      | a |\n      | %d |\n      | x |\n" % ((i,) * 7)

    def src(i):
        return {"source": {"uri": "u%d" % i, "data": doc(i), "mediaType": "text/x.cucumber.gherkin+plain"}}

    def expect_tags(i):
        return [["@f%d" % i, "@g", "@s%d" % i]] + [["@f%d" % i, "@g", "@o%d" % i, "@e%d" % i]] * 2

    def verify(envs, n_sources):
        ids = []
        P.walk(envs, lambda p_, k, v: ids.append(v) if k == "id" else None)
        if len(set(ids)) != len(ids):
            return "an id occurs twice in one stream"
        by_uri = {}
        for e in envs:
            if "pickle" in e:
                by_uri.setdefault(e["pickle"]["uri"], []).append([t["name"] for t in e["pickle"]["tags"]])
        for i in range(n_sources):
            if by_uri.get("u%d" % i) != expect_tags(i):
                return "the pickles of source u%d carry tags %r" % (i, by_uri.get("u%d" % i))
        return None
    items = ["flip", "no-ast", "alternate", "threads"]

    def check(kind):
        if kind == "flip":
            opts = GherkinEvents.Options(print_source=False, print_ast=True, print_pickles=False)
            ge = GherkinEvents(opts)
            envs = list(ge.enum(src(0)))
            opts.print_pickles = True
            envs += list(ge.enum(src(1)))
            opts.print_ast = False
            envs += list(ge.enum(src(2)))
            ids = []
            P.walk(envs, lambda p_, k, v: ids.append(v) if k == "id" else None)
            P.walk(envs, lambda p_, k, v: ids.extend(v) if k == "astNodeIds" and False else None)
            if len(set(ids)) != len(ids):
                return {"what": "an id occurs twice in a stream whose options were changed between sources"}
            return None
        if kind == "no-ast":
            ge = GherkinEvents(GherkinEvents.Options(print_source=False, print_ast=False, print_pickles=True))
            n = S.n_for(40, 300)
            envs = []
            for i in range(n):
                envs.extend(ge.enum(src(i)))
            bad = verify(envs, n)
            return {"what": bad + " (print_ast off, %d sources)" % n} if bad else None
        if kind == "alternate":
            ge = GherkinEvents(GherkinEvents.Options(print_source=True, print_ast=True, print_pickles=True))
            its = [ge.enum(src(i)) for i in range(3)]
            envs, live = [], list(its)
            while live:
                for it in list(live):
                    try:
                        envs.append(next(it))
                    except StopIteration:
                        live.remove(it)
            for e in envs:
                if "gherkinDocument" in e and e["gherkinDocument"]["feature"]["name"] != "f" + e["gherkinDocument"]["uri"][1:]:
                    return {"what": "a gherkinDocument envelope carries the uri of another source when generators are drained alternately"}
            by = {}
            for e in envs:
                if "pickle" in e:
                    by.setdefault(e["pickle"]["uri"], []).append([t["name"] for t in e["pickle"]["tags"]])
            for i in range(3):
                if by.get("u%d" % i) != expect_tags(i):
                    return {"what": "pickles carry another source's uri or tags when generators are drained alternately", "got": by.get("u%d" % i)}
            return None
        ge = GherkinEvents(GherkinEvents.Options(print_source=False, print_ast=True, print_pickles=True))
        envs = []
        for i in range(4):
            t = threading.Thread(target=lambda i=i: envs.extend(ge.enum(src(i))))
            t.start()
            t.join(120)
        bad = verify(envs, 4)
        if bad:
            return {"what": bad + " (each source handled on its own thread, one after the other)"}
        g = impl.IdGenerator()
        res = {}
        t = threading.Thread(target=lambda: res.update(ast=impl.Parser(impl.AstBuilder(g)).parse(doc(0))))
        t.start()
        t.join(120)
        ast = res.get("ast")
        if ast is None:
            return {"what": "a parse on a worker thread did not return"}
        ast["uri"] = "u0"
        ps = impl.Compiler(g).compile(ast)
        ids = []
        P.walk([ast, ps], lambda p_, k, v: ids.append(v) if k == "id" else None)
        if len(set(ids)) != len(ids):
            return {"what": "ids repeat when one generator is used by a parse on a worker thread and a compile on the main thread"}
        return None
    return oracle("stream-usage", items, check, describe=lambda k: k)


for _pid in ("C06", "C08", "C11", "C15", "C17"):
    P.PROPS[_pid]["streams"].append(o_stream_usage)


for _pid in ("C16", "C01"):
    P.PROPS[_pid]["streams"].append(o_very_long_lines)
for _pid in ("C14", "C01"):
    P.PROPS[_pid]["streams"].append(o_call_isolation)


def c05_folded_letters(ctx):
    """a language header names a dialect with ASCII letters, '-' and '_' only: letters that Unicode case folding maps onto
    ASCII ones (long s, Kelvin sign, dotless i, dotted I) do not make a header; the line is a comment"""
    srcs = []
    for name in ("\u017fk", "\u212a", "p\u0131", "\u0130t", "en\u017f", "\u017f", "s\u212a"):
        for lead in ("", "\n\n", "# c\n"):
            srcs.append(lead + "# language: %s\nFeature: f\n  Scenario: s\n    Given g\n" % name)
            srcs.append(lead + "  #language:%s  \nFeature: f\n" % name)
    return e2e("folded-letters-in-language-headers", srcs, P.p_whole, modes=(False, True), nontrivial=nt_accepted("ast"), exhaustive=True)


P.PROPS["C05"]["streams"].append(c05_folded_letters)
P.PROPS["C14"]["streams"].append(c05_folded_letters)


def c12_private_characters(ctx):
    """cells may hold any character: noncharacters (U+FDD0.., U+FFFE), private-use characters, NUL and other controls --
    alone, doubled, next to escapes -- are read back as written (nothing is reserved as an internal marker)"""
    odd = ["\ufdd0", "\ufdd1", "\ufdd2", "\ufdef", "\ufffe", "\uffff", "\ue000", "\uf8ff", "\U000f0000", "\U0010fffe", "\x01", "\x02", "\x7f", "\u0080"]
    rows = []
    for a in odd:
        rows += ["| %s |" % a, "| %s%s | x |" % (a, a), "| a%s\\\\ | \\|%s |" % (a, a), "| %s\\n%s |" % (a, a), "| \\%s |" % a]
        for b in odd[:4]:
            rows.append("| %s%s | %s\\|%s |" % (a, b, b, a))
    reqs = [("table_cells", [rw]) for rw in rows]
    srcs = ["Feature: f\n  Scenario Outline: o\n    Given <h>\n      %s\n    Examples:\n      | h |\n      %s\n" % (rw, rw.split("|")[0] + "|" + rw.split("|")[1] + "|") for rw in rows[::3]]
    c1 = differential("private-characters-in-cells", reqs, nontrivial=lambda q, r_: q[1][0][:40], classify=lambda q, r_: "row", exhaustive=True)
    c2 = e2e("private-characters-in-tables", srcs, P.p_cells, nontrivial=nt_accepted("ast"), exhaustive=True)
    c1.evaluations += c2.evaluations
    c1.disagreements += c2.disagreements
    c1.nontrivial |= c2.nontrivial
    return c1


P.PROPS["C12"]["streams"].append(c12_private_characters)
P.PROPS["C09"]["streams"].append(c12_private_characters)


def o_reentrancy_and_copies(ctx):
    """(a) a builder whose callbacks parse other documents with other parsers (re-entrancy through user code) gets the
    result it gets otherwise, and so do the inner parses; (b) results survive copy.deepcopy, pickle and JSON unchanged;
    (c) copies (copy.deepcopy, pickle) of a used parser / matcher / compiler behave like the originals and do not share
    state with them"""
    import copy as _copy
    import pickle as _pickle
    impl = impl_mod()
    docs = ["@t\nFeature: f\n  # c\n  Background:\n    Given b\n      | x |\n  Scenario Outline: o <a>\n    Given <a>\n      \"\"\"\n      d\n      \"\"\"\n    @e\n    Examples:\n      | a |\n      | 1 |\n",
            "# language: fr\nFonctionnalité: f\n  Scénario: s\n    Soit x\n    Et y\n", "Feature: bad\n  Scenario: s\n    Given g\n    oops\n  @a b\n", ""]

    def run(p, src, m=None):
        try:
            return canon(p.parse(impl.source_arg(src), m) if m is not None else p.parse(impl.source_arg(src)))
        except impl.CompositeParserException as e:
            return canon([impl.err_json(x) for x in e.errors])
    items = [("reenter", a, b) for a in docs for b in docs] + [("result-copies", a, None) for a in docs] + [("object-copies", a, b) for a in docs for b in docs[:3]]

    def check(it):
        kind, a, b = it
        if kind == "reenter":
            want_a = run(impl.Parser(impl.AstBuilder(impl.CountingIdGen())), a)
            want_b = run(impl.Parser(impl.AstBuilder(impl.CountingIdGen())), b)
            inner = []

            class Nosy(impl.AstBuilder):
                def build(self, token):
                    inner.append(run(impl.Parser(impl.AstBuilder(impl.CountingIdGen())), b))
                    return super().build(token)

                def end_rule(self, rule_type):
                    inner.append(run(impl.Parser(impl.AstBuilder(impl.CountingIdGen())), b))
                    return super().end_rule(rule_type)
            got = run(impl.Parser(Nosy(impl.CountingIdGen())), a)
            if got != want_a:
                return {"what": "a parse whose builder callbacks parse other documents gives another result", "want": want_a[:300], "got": got[:300]}
            if any(x != want_b for x in inner):
                return {"what": "a parse started from inside a builder callback of another parse gives another result"}
            return None
        if kind == "result-copies":
            g = impl.CountingIdGen()
            p = impl.Parser(impl.AstBuilder(g))
            try:
                d = p.parse(impl.source_arg(a))
            except impl.CompositeParserException:
                return None          # (the pinned tree's exception classes cannot be pickled: nothing is asked of them here)
            d["uri"] = "u"
            ps = impl.Compiler(g).compile(d)
            for v in (d, ps):
                if canon(_copy.deepcopy(v)) != canon(v) or canon(_pickle.loads(_pickle.dumps(v))) != canon(v) or json.loads(json.dumps(v)) != v:
                    return {"what": "a result does not survive deepcopy / pickle / JSON unchanged (or is not made of plain dicts, lists, strings and None)"}
            return None
        g = impl.CountingIdGen()
        p, m = impl.Parser(impl.AstBuilder(g)), impl.TokenMatcher("en")
        run(p, b, m)
        for clone in (_copy.deepcopy, lambda o: _pickle.loads(_pickle.dumps(o))):
            try:
                p2, m2 = clone((p, m))
            except Exception as e:  # noqa
                return {"what": "a used parser / matcher cannot be copied: %r" % (e,)}
            p2.ast_builder.id_generator.n = 0
            g.n = 0
            got, want = run(p2, a, m2), run(p, a, m)
            if got != want:
                return {"what": "a copy of a used parser / matcher behaves differently from the original", "want": want[:300], "got": got[:300]}
            g.n = 0
            run(p2, docs[1], m2)
            g.n = 0
            again = run(p, a, m)
            if again != want:
                return {"what": "using a copy of a parser / matcher changes what the original does", "want": want[:300], "got": again[:300]}
        return None
    return oracle("reentrancy-and-copies", items, check, describe=lambda it: [it[0], (it[1] or "")[:30], (it[2] or "")[:30]])


for _pid in ("C15", "C03", "C06", "C01"):
    P.PROPS[_pid]["streams"].append(o_reentrancy_and_copies)


# ---------------------------------------------------------------- round 16: the public surface used the way user code uses it
def o_public_api_usage(ctx):
    """the objects behave as their public surface says, also for user code that subclasses them, copies them, assigns their
    public attributes after construction or hands them things of its own: shallow copies, builders / generators / matchers
    that are falsy or installed later, builders that veto a token, scanners of the user's own, ASTs edited in place or
    spliced together from several parses, callbacks that compile or parse again"""
    import copy as _copy
    import io as _io
    impl = impl_mod()
    from gherkin.errors import AstBuilderException
    EN = "@t\nFeature: f\n  # c\n  Background:\n    Given b\n      | x | y |\n  @s\n  Scenario Outline: o <a>\n    When <a>\n      \"\"\"\n      d <a>\n      \"\"\"\n    But c\n    @e\n    Examples:\n      | a |\n      | 1 |\n      | 2 |\n\n  Rule: r\n    Example: e\n      Then t\n"
    FR = "# language: fr\nFonctionnalité: f\n  Scénario: s\n    Soit x\n    Et y\n    Mais z\n"
    BAD = "Feature: bad\n  Scenario: s\n    Given g\n    oops\n  @a b\n  Scenario: t\n    Given h\n    nope\n"

    def run(p, src, m=None):
        try:
            return canon(p.parse(src, m) if m is not None else p.parse(src))
        except impl.CompositeParserException as e:
            return canon(["composite"] + [impl.err_json(x) for x in e.errors])
        except impl.ParserException as e:
            return canon(["single", impl.err_json(e)])

    def fresh(src, stop=False, dialect="en"):
        p = impl.Parser(impl.AstBuilder(impl.CountingIdGen()))
        p.stop_at_first_error = stop
        return run(p, src, impl.TokenMatcher(dialect))

    class LenGen(impl.IdGenerator):
        def __init__(self):
            super().__init__()
            self.issued = []

        def get_next_id(self):
            x = super().get_next_id()
            self.issued.append(x)
            return x

        def __len__(self):
            return len(self.issued)

    def ids_of(v):
        out = []
        P.walk(v, lambda p_, k, x: out.append(x) if k == "id" else None)
        return out
    items = ["shallow-parser", "shallow-matcher", "late-builder", "late-generators", "falsy-generator", "veto", "own-scanners", "edit-recompile", "spliced", "reentrant-compile",
             "offset-builder", "cells-builder", "mutating-builder", "tilde-matcher", "scribbling-hook"]

    def check(kind):
        if kind == "shallow-parser":
            for first in (EN, BAD):
                p = impl.Parser(impl.AstBuilder(impl.CountingIdGen()))
                run(p, first, impl.TokenMatcher("en"))
                for stop in (False, True):
                    q = _copy.copy(p)
                    q.ast_builder = impl.AstBuilder(impl.CountingIdGen())
                    q.stop_at_first_error = stop
                    for src in (EN, BAD):
                        if run(q, src, impl.TokenMatcher("en")) != fresh(src, stop):
                            return {"what": "a shallow copy of a used parser, given its own builder and error mode, does not parse like a fresh parser", "stop": stop, "source": src[:30]}
                    p.ast_builder.id_generator.n = 0
                    if run(p, EN, impl.TokenMatcher("en")) != fresh(EN, p.stop_at_first_error):
                        return {"what": "using a shallow copy of a parser changes what the original returns"}
            return None
        if kind == "shallow-matcher":
            proto = impl.TokenMatcher("en")
            m1, m2 = _copy.copy(proto), _copy.copy(proto)
            run(impl.Parser(impl.AstBuilder(impl.CountingIdGen())), FR, m1)
            got = run(impl.Parser(impl.AstBuilder(impl.CountingIdGen())), EN, m2)
            if got != fresh(EN):
                return {"what": "a shallow copy of a matcher is affected by what another copy of the same matcher parsed"}
            return None
        if kind == "late-builder":
            p = impl.Parser()
            g = impl.CountingIdGen()
            p.ast_builder = impl.AstBuilder(g)
            if run(p, EN, impl.TokenMatcher("en")) != fresh(EN):
                return {"what": "a builder assigned to Parser.ast_builder after construction is not the one the parser drives"}
            from gherkin.stream.gherkin_events import GherkinEvents
            ge = GherkinEvents(GherkinEvents.Options(print_source=False, print_ast=True, print_pickles=True))

            class Marking(impl.AstBuilder):
                seen = 0

                def build(self, token):
                    Marking.seen += 1
                    return super().build(token)
            ge.parser.ast_builder = Marking(ge.id_generator)
            envs = list(ge.enum({"source": {"uri": "u", "data": EN, "mediaType": "text/x.cucumber.gherkin+plain"}}))
            if Marking.seen != EN.count("\n") + 1 or not any("gherkinDocument" in e for e in envs) or len(set(ids_of(envs))) != len(ids_of(envs)):
                return {"what": "a builder installed on the stream's parser does not receive the tokens, or the stream's envelopes are not those of the document"}
            return None
        if kind == "late-generators":
            g = impl.CountingIdGen()
            p, c = impl.Parser(), impl.Compiler()
            p.ast_builder.id_generator = g
            c.id_generator = g
            d = p.parse(EN)
            d["uri"] = "u"
            ids = ids_of([d, c.compile(d)])
            if sorted(ids, key=int) != [str(i) for i in range(len(ids))] or g.n != len(ids):
                return {"what": "generators assigned to AstBuilder.id_generator / Compiler.id_generator after construction are not the ones that number the results", "ids": sorted(ids, key=int)[:12]}
            return None
        if kind == "falsy-generator":
            g = LenGen()
            p, c = impl.Parser(impl.AstBuilder(g)), impl.Compiler(g)
            d = p.parse(EN)
            d["uri"] = "u"
            ids = ids_of([d, c.compile(d)])
            if len(set(ids)) != len(ids) or sorted(ids, key=int) != sorted(g.issued, key=int):
                return {"what": "an id generator that is falsy while it has issued nothing is replaced by another one"}
            return None
        if kind == "veto":
            class Veto(impl.AstBuilder):
                def __init__(self, g):
                    super().__init__(g)
                    self.lines = []

                def build(self, token):
                    self.lines.append(token.location["line"])
                    if token.matched_type == "TagLine" and any(i["text"] == "@s" for i in token.matched_items):
                        raise AstBuilderException("vetoed", dict(token.location))
                    return super().build(token)
            b = Veto(impl.CountingIdGen())
            p = impl.Parser(b)
            try:
                p.parse(EN, impl.TokenMatcher("en"))
                return {"what": "an error raised by the builder's build() is lost"}
            except impl.CompositeParserException as e:
                if [str(x) for x in e.errors] != ["(7:3): vetoed"] and not any("vetoed" in str(x) for x in e.errors):
                    return {"what": "the error raised by the builder's build() is not among the collected errors", "errors": [str(x) for x in e.errors]}
            except Exception as e:  # noqa
                return {"what": "in collecting mode an error raised by the builder's build() escapes as %s instead of being collected" % type(e).__name__}
            if b.lines != list(range(1, EN.count("\n") + 2)):
                return {"what": "after an error raised by the builder's build() the remaining lines are not delivered", "lines": b.lines}
            return None
        if kind == "own-scanners":
            class Own(impl.TokenScanner):
                def __init__(self, text):
                    self.io = _io.StringIO(text)
                    self.line_number = 0

            class Reading(impl.TokenScanner):
                def read(self):
                    self.line_number += 1
                    line = self.io.readline()
                    return impl.Token((impl.GherkinLine(line, self.line_number) if line else line), {"line": self.line_number})

            class NoTerminators(impl.TokenScanner):
                def __init__(self, text):
                    self.lines = text.split("\n")
                    if self.lines and self.lines[-1] == "":
                        self.lines.pop()
                    self.line_number = 0

                def read(self):
                    self.line_number += 1
                    if self.line_number > len(self.lines):
                        return impl.Token("", {"line": self.line_number})
                    return impl.Token(impl.GherkinLine(self.lines[self.line_number - 1], self.line_number), {"line": self.line_number})
            for src in (EN, BAD, FR, "Feature: f\n\n  text\n\n  more\n\n  Scenario: s\n\n    Given g\n"):
                want = fresh(src)
                for name, mk in (("its own constructor", lambda: Own(src)), ("its own read()", lambda: Reading(src)), ("lines without terminators", lambda: NoTerminators(src))):
                    got = run(impl.Parser(impl.AstBuilder(impl.CountingIdGen())), mk(), impl.TokenMatcher("en"))
                    if got != want:
                        return {"what": "a TokenScanner subclass with %s gives another result than the text itself" % name, "source": src[:30], "want": want[:200], "got": got[:200]}
                sc = impl.TokenScanner(src) if not os.path.exists(src) else Own(src)
                p = impl.Parser(impl.AstBuilder(impl.CountingIdGen()))
                run(p, sc, impl.TokenMatcher("en"))
                sc.io.seek(0)
                sc.line_number = 0
                p.ast_builder.id_generator.n = 0
                if run(p, sc, impl.TokenMatcher("en")) != want:
                    return {"what": "a scanner rewound (io.seek(0), line_number = 0) gives another result the second time"}
            return None
        if kind == "edit-recompile":
            for rows in (1, 2):
                src = "Feature: f\n  Scenario Outline: o <a> <b>\n    Given <a> and <b>\n    Examples:\n      | a | b |\n" + "".join("      | %d | x |\n" % i for i in range(rows))
                d = impl.Parser(impl.AstBuilder(impl.CountingIdGen())).parse(src)
                d["uri"] = "u"
                g = impl.CountingIdGen(100)
                c = impl.Compiler(g)
                c.compile(d)
                ex = d["feature"]["children"][0]["scenario"]["examples"][0]
                ex["tableHeader"]["cells"][0]["value"] = "b"
                ex["tableHeader"]["cells"][1]["value"] = "a"
                ex["tableBody"][-1]["cells"][1]["value"] = "changed"
                g.n = 100
                got = canon(c.compile(d))
                g2 = impl.CountingIdGen(100)
                want = canon(impl.Compiler(g2).compile(_copy.deepcopy(d)))
                if got != want:
                    return {"what": "an AST edited in place and compiled again by the same compiler gives other pickles than a fresh compiler", "want": want[:300], "got": got[:300]}
            return None
        if kind == "spliced":
            for fb_arg in ("      | t |\n", ""):
              a = impl.Parser().parse("@f1 @f2\nFeature: a\n  Background:\n    Given fb\n" + fb_arg + "  @s1\n  Scenario: one\n    Given x\n")
              b = impl.Parser().parse("@g1\nFeature: b\n  Rule: r\n    Background:\n      Given rb\n        \"\"\"\n        d\n        \"\"\"\n    @s2 @s3\n    Scenario Outline: two\n      Given <v>\n      @e\n      Examples:\n        | v |\n        | 1 |\n        | 2 |\n")
              a["feature"]["children"] += b["feature"]["children"]
              a["feature"]["tags"] += b["feature"]["tags"]
              m = run_model([("compile", ["u", a, 50])])[0]
              im = impl.compile_doc("u", a, 50)
              if canon(m) != canon(im):
                  return {"what": "an AST spliced together from two separately parsed documents (ids repeat) compiles differently from the model", "model": canon(m)[:300], "impl": canon(im)[:300]}
            return None
        if kind == "offset-builder":
            class Offset(impl.AstBuilder):
                def get_location(self, token, column=None):
                    loc = super().get_location(token, column)
                    return dict(loc, line=loc["line"] + 100)
            d = json.loads(run(impl.Parser(Offset(impl.CountingIdGen())), EN, impl.TokenMatcher("en")))
            w = json.loads(fresh(EN))

            def shift(v, top=True):
                if isinstance(v, dict):
                    return {k: (dict(x, line=x["line"] + 100) if k == "location" and isinstance(x, dict) and "line" in x else shift(x, False)) for k, x in v.items()}
                if isinstance(v, list):
                    return [shift(x, False) for x in v]
                return v
            w2 = shift(w)
            if canon(d) != canon(w2):
                return {"what": "a builder whose get_location() adds 100 to every line does not yield the same AST with every line 100 higher"}
            rag = "Feature: f\n  Scenario: s\n    Given g\n      | a | b |\n      | c |\n"
            r = json.loads(run(impl.Parser(Offset(impl.CountingIdGen())), rag, impl.TokenMatcher("en")))
            if r[0] != "composite" or r[1]["location"].get("line") != 105:
                return {"what": "with such a builder the ragged-table error is not at the location of the first deviating row as the builder reports it", "got": r}
            return None
        if kind == "cells-builder":
            class TwoCells(impl.AstBuilder):
                def get_cells(self, token):
                    return super().get_cells(token)[:2]
            for rows, ok in ((["| a | b | c |", "| d | e | f |"], True), (["| a | b |", "| c | d | e |"], True), (["| a | b | c |", "| d |"], False)):
                src = "Feature: f\n  Scenario: s\n    Given g\n" + "".join("      %s\n" % x for x in rows)
                r = json.loads(run(impl.Parser(TwoCells(impl.CountingIdGen())), src, impl.TokenMatcher("en")))
                accepted = isinstance(r, dict)
                if accepted != ok:
                    return {"what": "rectangularity is not judged on the rows as the builder's get_cells() builds them", "rows": rows, "accepted": accepted}
                if accepted and [len(x["cells"]) for x in r["feature"]["children"][0]["scenario"]["steps"][0]["dataTable"]["rows"]] != [2, 2]:
                    return {"what": "the cells the builder's get_cells() returns are not the cells of the AST"}
            return None
        if kind == "scribbling-hook":
            class Scribble(impl.AstBuilder):
                def build(self, token):
                    for it in (token.matched_items or []):
                        it["text"] = it["text"].upper()
                    if token.matched_items and token.matched_type == "TableRow":
                        del token.matched_items[1:]
                    return super().build(token)
            src = "@tag @other\nFeature: f\n  Scenario Outline: s\n    Given g\n      | name | value |\n      | k | v |\n    Examples:\n      | name | value |\n      | x |\n"
            want = fresh(src)
            run(impl.Parser(Scribble(impl.CountingIdGen())), src, impl.TokenMatcher("en"))
            if fresh(src) != want:
                return {"what": "after a builder of another parse changed the items of its tokens in place, an ordinary parse of the same text reads other cells or tags"}
            return None
        if kind == "mutating-builder":
            class Embed(impl.AstBuilder):
                def build(self, token):
                    r = super().build(token)
                    token.location["line"] = token.location["line"] + 1000
                    if token.location.get("column"):
                        token.location["column"] = token.location["column"] + 40
                    return r
            src = "Feature: f\n  Scenario: s\n    Given g\n      \"\"\"\n      flush\n        deeper\n     shallower\n      \\\"\\\"\\\"\n      \"\"\"\n    And h\n        ```x\n          in\n        ```\n"
            got = json.loads(run(impl.Parser(Embed(impl.CountingIdGen())), src, impl.TokenMatcher("en")))
            want = json.loads(fresh(src))
            pick = lambda d: [[st["docString"]["content"], st["docString"].get("mediaType"), st["docString"]["delimiter"]] for st in d["feature"]["children"][0]["scenario"]["steps"]]
            if not isinstance(got, dict) or pick(got) != pick(want):
                return {"what": "doc strings read differently when the builder changes token.location in place after building each token", "got": pick(got) if isinstance(got, dict) else got}
            return None
        if kind == "tilde-matcher":
            class Tilde(impl.TokenMatcher):
                def match_DocStringSeparator(self, token):
                    if not self._active_doc_string_separator:
                        return self._match_DocStringSeparator(token, "~~~", True) or super().match_DocStringSeparator(token)
                    if self._active_doc_string_separator == "~~~":
                        return self._match_DocStringSeparator(token, "~~~", False)
                    return super().match_DocStringSeparator(token)
            for ind in ("", "  ", "\t", "         "):
                src = "Feature: f\n  Scenario: s\n" + ind + "    Given g\n" + ind + "      ~~~md\n" + ind + "      one\n" + ind + "        two\n" + ind + "      ~~~\n" + ind + "    And h\n" + ind + "      \"\"\"\n" + ind + "      three\n" + ind + "      \"\"\"\n"
                r = json.loads(run(impl.Parser(impl.AstBuilder(impl.CountingIdGen())), src, Tilde("en")))
                if not isinstance(r, dict):
                    return {"what": "a matcher subclass that adds a doc-string delimiter through the inherited helper rejects a document", "got": r}
                got = [st["docString"]["content"] for st in r["feature"]["children"][0]["scenario"]["steps"]]
                if got != ["one\n  two", "three"]:
                    return {"what": "with a matcher subclass that adds a doc-string delimiter through the inherited helper, the delimiter's indentation is not removed from the content", "indent": ind, "got": got}
            return None
        # reentrant-compile
        d1 = impl.Parser(impl.AstBuilder(impl.CountingIdGen())).parse(EN.replace("  Rule: r\n", "  @rt1 @rt2\n  Rule: r\n    Background:\n      Given rb\n        | r |\n") + "    Scenario Outline: ro\n      And <z>\n      Examples:\n        | z |\n        | 9 |\n")
        d1["uri"] = "one.feature"
        d2 = impl.Parser(impl.AstBuilder(impl.CountingIdGen())).parse(FR.replace("Scénario: s", "@autre\n  Plan du scénario: s <q>") + "    Exemples:\n      | q |\n      | Q |\n")
        d2["uri"] = "deux.feature"

        def strip_ids(v):
            if isinstance(v, dict):
                return {k: strip_ids(x) for k, x in v.items() if k not in ("id", "astNodeIds")}
            if isinstance(v, list):
                return [strip_ids(x) for x in v]
            return v
        want1 = canon(strip_ids(impl.Compiler(impl.CountingIdGen()).compile(_copy.deepcopy(d1))))
        for at in range(0, 40):
            class Nosy(impl.CountingIdGen):
                busy = False

                def get_next_id(self):
                    x = super().get_next_id()
                    if self.n == at + 1 and not Nosy.busy:
                        Nosy.busy = True
                        holder["c"].compile(_copy.deepcopy(d2))
                    return x
            holder = {}
            holder["c"] = impl.Compiler(Nosy())
            got = canon(strip_ids(holder["c"].compile(_copy.deepcopy(d1))))
            if got != want1:
                return {"what": "a compile during which the id generator's callback compiles another document with the same compiler gives other pickles (ids apart)", "at": at, "want": want1[:300], "got": got[:300]}
        return None
    return oracle("public-api-usage", items, check, describe=lambda k: k)


for _pid in sorted(P.PROPS):
    if _pid != "C19":
        P.PROPS[_pid]["streams"].append(o_public_api_usage)


_FIRST_USE_SCRIPT = r'''
import sys, json, threading
docs = json.loads(sys.stdin.read())
from gherkin.parser import Parser
bar = threading.Barrier(len(docs))
out = [None] * len(docs)
def work(i):
    bar.wait()
    try:
        out[i] = json.dumps(Parser().parse(docs[i]), sort_keys=True)
    except Exception as e:
        out[i] = "raised " + type(e).__name__ + ": " + str(e)[:100]
ths = [threading.Thread(target=work, args=(i,)) for i in range(len(docs))]
[t.start() for t in ths]
[t.join(120) for t in ths]
import gherkin.dialect as GD
# the table can be extended at run time: a new keyword of an existing dialect, a new dialect
GD.DIALECTS["en"]["given"].append("Assuming ")
GD.DIALECTS["en"]["then"].append("Hence ")
GD.DIALECTS["xx-test"] = dict(GD.DIALECTS["en"], name="Test", native="Test", feature=["Funktion"])
from gherkin.pickles.compiler import Compiler
d = Parser().parse("Feature: f\n  Scenario: s\n    Assuming a\n    And b\n    Hence c\n    But d\n")
d["uri"] = "u"
types = [s["type"] for s in Compiler().compile(d)[0]["steps"]]
d2 = Parser().parse("# language: xx-test\nFunktion: f\n  Scenario: s\n    Given g\n")
sys.stdout.write(json.dumps({"threads": out, "types": types, "newdialect": d2["feature"]["keyword"]}))
'''


def o_first_use(ctx):
    """a fresh interpreter whose very first parses run on several threads at once parses them like any other; keywords and
    dialects added to the public table at run time, after the package was used, are recognised with their types"""
    import subprocess
    from common import REPO
    docs = ["Feature: f%d\n  Scenario: s\n    Given g%d\n" % (i, i) for i in range(8)]
    env = dict(os.environ, PYTHONPATH=os.path.join(REPO, "python"), PYTHONDONTWRITEBYTECODE="1", PYTHONHASHSEED="0")
    outs = []
    for _ in range(S.n_for(6, 30)):
        try:
            pr = subprocess.run([sys.executable, "-c", _FIRST_USE_SCRIPT], input=json.dumps(docs), capture_output=True, text=True, env=env, timeout=300)
            outs.append(pr.stdout if pr.returncode == 0 else "exit %d: %s" % (pr.returncode, pr.stderr[-300:]))
        except subprocess.TimeoutExpired:
            outs.append(None)
    impl = impl_mod()
    want = [json.dumps(impl.Parser().parse(d), sort_keys=True) for d in docs]

    def check(i):
        o = outs[i]
        if o is None:
            return None
        try:
            r = json.loads(o)
        except Exception:
            return {"what": "the fresh interpreter failed: " + o[:300]}
        for k, (g, w) in enumerate(zip(r["threads"], want)):
            if g != w:
                return {"what": "a parse among the first, concurrent parses of a fresh interpreter went wrong", "got": str(g)[:200]}
        if r["types"] != ["Context", "Context", "Outcome", "Outcome"]:
            return {"what": "steps written with keywords added to the dialect table at run time get types %r" % (r["types"],)}
        if r["newdialect"] != "Funktion":
            return {"what": "a dialect added to the table at run time is not used"}
        return None
    return oracle("first-use", list(range(len(outs))), check, describe=lambda i: "interpreter %d" % i)


for _pid in ("C01", "C05", "C10", "C15"):
    P.PROPS[_pid]["streams"].append(o_first_use)


for _pid in ("C02", "C04", "C05", "C12", "C13", "C14", "C16", "C17", "C18"):
    P.PROPS[_pid]["streams"].append(o_reentrancy_and_copies)


def o_c19_language_subclass(ctx):
    """line level: a subclass of the Markdown matcher that turns the language header back on (by delegating match_Language
    to the plain matcher's), or a matcher whose public dialect attributes are assigned, recognises the headers and the
    list-item steps of the dialect then in force -- every dialect, every step keyword"""
    impl = impl_mod()
    from gherkin.token_matcher_markdown import GherkinInMarkdownTokenMatcher
    from gherkin.dialect import Dialect

    class WithLanguage(GherkinInMarkdownTokenMatcher):
        def match_Language(self, token):
            return impl.TokenMatcher.match_Language(self, token)

    def tok(text, n=1):
        return impl.Token(impl.GherkinLine(text, n), {"line": n})
    D = S.dialects()
    codes = sorted(D)

    def check(code):
        d = D[code]
        listed = [x for role in ("given", "when", "then", "and", "but") for x in d[role]]

        def by_header():
            tm = WithLanguage("en")
            return tm if tm.match_Language(tok("# language: " + code)) else None

        def by_attributes():
            tm = GherkinInMarkdownTokenMatcher("en")
            tm.dialect_name = code
            tm.dialect = Dialect.for_name(code)
            return tm
        for how, make in (("a language header honoured by a subclass", by_header), ("assigning dialect / dialect_name", by_attributes)):
            tm = make()
            if tm is None or tm.dialect_name != code:
                return {"what": "the Markdown matcher is not in dialect %s after %s" % (code, how)}
            t = tok("## %s: title" % d["scenario"][0])
            if not tm.match_ScenarioLine(t) or t.matched_keyword != d["scenario"][0]:
                return {"what": "after %s a scenario header of the dialect is not recognised" % how}
            for k in listed:
                if k == "* ":
                    continue
                t = tok("* %sx" % k)
                want = next(x for x in listed if ("%sx" % k).startswith(x))
                if not tm.match_StepLine(t) or t.matched_keyword != want:
                    return {"what": "after %s the list item '* %sx' is not a step with keyword %r" % (how, k, want), "got": getattr(t, "matched_keyword", None)}
        return None
    return oracle("md-language-subclass", codes, check, describe=lambda c: c)


P.PROPS["C19"]["streams"].append(o_c19_language_subclass)


# ---------------------------------------------------------------- round 17: corners of the input space
def _all_step_keywords(d):
    out = []
    for role in ("given", "when", "then", "and", "but"):
        out += [k for k in d[role] if k not in out]
    return out


def c05_keyword_corners(ctx):
    """(a) a short step keyword followed, in the same document, by the longer keywords it prefixes, and the other way
    round, for every such pair of every dialect; (b) the bullet '* ' in the dialects that do not list it (a step where
    it is listed, free text or an unexpected line where it is not), as a step and inside descriptions; (c) keywords
    re-spelled with the other apostrophe (U+2019 for ' and back) are not keywords; (d) a language header that selects
    another dialect leaves no English keyword behind: English title and step lines are plain text there"""
    D = S.dialects()
    srcs = []
    for code in sorted(D):
        d = D[code]
        head = "# language: %s\n%s: f\n" % (code, d["feature"][0])
        steps = _all_step_keywords(d)
        pairs = [(a, b) for a in steps for b in steps if a != b and b.startswith(a)]
        if pairs:
            body = "".join("    %sshort %d\n    %slong %d\n    %sshort again\n" % (a, i, b, i, a) for i, (a, b) in enumerate(pairs))
            srcs.append(head + "  %s: s\n%s" % (d["scenario"][0], body))
            srcs.append(head + "  %s: b\n%s  %s: s\n    %sx\n" % (d["background"][0], body, d["scenario"][0], pairs[0][1]))
        if "* " not in steps or code in ("en", "fr"):
            srcs.append(head + "  %s: b\n    * in a background description\n    %sx\n  %s: s\n    * in a scenario description\n    %sy\n    * after a step\n" % (d["background"][0], steps[0], d["scenario"][0], steps[0]))
            srcs.append(head + "\n  * in the feature description\n  %s: s\n    * first of the scenario\n    %s z\n" % (d["scenario"][0], steps[-1].strip() or steps[-1]))
        for role in S.ROLES:
            for k in d[role]:
                if "'" in k or "\u2019" in k:
                    other = k.replace("'", "\x00").replace("\u2019", "'").replace("\x00", "\u2019")
                    line = (other + ": t") if role in S.TITLE_ROLES else (other + "t")
                    srcs.append(head + "  %s: s\n    %sx\n    %s\n" % (d["scenario"][0], steps[0], line))
                    srcs.append(head + "  %s\n  %s: s\n    %sx\n" % (line, d["scenario"][0], steps[0]))
        if code != "en" and not code.startswith("en-"):
            srcs.append(head + "  %s: s\n    %sx\n  Scenario: english\n    Given y\n" % (d["scenario"][0], steps[0]))
            srcs.append(head + "  free text\n  Scenario Outline: english in a description\n  Example: e\n  %s: s\n    %sx\n  @t\n  Scenario Template: after a tag\n" % (d["scenario"][0], steps[0]))
            srcs.append(head + "  Background: english\n  Rule: english\n  %s: s\n    %sx\n    Examples:\n" % (d["scenario"][0], steps[0]))
    return e2e("keyword-corners", srcs, P.p_whole, modes=(False, True), nontrivial=lambda q, x: q[1][2][:60], exhaustive=True)


for _pid in ("C05", "C02", "C03", "C10", "C14"):
    P.PROPS[_pid]["streams"].append(c05_keyword_corners)


def c14_language_spellings(ctx):
    """a language header names a dialect by its exact code: every code of the table re-spelled with '_' for '-', in other
    letter cases, with a prefix or suffix, is an unknown dialect, reported at the header"""
    D = S.dialects()
    srcs = []
    for code in sorted(D):
        vs = {code.replace("-", "_"), code.upper(), code.lower() if code != code.lower() else code.title(), code + "-", "-" + code, code + "_x", code.replace("-", "")} - {code}
        if "-" not in code:
            vs = {code.upper(), code + "_", code + "-" + code}
        for v in sorted(vs):
            if v in D:
                continue
            srcs.append("# language: %s\n%s: f\n" % (v, D[code]["feature"][0]))
    srcs += ["  #language:%s\nFeature: f\n" % c.replace("-", "_") for c in sorted(D) if "-" in c]
    return e2e("language-code-spellings", srcs, P.p_whole, modes=(False, True), nontrivial=nt_rejected, exhaustive=True)


for _pid in ("C14", "C05"):
    P.PROPS[_pid]["streams"].append(c14_language_spellings)


def c09_header_corners(ctx):
    """placeholders are the header cells, literally, whatever they contain: an empty header cell (the placeholder '<>'), a
    header that is a regular-expression repeat ('x{2}', '{1}', 'a{1,2}', 'a{2,1}'), classes, groups, anchors, an escaped
    pipe, an escaped line feed (a placeholder spanning two lines of a doc string), headers whose joined names coincide
    ('a|b','c' and 'a','b|c'), and the texts those patterns would match if they were patterns"""
    heads = ["", "x{2}", "{1}", "a{1,2}", "a{2,1}", "[ab]", "(a)", "a|b", "^a", "a$", ".", "\\d", "a\\nb", "<a>", "a>", "<"]
    srcs = []
    for h in heads:
        cell = h.replace("|", "\\|")
        ph = "<%s>" % h.replace("\\n", "\n      ")
        plain = ["<xx>", "<>", "<a>", "<aa>", "<b>", "<a", "<1>", "<.>", "<x>"]
        name_ph = "<%s>" % h if "\\n" not in h else "<a>"
        srcs.append("Feature: f\n  Scenario Outline: only %s here\n    Given s %s and %s\n      | %s | %s |\n    And d\n      \"\"\"%s\n      %s\n      %s\n      \"\"\"\n    Examples:\n      | %s | other |\n      | V1 | o |\n      |  | <%s> |\n"
                    % (name_ph, name_ph, " ".join(plain), ("<%s>" % h).replace("|", "\\|"), " ".join(plain).replace("|", "\\|"), name_ph if "\\" not in h else "", ph, " ".join(plain), cell, h.replace("|", "\\|")))
    srcs.append("Feature: f\n  Scenario Outline: o <a|b> <c> <a> <b|c>\n    Given <a|b>-<c>-<a>-<b|c>\n    Examples:\n      | a\\|b | c |\n      | 1 | 2 |\n    Examples:\n      | a | b\\|c |\n      | 3 | 4 |\n  Scenario Outline: p <> <|>\n    Given <>-<|>\n    Examples:\n      |  |  |\n      | 5 | 6 |\n    Examples:\n      | \\| |\n      | 7 |\n")
    srcs.append("Feature: f\n  Scenario Outline: total <> items\n    Given <> and <>\n    Examples:\n      |   | qty |\n      | two | 2 |\n")
    reqs = [("events", [False, False, True, False, [["u.feature", s]]]) for s in srcs]

    def pr(r_, req=None):
        if "envelopes" not in r_:
            return {"outcome": P.outcome(r_)}
        return [pk_interp(e["pickle"]) if "pickle" in e else e for e in r_["envelopes"]]
    return differential("header-corners", reqs, proj=pr, nontrivial=lambda q, x: canon(q[1])[:100], classify=lambda q, x: "doc", exhaustive=True)


for _pid in ("C09", "C06", "C15"):
    P.PROPS[_pid]["streams"].append(c09_header_corners)


def c13_delimiter_corners(ctx):
    """doc strings at their edges: an opening line of four and more delimiter characters (the media type begins with the
    delimiter's own character); a backslash directly before an escaped delimiter; the escaped form of the other delimiter
    (content, not an escape); a closing delimiter indented deeper or less than the opening one; a media type that is only
    a placeholder whose value is empty"""
    srcs = []
    for d, o in (('"""', "```"), ("```", '"""')):
        c = d[0]
        esc = "\\" + "\\".join(d)
        oesc = "\\" + "\\".join(o)
        for opening in (d + c, d + c + "quoted" + c, d + c * 3, d + " " + c, d + o, d + c + " x"):
            srcs.append("Feature: f\n  Scenario: s\n    Given g\n      %s\n      body\n      %s\n    And h\n" % (opening, d))
        for line in ("\\" + esc, "C:\\dir\\" + esc, esc + "\\", "\\\\" + esc, oesc, "\\" + oesc, esc + oesc, "x" + esc + esc):
            srcs.append("Feature: f\n  Background:\n    Given g\n      %s\n      %s\n      %s\n  Scenario Outline: o\n    Given <a>\n      %s\n      %s\n      %s\n    Examples:\n      | a |\n      | 1 |\n" % (d, line, d, d, line, d))
        for closer_ind in ("        ", "    ", "", "\t      ", "       "):
            srcs.append("Feature: f\n  Scenario: s\n    Given g\n      %s\n      body\n%s%s\n    And after\n  @t\n  # c\n\n  Scenario: next\n    Given x\n" % (d, closer_ind, d))
    ast = e2e("delimiter-corners", srcs, P.p_whole, modes=(False, True), nontrivial=lambda q, x: q[1][2][:80], exhaustive=True)
    media = ["Feature: f\n  Scenario Outline: o\n    Given g\n      \"\"\"<type>\n      body <type>\n      \"\"\"\n    And h\n      ```<type><type>\n      ```\n    Examples:\n      | type |\n      |  |\n      | json |\n      | <type> |\n"]
    reqs = [("events", [ps, pa, True, False, [["u.feature", s]]]) for s in media + srcs[:12] for ps, pa in ((False, False), (True, True))]
    ev = differential("delimiter-corners-envelopes", reqs, nontrivial=lambda q, x: canon(q[1])[:100], classify=lambda q, x: "doc", exhaustive=True)
    ast.evaluations += ev.evaluations
    ast.disagreements += ev.disagreements
    ast.nontrivial |= ev.nontrivial
    return ast


for _pid in ("C13", "C03", "C07", "C17", "C18"):
    P.PROPS[_pid]["streams"].append(c13_delimiter_corners)
P.PROPS["C07"]["streams"].append(c13_shared_lines)
P.PROPS["C17"]["streams"].append(c01_error_line_characters)
P.PROPS["C01"]["streams"].append(c12_ragged)


def c11_coincidences(ctx):
    """numbers that coincide when written next to each other: a tag at line 1, column 11 and one at line 11, column 1 (and
    the like: every column 1..25 on a first line against every column 1..3 ten and twenty lines further down, in one tag
    run); examples blocks whose tag ids, written one after the other, spell the id of another block's tag (two tags then
    one tag, with 0..60 rows in between)"""
    srcs = []
    for k in range(0, 25):
        for later in (10, 20):
            for col2 in (0, 1, 2):
                srcs.append(" " * k + "@first @second\n" + "# filler\n" * (later - 1) + " " * col2 + "@third\n" + "Feature: f\n  Scenario: s\n    Given g\n")
    for r1 in (0, 1, 2, 3):
        for r2 in range(0, 61, 1 if r1 == 1 else 7):
            srcs.append("Feature: f\n  Scenario Outline: o\n    Given <a>\n    @t1 @t2\n    Examples:\n      | a |\n" + "      | x |\n" * r1 + "    @t3\n    Examples:\n      | a |\n" + "      | y |\n" * r2 + "    @t4 @t5\n    Examples:\n      | a |\n      | z |\n")
    reqs = [("events", [False, True, True, False, [["u.feature", s]]]) for s in srcs]
    return differential("coincidences", reqs, nontrivial=lambda q, x: canon(q[1])[:100], classify=lambda q, x: "doc", exhaustive=True)


for _pid in ("C11", "C08", "C04"):
    P.PROPS[_pid]["streams"].append(c11_coincidences)


def o_huge_runs(ctx):
    """a look-ahead over more than 65 536 (and 131 072) tag, comment and blank lines drops nothing: every tag and every
    comment is in the AST, at its own line (implementation only: too slow for the model)"""
    impl = impl_mod()

    def check(n):
        run = "".join(("  @t%d\n" % i) if i % 3 == 0 else ("  # c%d\n" % i if i % 3 == 1 else "\n") for i in range(n))
        for tail, pick in (("  Examples:\n    | a |\n    | 1 |\n", lambda f: f["children"][0]["scenario"]["examples"][0]["tags"]),
                           ("  Scenario: t\n    Given h\n", lambda f: f["children"][1]["scenario"]["tags"])):
            src = "Feature: f\n  Scenario Outline: s\n    Given <a>\n  @first\n" + run + tail
            r = impl.parse(False, "en", src)
            if "ok" not in r:
                return {"what": "a well-formed document with a tag run of %d lines is rejected" % n, "result": canon(r)[:300]}
            tags = pick(r["ok"]["feature"])
            want_tags = ["@first"] + ["@t%d" % i for i in range(0, n, 3)]
            if [t["name"] for t in tags] != want_tags or [t["location"]["line"] for t in tags] != [4] + [5 + i for i in range(0, n, 3)]:
                return {"what": "tags of a run of %d lines are missing from the AST or at other lines (%d of %d)" % (n, len(tags), len(want_tags))}
            if [c["location"]["line"] for c in r["ok"]["comments"]] != [5 + i for i in range(1, n, 3)]:
                return {"what": "comments of a run of %d lines are missing from the AST (%d of %d)" % (n, len(r["ok"]["comments"]), len(range(1, n, 3)))}
        return None
    return oracle("huge-look-ahead-runs", [66000, 140000] if S.n_for(0, 1) == 0 else [66000, 140000, 300000], check, describe=lambda n: "%d lines" % n)


for _pid in ("C18", "C03", "C16"):
    P.PROPS[_pid]["streams"].append(o_huge_runs)
for _pid in ("C16", "C03"):
    P.PROPS[_pid]["streams"].append(o_c13_docstrings_in_context)


# ---------------------------------------------------------------- round-18 strengthening
def c09_value_chains(ctx):
    """columns are applied in header order, one after the other, each to the text the columns before it left: every
    table of three columns named from {a, b} (repeated names included) against every row of values from
    {'<a>', '<b>', 'x<a>y', '1', ''} -- a value may write a placeholder back, of its own column, of an earlier or of a
    later one, and a repeated name finds what the first occurrence left"""
    import itertools
    vals = ["<a>", "<b>", "x<a>y", "1", ""]
    srcs = []
    for hs in itertools.product(["a", "b"], repeat=3):
        rows = "".join("      | %s | %s | %s |\n" % v for v in itertools.product(vals, repeat=3))
        srcs.append("Feature: f\n  Scenario Outline: n <a>/<b>\n    Given <a> and <b> and <a><b>\n      | <a> | <b><a> |\n    And d\n      \"\"\"<b>\n      <a>-<b>\n      \"\"\"\n    Examples:\n      | %s | %s | %s |\n%s" % (hs + (rows,)))
    for hs in (("a", "a"), ("a", "b", "a", "b"), ("b", "a", "a", "a")):
        rows = "".join("      | %s |\n" % " | ".join(v) for v in itertools.product(["<a>", "<b>", "2"], repeat=len(hs)))
        srcs.append("Feature: f\n  Scenario Outline: n <a>/<b>\n    Given <a> and <b>\n    Examples:\n      | %s |\n%s" % (" | ".join(hs), rows))
    reqs = [("events", [False, False, True, False, [["u.feature", s]]]) for s in srcs]

    def pr(r_, req=None):
        if "envelopes" not in r_:
            return {"outcome": P.outcome(r_)}
        return [pk_interp(e["pickle"]) if "pickle" in e else e for e in r_["envelopes"]]
    return differential("value-chains", reqs, proj=pr, nontrivial=lambda q, x: canon(q[1])[:120], classify=lambda q, x: "doc", exhaustive=True)


for _pid in ("C09", "C06", "C07"):
    P.PROPS[_pid]["streams"].append(c09_value_chains)


def c12_backslash_followers(ctx):
    """a backslash pair is decoded for exactly three followers (n, |, backslash); before every other character -- each
    printable ASCII character, each control character, Latin-1 and Latin Extended-A, separators and marks -- the backslash
    stays, with its follower, at the start, in the middle and at the end of a cell, alone and doubled"""
    followers = [chr(c) for c in list(range(0, 10)) + [11, 12] + list(range(14, 0x180))] + ["\u2028", "\u2029", "\ufeff", "\u200b", "\u3000", "\U0001f600"]
    reqs = []
    for c in followers:
        reqs.append(("table_cells", ["| \\%s | a\\%sb | \\%s\\%s | x\\%s |" % (c, c, c, c, c)]))
        reqs.append(("table_cells", ["|\\%s|C:\\%smp\\%s|\\\\%s|\\%s" % (c, c, c, c, c)]))
    srcs = ["Feature: f\n  Scenario Outline: o\n    Given <h>\n      | \\%s | C:\\%smp |\n    Examples:\n      | h | \\%s |\n      | a\\%sb | \\%s |\n" % (c, c, c, c, c)
            for c in "abefnrtuvxNT0'\"/ \t#@<>"]
    c1 = differential("backslash-followers", reqs, nontrivial=lambda q, r_: q[1][0][:40], classify=lambda q, r_: "row", exhaustive=True)
    c2 = e2e("backslash-followers-in-tables", srcs, P.p_cells, nontrivial=nt_accepted("ast"), exhaustive=True)
    c1.evaluations += c2.evaluations
    c1.disagreements += c2.disagreements
    c1.nontrivial |= c2.nontrivial
    return c1


for _pid in ("C12", "C09"):
    P.PROPS[_pid]["streams"].append(c12_backslash_followers)


def c17_source_edges(ctx):
    """the source envelope carries the file's text unchanged, and the other envelopes are those of that very text,
    whatever the text begins or ends with: a byte order mark (one, two, before blanks, before a language header),
    zero-width and no-break characters, NUL, form feed, the information separators, NEL, line and paragraph separators,
    bare carriage returns, Ctrl-Z"""
    leads = ["\ufeff", "\ufeff\ufeff", "\ufeff ", " \ufeff", "\ufeff\n", "\u200b", "\u2060", "\xa0", "\x00", "\x0c", "\x1c", "\x1f", "\x85", "\u2028", "\u2029",
             "\u3000", "\r", "\r\n", "\n\ufeff", "\ufffe", "\x1a"]
    bodies = ["Feature: f\n  Scenario: s\n    Given g\n", "# language: fr\nFonctionnalité: f\n  Scénario: s\n    Soit g\n", "Feature: f\n  Scenario: s\n    oops\n", "", "# only a comment"]
    reqs = []
    for i, ld in enumerate(leads):
        for j, b in enumerate(bodies):
            for s in (ld + b, b + ld):
                k = i + j
                reqs.append(("events", [True, k % 2 == 0, k % 3 != 0, False, [["edge.feature", s]]]))
                reqs.append(("events", [True, True, True, False, [["a", s], ["b", bodies[0]], ["c", s]]]))
    return differential("source-edges", reqs, nontrivial=lambda q, x: canon(q[1])[:120] if x.get("envelopes") else None,
                        classify=lambda q, x: "sources:%d" % len(q[1][4]), exhaustive=True)


for _pid in ("C17", "C15", "C01", "C03", "C04", "C02"):
    P.PROPS[_pid]["streams"].append(c17_source_edges)


def c19_tags_of_any_line(ctx):
    """Markdown: the tags of a line are its backtick-quoted '@' words wherever they stand -- also on a line that is a
    keyword header, a bullet step, a table row, a fence, a block quote -- each at its own column"""
    ms = S.mstate("en")
    r = rng("c19/anyline")
    heads = ["# Feature: ", "## Scenario: ", "### Rule: see ", "#### Background:", "## Scenario Outline: o ", "##### Examples: ", "###### Scenario:", "####### Scenario: ",
             "## Scénario: ", "## not a keyword: ", "#Feature: ", "* Given ", "- When ", "+ Then x ", "  * And ", "| a | ", "|", "> ", "```", "1. ", "Feature: ", "Scenario: ", "# ", "## "]
    parts = ["`@a`", "`@wip`", "`@slow-1`", " and ", " ", "`@`", "`x`", "text", "`@a``@b`", "@bare", "`@un closed", "|", "`@é`", "#"]
    reqs = []
    for h in heads:
        for ind in ("", "  ", "\t"):
            reqs.append(("match_md", ["TagLine", ms, False, ind + h + "see `@wip` and `@slow`", 3]))
            reqs.append(("match_md", ["TagLine", ms, False, ind + h + "`@only`\n", 3]))
            reqs.append(("match_md", ["TagLine", ms, False, ind + h, 3]))
    for _ in range(S.n_for(1500, 20000)):
        line = r.choice(["", " ", "    "]) + r.choice(heads) + "".join(r.choice(parts) for _ in range(r.randint(0, 5))) + r.choice(["", "\n", " "])
        reqs.append(("match_md", ["TagLine", ms, False, line, 7]))
    return differential("md-tags-of-any-line", reqs, nontrivial=lambda q, x: q[1][3] if x.get("ans") else None,
                        classify=lambda q, x: "tags" if x.get("ans") else "none")


P.PROPS["C19"]["streams"].append(c19_tags_of_any_line)


def cap_boundary(pid):
    """the error cap and the duplicate rule at their edge: k = 0 .. 12 distinct errors already recorded, then a line that
    produces more than one error, or the same error more than once -- a malformed tag line seen by a look-ahead and then
    matched, behind a well-formed tag line, behind a ragged table that the tag line closes -- then further lines: the whole
    result (tokens delivered, errors listed, where the run stops), parse, token listing and stream"""
    def stream(ctx):
        constructs = ["  @fine\n  @broken tag\n  Scenario: t\n    Given h\n",
                      "  @broken tag\n  Scenario: t\n    Given h\n",
                      "    Given g\n      | a | b |\n      | c |\n  @t1\n  @t 2\n  Scenario: t\n    Given h\n",
                      "    Given g\n      | a | b |\n      | c |\n\n  # c\n  @t1\n\n  @t 2\n  @t 2\n  Scenario: t\n",
                      "  @a b\n  @a b\n  @c d\n  Scenario: t\n    Given h\n  @e f\n  Scenario: u\n",
                      "    Given g\n      | a | b |\n      | c |\n    unexpected here\n  @t 2\n  Scenario: t\n"]
        srcs = []
        for k in range(0, 13):
            head = "Feature: f\n  Scenario: s\n    Given g\n" + "".join("    oops %d\n" % i for i in range(k))
            for c in constructs:
                srcs.append(head + c)
                srcs.append(head + c + "    more unexpected\n    and more\n")
        reqs = [("parse", [stop, "en", s]) for s in srcs for stop in (False, True)]
        reqs += [("tokens", ["en", s]) for s in srcs]
        reqs += [("events", [False, True, True, False, [["a.feature", s], ["b.feature", "Feature: after\n  Scenario: s\n    Given g\n"]]]) for s in srcs[::2]]
        return differential("error-cap-boundary/" + pid, reqs, nontrivial=lambda q, x: canon(q[1])[:300], classify=lambda q, x: q[0], exhaustive=True)
    stream.__name__ = "cap_boundary_" + pid
    stream.__doc__ = cap_boundary.__doc__
    return stream


for _pid in ("C18", "C14", "C01", "C17", "C15"):
    P.PROPS[_pid]["streams"].append(cap_boundary(_pid))


C16_BLANK_DOCS = [
    "Feature: f\n  # c0\n  Background:\n    # c1\n    Given b\n  Scenario: s\n  # c2\n    Given g\n  Rule: r\n    # c3\n    Example: e\n      # c4\n      Given h\n",
    "Feature: f\n\n  # c0\n\n  Scenario Outline: o\n    # c1\n    Given <a>\n    # c2\n    Examples:\n      # c3\n      | a |\n      # c4\n      | 1 |\n",
    "# c\n@t\n# c\nFeature: f\n  @s\n  # c\n  @u\n  Scenario: s\n    Given g\n      # c\n      | x |\n      # c\n      | y |\n    # c\n    And h\n",
    "Feature: f\n  described\n  # c\n  more\n\n  Scenario: s\n    described too\n\n    # c\n    Given g\n      \"\"\"\n      text\n\n      \"\"\"\n    # c\n  Scenario: t\n  # c\n",
    "Feature: f\n  Rule: r\n  # c\n  Background:\n  # c\n  Scenario: s\n  # c\n  Scenario Outline: o\n  # c\n  Examples:\n  # c\n  Examples: e\n",
    "Feature: f\n  Scenario: s\n    Given g\n    # c\n    oops\n  # c\n  Scenario: t\n",
    "Feature: f\n  Background:\n    Given b\n      \"\"\"\n      d\n      \"\"\"\n      | a | b |\n  Scenario: s\n    Given g\n      ```\n      d\n      ```\n      | a |\n",
    "Feature: f\n  Rule: r\n    Background:\n      Given b\n        \"\"\"\n        d\n        \"\"\"\n        | a | b |\n    Example: e\n      Given g\n        \"\"\"\n        d\n        \"\"\"\n        | a |\n      And h\n",
]


def c16_blank_everywhere(ctx):
    """a blank line -- empty, or made of blanks, tabs, a no-break space -- inserted at EVERY position of a document (before
    each line and at the end): (a) model against implementation on every variant, whole result; (b) the relation itself
    for documents whose AST has no description and no doc string: the result is the original with the line numbers
    behind the insertion raised by one.  Documents with comments directly behind title lines (where the grammar opens a
    description that may turn out empty), between tags, between table rows, before steps"""
    impl = impl_mod()
    blanks = ["", " ", "\t", "  \t ", "\xa0", " \r", "  # an inserted comment"]
    variants = []
    for d in C16_BLANK_DOCS:
        lines = d.split("\n")[:-1]
        for i in range(len(lines) + 1):
            for b in blanks:
                variants.append("".join(x + "\n" for x in lines[:i] + [b] + lines[i:]))
    c1 = e2e("blank-everywhere", variants, P.p_whole, modes=(False,), nontrivial=lambda q, r_: q[1][2][:200], exhaustive=True)

    def shift(v, at):
        import re
        if isinstance(v, dict):
            out = {}
            for k, x in v.items():
                if k == "location":
                    x = dict(x)
                    if x["line"] >= at:
                        x["line"] += 1
                    out[k] = x
                elif k == "message" and isinstance(x, str):
                    out[k] = re.sub(r"^\((\d+):(\d+)\)", lambda m: "(%d:%s)" % (int(m.group(1)) + (1 if int(m.group(1)) >= at else 0), m.group(2)), x)
                else:
                    out[k] = shift(x, at)
            return out
        if isinstance(v, list):
            return [shift(x, at) for x in v]
        return v

    def plain(v):
        """no description, no doc string anywhere in the AST"""
        if isinstance(v, dict):
            if v.get("description") or "docString" in v:
                return False
            return all(plain(x) for x in v.values())
        if isinstance(v, list):
            return all(plain(x) for x in v)
        return True

    def res_of(src):
        x = impl.parse(False, "en", src)
        return {k: v for k, v in x.items() if k in ("ok", "errors", "foreign")}
    pool = [d for d in C16_BLANK_DOCS] + P.corpus_sources() + [s for s, _ in S.gen_sources(S.n_for(60, 1200), salt="c16/blank")]
    pool = [s.replace("\r\n", "\n") for s in pool]
    pool = [s for s in pool if "\r" not in s and s.endswith("\n") and s.count("\n") <= 60]
    r = rng("c16/blank")

    def check(src):
        base = res_of(src)
        if "ok" not in base or not plain(base["ok"]):
            return None
        lines = src.split("\n")[:-1]
        for i in range(len(lines) + 1):
            b = r.choice(blanks[:5])
            var = "".join(x + "\n" for x in lines[:i] + [b] + lines[i:])
            if canon(res_of(var)) != canon(shift(base, i + 1)):
                return {"what": "a blank line %r inserted before line %d of a document without descriptions and doc strings changes more than line numbers" % (b, i + 1), "variant": var}
        return None
    c2 = oracle("blank-everywhere-relation", pool, check, describe=lambda s: s[:200])

    heads = ("Given ", "When ", "Then ", "And ", "But ", "* ", "Feature:", "Rule:", "Background:", "Scenario:", "Scenario Outline:", "Example:", "Examples:", "@", "|", '"""', "```")

    def check_comment(src):
        """a comment line directly before a keyword, step, tag, table-row or opening-delimiter line (outside doc strings) of
        the hand-written documents without descriptions, accepted or rejected: the result is the original with the line
        numbers raised and, when accepted, that comment added"""
        base = res_of(src)
        if "foreign" in base or ("ok" in base and not plain(dict(base["ok"], comments=[]))):
            return None
        lines = src.split("\n")[:-1]
        inside = None
        for i, ln in enumerate(lines):
            t = ln.strip()
            if inside:
                if t.startswith(inside):
                    inside = None
                continue
            if t.startswith(heads):
                cm = "   # inserted %d" % i
                var = "".join(x + "\n" for x in lines[:i] + [cm] + lines[i:])
                want = shift(base, i + 1)
                if "ok" in want:
                    want = {"ok": dict(want["ok"], comments=sorted(want["ok"]["comments"] + [{"location": {"line": i + 1, "column": 1}, "text": cm}], key=lambda c: c["location"]["line"]))}
                if canon(res_of(var)) != canon(want):
                    return {"what": "a comment line inserted directly before line %d (%r) changes more than line numbers and that comment" % (i + 1, t[:30]), "variant": var}
            if t.startswith(('"""', "```")):
                inside = t[:3]
        return None
    c3 = oracle("comment-before-structural-lines-relation", [d for d in C16_BLANK_DOCS if "described" not in d], check_comment, describe=lambda s: s[:200])
    c2.evaluations += c3.evaluations
    c2.disagreements += c3.disagreements
    c2.nontrivial |= c3.nontrivial
    c1.evaluations += c2.evaluations
    c1.disagreements += c2.disagreements
    c1.nontrivial |= c2.nontrivial
    return c1


for _pid in ("C16", "C03"):
    P.PROPS[_pid]["streams"].append(c16_blank_everywhere)


def c11_markup_rows_and_vanishing_texts(ctx):
    """(a) table rows whose cells look like markup -- Markdown alignment rows ('| --- | :-: |'), rules of dashes, equals
    signs, dots, asterisks, colons -- are rows like any other, at every row position of data tables and examples tables
    of two to four rows (their ids, their cells, one pickle per body row); (b) texts that interpolate to nothing -- a step
    text, a name, a cell, a doc string, a media type made only of placeholders whose values are empty -- still yield their
    step, cell, argument, with its id: whole streams (ids included), model against implementation"""
    marks = ["| --- | :-: |", "| - | - |", "|:--|--:|", "| === | === |", "| ... | . |", "| *** | * |", "| ___ | _ |", "| : | :: |", "| -- | x |", "| --- | --- |"]
    srcs = []
    for m in marks:
        for n in (2, 3, 4):
            for pos in range(n):
                rows = ["| a | b |"] + ["| %d | %d |" % (i, i + 1) for i in range(1, n)]
                rows[pos] = m
                t = "".join("      %s\n" % x for x in rows)
                srcs.append("Feature: f\n  Scenario: s\n    Given g\n%s    And h\n" % t)
                srcs.append("Feature: f\n  Scenario Outline: o\n    Given <a> g\n    Examples:\n%s" % t)
    for step in ("<e>", "<e><f>", "<e> <f>", " <e>", "<e>x"):
        for vals in (("", ""), ("", "v"), ("v", "")):
            srcs.append("Feature: f\n  Background:\n    Given b\n  Scenario Outline: <e>\n    Given first\n    And %s\n    But %s\n      | <e> | <f> |\n    * %s\n      \"\"\"<e>\n      <e><f>\n      \"\"\"\n    Then last\n    @t\n    Examples: <e>\n      | e | f |\n      | %s | %s |\n      | w | w |\n"
                        % (step, step, step, vals[0], vals[1]))
    reqs = [("events", [False, True, True, False, [["u.feature", s]]]) for s in srcs]
    return differential("markup-rows-and-vanishing-texts", reqs, nontrivial=lambda q, x: canon(q[1])[:160] if x.get("envelopes") else None,
                        classify=lambda q, x: "doc", exhaustive=True)


for _pid in ("C11", "C12", "C04", "C06", "C07", "C09"):
    P.PROPS[_pid]["streams"].append(c11_markup_rows_and_vanishing_texts)


# ---------------------------------------------------------------- round-19 strengthening
def o_long_element_runs(ctx):
    """nothing in the pipeline is bounded by the NUMBER of repeated elements: 1100 and 3500 (thorough: 12000) consecutive
    And steps behind one Given (background and scenario steps together), But steps, scenarios, rules, examples blocks,
    examples rows, table rows, tags, doc-string lines -- the stream yields the source, the document and the pickles
    the text was assembled from, with the step types its keywords give (implementation only: too slow for the model)"""
    impl = impl_mod()
    sizes = [1100, 3500] + ([12000] if S.n_for(0, 1) else [])
    kinds = ["and-steps", "but-after-background", "scenarios", "rules", "examples-blocks", "examples-rows", "table-rows", "tags", "docstring-lines", "star-steps"]

    def build(kind, n):
        """source, expected number of pickles, expected (texts, types) of the first pickle's steps (or None)"""
        if kind == "and-steps":
            return ("Feature: f\n  Scenario: s\n    Given a\n" + "".join("    And b%d\n" % i for i in range(n)), 1, (["a"] + ["b%d" % i for i in range(n)], ["Context"] * (n + 1)))
        if kind == "but-after-background":
            h = n // 2
            return ("Feature: f\n  Background:\n    When w\n" + "".join("    And b%d\n" % i for i in range(h)) + "  Scenario: s\n" + "".join("    But c%d\n" % i for i in range(n - h)) + "    Then t\n    And u\n",
                    1, (["w"] + ["b%d" % i for i in range(h)] + ["c%d" % i for i in range(n - h)] + ["t", "u"], ["Action"] * (n + 1) + ["Outcome", "Outcome"]))
        if kind == "star-steps":
            return ("Feature: f\n  Scenario: s\n    Then a\n" + "".join("    * b%d\n    And c%d\n" % (i, i) for i in range(n // 2)), 1,
                    (["a"] + [x for i in range(n // 2) for x in ("b%d" % i, "c%d" % i)], ["Outcome"] + ["Unknown"] * (2 * (n // 2))))
        if kind == "scenarios":
            return ("Feature: f\n" + "".join("  Scenario: s%d\n    Given g\n    And h\n" % i for i in range(n)), n, (["g", "h"], ["Context", "Context"]))
        if kind == "rules":
            return ("Feature: f\n" + "".join("  Rule: r%d\n    Example: e\n      When g\n      But h\n" % i for i in range(n)), n, (["g", "h"], ["Action", "Action"]))
        if kind == "examples-blocks":
            return ("Feature: f\n  Scenario Outline: o\n    Given <a>\n    And z\n" + "".join("    Examples: e%d\n      | a |\n      | v%d |\n" % (i, i) for i in range(n)), n, (["v0", "z"], ["Context", "Context"]))
        if kind == "examples-rows":
            return ("Feature: f\n  Scenario Outline: o\n    Given <a>\n    And z\n    Examples:\n      | a |\n" + "".join("      | v%d |\n" % i for i in range(n)), n, (["v0", "z"], ["Context", "Context"]))
        if kind == "table-rows":
            return ("Feature: f\n  Scenario: s\n    Given g\n" + "".join("      | r%d |\n" % i for i in range(n)) + "    And h\n", 1, (["g", "h"], ["Context", "Context"]))
        if kind == "tags":
            return ("Feature: f\n" + "".join("  @t%d\n" % i for i in range(n)) + "  Scenario: s\n    Given g\n    And h\n", 1, (["g", "h"], ["Context", "Context"]))
        if kind == "docstring-lines":
            return ("Feature: f\n  Scenario: s\n    Given g\n      \"\"\"\n" + "".join("      l%d\n" % i for i in range(n)) + "      \"\"\"\n    And h\n", 1, (["g", "h"], ["Context", "Context"]))
        raise ValueError(kind)

    def check(it):
        kind, n = it
        src, npk, first = build(kind, n)
        ev = impl.events(True, True, True, False, [["long.feature", src], ["after.feature", "Feature: after\n  Scenario: s\n    Given g\n"]])
        if "envelopes" not in ev:
            return {"what": "the stream raised on a document with %d %s: %s" % (n, kind, canon(ev)[:200])}
        envs = ev["envelopes"]
        ks = [list(e)[0] for e in envs]
        want = ["source", "gherkinDocument"] + ["pickle"] * npk + ["source", "gherkinDocument", "pickle"]
        if ks != want:
            return {"what": "%d %s: envelope kinds %r.. (%d) where source, document and %d pickles (then the next source's three) are due" % (n, kind, ks[:4], len(ks), npk)}
        pk = envs[2]["pickle"]
        if [s["text"] for s in pk["steps"]] != first[0] or [s["type"] for s in pk["steps"]] != first[1]:
            bad = [i for i, s in enumerate(pk["steps"]) if i >= len(first[0]) or s["text"] != first[0][i] or s["type"] != first[1][i]][:1]
            return {"what": "%d %s: the first pickle's steps (texts, types) are not those of the text; first difference at step %r of %d (expected %d)" % (n, kind, bad, len(pk["steps"]), len(first[0]))}
        if kind == "tags" and [t["name"] for t in pk["tags"]] != ["@t%d" % i for i in range(n)]:
            return {"what": "%d tags: the pickle carries %d" % (n, len(pk["tags"]))}
        if kind == "table-rows" and len(pk["steps"][0]["argument"]["dataTable"]["rows"]) != n:
            return {"what": "%d table rows: the pickle step carries %d" % (n, len(pk["steps"][0]["argument"]["dataTable"]["rows"]))}
        if kind == "docstring-lines" and pk["steps"][0]["argument"]["docString"]["content"] != "\n".join("l%d" % i for i in range(n)):
            return {"what": "%d doc-string lines: the content differs" % n}
        ids = []

        def walk(v):
            if isinstance(v, dict):
                for k, x in v.items():
                    if k == "id":
                        ids.append(int(x))
                    else:
                        walk(x)
            elif isinstance(v, list):
                for x in v:
                    walk(x)
        for e in envs:
            walk(e)
        if sorted(ids) != list(range(len(ids))):
            return {"what": "%d %s: the ids of the stream are not 0 .. %d without gaps" % (n, kind, len(ids) - 1)}
        return None
    return oracle("long-element-runs", [(k, n) for n in sizes for k in kinds], check, describe=lambda it: "%d %s" % (it[1], it[0]))


for _pid in ("C17", "C01", "C10", "C06", "C07", "C08", "C11"):
    P.PROPS[_pid]["streams"].append(o_long_element_runs)


def c12_escape_dense_cells(ctx):
    """a cell is decoded escape by escape whatever their number: cells holding 1 .. 1000 escapes (31, 32, 33, 63, 64, 65
    among them) -- of one kind, of the three kinds in turn, with other backslash pairs and plain text in between -- are
    read back escape for escape; as rows on their own and inside data tables and examples tables"""
    reqs, srcs = [], []
    for k in (1, 2, 15, 16, 17, 31, 32, 33, 34, 63, 64, 65, 100, 255, 256, 257, 1000):
        for unit in ("\\n", "\\|", "\\\\", "\\n\\|\\\\", "x\\ny", "\\q\\n", "\\|a\\\\b"):
            cell = (unit * k)[:4000]
            reqs.append(("table_cells", ["| %s | z |" % cell]))
            reqs.append(("table_cells", ["| a | %s | %s |" % (cell, unit * 3)]))
        cell = "\\n\\|\\\\" * k
        if k <= 100:
            srcs.append("Feature: f\n  Scenario Outline: o\n    Given <h>\n      | %s |\n    Examples:\n      | h |\n      | %s |\n" % (cell, cell))
    c1 = differential("escape-dense-cells", reqs, nontrivial=lambda q, r_: q[1][0][:40], classify=lambda q, r_: "row", exhaustive=True)
    c2 = e2e("escape-dense-cells-in-tables", srcs, P.p_cells, nontrivial=nt_accepted("ast"), exhaustive=True)
    c1.evaluations += c2.evaluations
    c1.disagreements += c2.disagreements
    c1.nontrivial |= c2.nontrivial
    return c1


for _pid in ("C12", "C09"):
    P.PROPS[_pid]["streams"].append(c12_escape_dense_cells)


def c14_messages_quoting_messages(ctx):
    """errors are told apart by their whole message, not by parts of it: an unexpected line whose text quotes, word for
    word, the message of an error that comes later in the same document (a ragged table, a malformed tag line, another
    unexpected line, the unexpected end of file) -- that later error is still listed, at its own row / line"""
    impl = impl_mod()
    shells = ["Feature: f\n  Scenario: s\n    Given g\n    %s\n    And t\n      | a | b |\n      | c |\n      | d | e | f |\n",
              "Feature: f\n  Scenario Outline: o\n    Given <a>\n    %s\n    Examples:\n      | a |\n      | 1 | 2 |\n",
              "Feature: f\n  Scenario: s\n    Given g\n    %s\n  @bad tag\n  Scenario: t\n    Given h\n",
              "Feature: f\n  Scenario: s\n    Given g\n    %s\n    And h\n    another stray line\n",
              "Feature: f\n  Scenario: s\n    Given g\n    %s\n    And h\n      \"\"\"\n      never closed\n",
              "Feature: f\n  Scenario: s\n    Given g\n    %s\n  @t\n"]
    srcs = []
    for sh in shells:
        r0 = impl.parse(False, "en", sh % "stray")
        msgs = [e["message"] for e in r0.get("errors", [])][1:]
        for m in msgs:
            for quote in (m, "see " + m + " below", m.split(": ", 1)[-1], m[:len(m) // 2]):
                if "\n" not in quote:
                    srcs.append(sh % quote)
    return e2e("messages-quoting-messages", srcs, P.p_errors, modes=(False, True), nontrivial=nt_rejected, exhaustive=True)


for _pid in ("C14", "C12", "C01", "C18"):
    P.PROPS[_pid]["streams"].append(c14_messages_quoting_messages)


def c13_background_arguments_in_outlines(ctx):
    """the arguments of Background steps (feature level and rule level) reach every pickle as written: a doc string or
    a table in a Background that spells a placeholder of a later Scenario Outline -- in its content, its media type, its
    cells -- is not interpolated; the outline's own arguments are"""
    srcs = []
    for d in ('"""', "```"):
        for lvl in ("feature", "rule", "both"):
            fb = "  Background:\n    Given fb <a>\n      %s<a>\n      Dear <a>, <b> <c>\n      %s\n    And ft\n      | <a> | <b> |\n" % (d, d)
            rb = "    Background:\n      Given rb <a>\n        %s\n        rule <a>\n        %s\n" % (d, d)
            out = "    Scenario Outline: o <a>\n      Given own <a>\n        %s<b>\n        own <a> <b>\n        %s\n      Examples:\n        | a | b |\n        | 1 | 2 |\n        | x | y |\n    Scenario: plain <a>\n      Given p <a>\n" % (d, d)
            if lvl == "feature":
                srcs.append("Feature: f\n" + fb + out)
            elif lvl == "rule":
                srcs.append("Feature: f\n  Rule: r\n" + rb + out)
            else:
                srcs.append("Feature: f\n" + fb + "  Rule: r\n" + rb + out + "  Rule: r2\n" + out)
    reqs = [("events", [False, True, True, False, [["u.feature", s]]]) for s in srcs]
    return differential("background-arguments-in-outlines", reqs, nontrivial=lambda q, x: canon(q[1])[:160] if x.get("envelopes") else None,
                        classify=lambda q, x: "doc", exhaustive=True)


for _pid in ("C13", "C07", "C09"):
    P.PROPS[_pid]["streams"].append(c13_background_arguments_in_outlines)


def c16_docstring_blank_widths(ctx):
    """whitespace-only lines inside a doc string, of every width from nothing to two beyond the delimiter's indentation
    (0 .. 8), made of blanks or tabs, as first, inner and last content line: the content is the line minus the
    delimiter's indentation (nothing when the line is shorter), the same with LF and with CRLF line endings, with and
    without a final line break"""
    srcs = []
    for d in ('"""', "```"):
        for k in range(0, 9):
            ind = " " * k
            for w in range(0, k + 3):
                for ch in (" ", "\t"):
                    if ch == "\t" and w not in (k - 1, k, k + 1):
                        continue
                    line = ch * w
                    body = "Feature: f\n  Scenario: s\n    Given g\n%s%s\n%s\n%sa\n%s\n%sb\n%s\n%s%s\n    And h\n" % (ind, d, line, ind, line, ind, line, ind, d)
                    srcs += [body, body.replace("\n", "\r\n")]
                    if w == k:
                        srcs += [body.rstrip("\n"), body.replace("\n", "\r\n")[:-2]]
    return e2e("docstring-blank-widths", srcs, P.p_whole, modes=(False,), nontrivial=nt_accepted("ast"), exhaustive=True)


for _pid in ("C16", "C13"):
    P.PROPS[_pid]["streams"].append(c16_docstring_blank_widths)
