"""Correspondence engine: run the same requests on the extracted model and on the
implementation, compare projections, shrink, and collect coverage counters."""
from __future__ import annotations

import json
import multiprocessing as mp
import os
import random
import time

from common import JOBS
from model import run_model


def _impl_worker(chunk):
    import impl
    out = []
    for f, a in chunk:
        try:
            out.append(impl.run_impl(f, a))
        except RecursionError:
            out.append({"foreign": "RecursionError"})
    return out


_POOL = None


def pool():
    global _POOL
    if _POOL is None:
        ctx = mp.get_context("fork")
        _POOL = ctx.Pool(JOBS)
    return _POOL


def run_impl_batch(requests, parallel=True):
    if not requests:
        return []
    if not parallel or len(requests) < 64:
        return _impl_worker(requests)
    k = min(JOBS * 4, max(1, len(requests) // 32))
    size = (len(requests) + k - 1) // k
    chunks = [requests[i:i + size] for i in range(0, len(requests), size)]
    outs = pool().map(_impl_worker, chunks)
    return [x for o in outs for x in o]


def canon(v):
    return json.dumps(v, sort_keys=True, ensure_ascii=True)


class Corr:
    """Result of one correspondence stream."""

    def __init__(self, name):
        self.name = name
        self.evaluations = 0
        self.nontrivial = set()
        self.samples = []
        self.disagreements = []     # dicts: request, impl, model
        self.dist = {}
        self.exhaustive = False
        self.wall = 0.0

    def count(self, key, n=1):
        self.dist[key] = self.dist.get(key, 0) + n

    def summary(self):
        return {"stream": self.name, "evaluations": self.evaluations,
                "distinct_nontrivial": len(self.nontrivial), "disagreements": len(self.disagreements),
                "distribution": dict(sorted(self.dist.items())), "exhaustive": self.exhaustive,
                "wall_s": round(self.wall, 2)}


def differential(name, requests, proj=None, nontrivial=None, classify=None, sample_n=3, exhaustive=False):
    """requests: list of (fname, args).  proj(result, request) -> comparable projection.
    nontrivial(request, impl_result) -> hashable key or None.  classify -> distribution key(s)."""
    t0 = time.time()
    c = Corr(name)
    c.exhaustive = exhaustive
    mres = run_model(requests)
    ires = run_impl_batch(requests)
    for req, m, i in zip(requests, mres, ires):
        c.evaluations += 1
        pm = proj(m, req) if proj else m
        pi = proj(i, req) if proj else i
        if canon(pm) != canon(pi):
            c.disagreements.append({"request": [req[0], list(req[1])], "impl": pi, "model": pm})
        if nontrivial:
            k = nontrivial(req, i)
            if k is not None:
                c.nontrivial.add(k)
        if classify:
            ks = classify(req, i)
            for k in ([ks] if isinstance(ks, str) else ks or []):
                c.count(k)
    step = max(1, len(requests) // sample_n)
    c.samples = [{"request": [r[0], list(r[1])]} for r in requests[::step][:sample_n]]
    c.wall = time.time() - t0
    return c


def shrink_text(src, fails, budget=400):
    """Greedy shrink of a source text: drop lines, then characters, while `fails(src)` holds."""
    calls = 0

    def ok(s):
        nonlocal calls
        calls += 1
        return calls <= budget and fails(s)
    lines = src.split("\n")
    changed = True
    while changed and calls < budget:
        changed = False
        i = 0
        while i < len(lines) and calls < budget:
            cand = lines[:i] + lines[i + 1:]
            if cand and ok("\n".join(cand)):
                lines = cand
                changed = True
            else:
                i += 1
    s = "\n".join(lines)
    i = 0
    while i < len(s) and calls < budget:
        cand = s[:i] + s[i + 1:]
        if ok(cand):
            s = cand
        else:
            i += 1
    return s


def rng(salt=""):
    from common import SEED
    return random.Random("%d/%s" % (SEED, salt))
