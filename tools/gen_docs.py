"""Document model -> source text + the AST the text is intended to have (an
opinion independent of both the Coq model and the implementation), plus a
malformed-document stream.  All random choices derive from one seed."""
import json
import os
import random

from common import REPO

with open(os.path.join(REPO, "gherkin-languages.json"), encoding="utf8") as _f:
    DIALECTS = json.load(_f)
LANGS = ['en', 'en', 'fr', 'sk', 'em', 'zh-CN', 'ht', 'en-tx', 'ar', 'ja', 'de', 'en-old', 'ru', 'th']
WORDS=['alpha','béta','😀x','a b','x<y>','<p>','1','Given','Scenario:','@t','#h','|c|','"""','q\\n','z']
BL=[' ','  ','\t','\xa0',' \t']
class G:
    def __init__(s,seed):
        s.r=random.Random(seed); s.lines=[]; s.id=0; s.comments=[]
    def nid(s): s.id+=1; return str(s.id-1)
    def ind(s): return ''.join(s.r.choice([' ',' ','  ','\t']) for _ in range(s.r.randint(0,3)))
    def trail(s): return s.r.choice(['','',' ','  ','\t'])
    def emit(s,text):
        s.lines.append(text); return len(s.lines)
    def noise(s):
        while s.r.random()<0.25:
            if s.r.random()<0.5: s.emit(s.r.choice(['','  ','\t']))
            else:
                t=s.ind()+'#'+s.r.choice([' c',' language: xx? no','x'])
                ln=s.emit(t); s.comments.append({'location':{'line':ln,'column':1},'text':t})
    def text(s,allow_empty=True):
        n=s.r.randint(0 if allow_empty else 1,3)
        return ' '.join(s.r.choice(WORDS) for _ in range(n)).strip()
    def tags(s):
        out=[]
        for _ in range(s.r.choice([0,0,1,2])):
            ind=s.ind(); line=ind; col=len(ind)+1; pend=[]
            for i in range(s.r.randint(1,3)):
                name='@'+s.r.choice(['a','b😀','c-d','e#f','x:y'])
                pend.append((col,name)); line+=name
                sp=s.r.choice([' ','  ','\t'])
                line+=sp; col+=len(name)+len(sp)
            if s.r.random()<0.3: line+='#cmt @no'
            ln=s.emit(line)
            for c,nm in pend: out.append([ln,c,nm])
            s.noise()
        return out
    def fin_tags(s,tl): return [{'id':s.nid(),'location':{'line':l,'column':c},'name':n} for l,c,n in tl]
    def desc(s,stop_kinds):
        # description lines that must not look like what ends it; keep simple: words never starting with keywords handled by caller
        if s.r.random()<0.6: return ''
        ls=[]
        for _ in range(s.r.randint(1,3)):
            t=s.ind()+s.r.choice(['free text','more 😀 text','\\ odd | line','esc \\`\\`\\` and \\"\\"\\" kept','Given in feature desc' if 'step' not in stop_kinds else 'plain'])+s.trail()
            s.emit(t); ls.append(t)
            if s.r.random()<0.3:
                c=s.ind()+'# in desc'; ln=s.emit(c); s.comments.append({'location':{'line':ln,'column':1},'text':c})
            if s.r.random()<0.2: s.emit(''); ls.append('')
        while ls and ls[-1].strip()=='': ls.pop()
        return '\n'.join(ls)
    def cellraw(s):
        v=s.r.choice(['a','','b c','é😀','x|y','back\\slash','new\nline','<p>','q\\x',' '.strip()])
        raw=v.replace('\\','\\\\').replace('|','\\|').replace('\n','\\n') if s.r.random()<0.8 or '\n' in v or '|' in v or '\\' in v else v
        return v,raw
    def table(s,ncols=None,nrows=None):
        ncols=ncols or s.r.randint(1,3); nrows=nrows if nrows is not None else s.r.randint(1,3)
        rows=[]
        for _ in range(nrows):
            ind=s.ind(); line=ind+'|'; cells=[]
            for _ in range(ncols):
                v,raw=s.cellraw()
                l=s.r.choice(['',' ','  ']); r_=s.r.choice(['',' ','  '])
                col=len(line)+len(l)+1+(len(r_) if raw=='' else 0)
                cells.append((col,v)); line+=l+raw+r_+'|'
            line+=s.trail()
            ln=s.emit(line); rows.append((ln,len(ind)+1,cells)); s.noise_row()
        return rows
    def noise_row(s):
        if s.r.random()<0.15:
            c=s.ind()+'# between rows'; ln=s.emit(c); s.comments.append({'location':{'line':ln,'column':1},'text':c})
        if s.r.random()<0.15: s.emit('')
    def fin_rows(s,rows):
        return [{'id':s.nid(),'location':{'line':ln,'column':c},'cells':[{'location':{'line':ln,'column':cc},'value':v} for cc,v in cells]} for ln,c,cells in rows]
    def step(s,d,first):
        cats=['given','when','then','and','but']; cat=s.r.choice(cats)
        kw=s.r.choice(d[cat]); allk=[k for c in cats for k in d[c]]
        text=s.text(False)
        # ensure first-match keyword is kw
        cand=[k for k in allk if (kw+text).startswith(k)]
        if cand[0]!=kw: kw=cand[0]; 
        rest=(kw+text)[len(kw):] if False else text
        cnt=sum(1 for c in cats for k in d[c] if k==kw)
        typ='Unknown' if cnt>1 else {'given':'Context','when':'Action','then':'Outcome','and':'Conjunction','but':'Conjunction'}[[c for c in cats if kw in d[c]][0]]
        ind=s.ind(); ln=s.emit(ind+kw+text+s.trail())
        st={'location':{'line':ln,'column':len(ind)+1},'keyword':kw,'keywordType':typ,'text':text.strip()}
        s.noise()
        a=s.r.random()
        if a<0.25:
            rows=s.table(); st['_rows']=rows
        elif a<0.5:
            delim=s.r.choice(['"""','```']); ind2=s.ind(); mt=s.r.choice(['','','json',' text/x '])
            ln2=s.emit(ind2+delim+mt+s.trail()); content=[]
            for _ in range(s.r.randint(0,4)):
                body=s.r.choice(['plain','Given x','@tag','# not comment','| a |','','  indented','Scenario: no','```' if delim=='"""' else '"""','\\"\\"\\"' if delim=='"""' else '\\`\\`\\`','Feature: f'])
                extra=s.r.choice(['','  ','\t'])
                s.emit(ind2+extra+body if body else s.r.choice(['',ind2]))
                b=(extra+body) if body else ''
                b=b.replace('\\"\\"\\"','"""') if delim=='"""' else b.replace('\\`\\`\\`','```')
                content.append(b)
            s.emit(s.ind()+delim+s.trail())
            ds={'location':{'line':ln2,'column':len(ind2)+1},'content':'\n'.join(content),'delimiter':delim}
            if mt.strip(): ds['mediaType']=mt.strip()
            st['docString']=ds; s.noise()
        return st
    def fin_step(s,st):
        st=dict(st)
        if '_rows' in st:
            rows=s.fin_rows(st.pop('_rows')); st['dataTable']={'location':rows[0]['location'],'rows':rows}
        st['id']=s.nid(); return st
    def steps(s,d,n=None):
        return [s.step(d,i==0) for i in range(n if n is not None else s.r.randint(0,3))]
    def title(s,d,role):
        kw=s.r.choice(d[role]); name=s.text(); ind=s.ind()
        ln=s.emit(ind+kw+':'+s.r.choice(['',' ','  '])+name+s.trail())
        return {'location':{'line':ln,'column':len(ind)+1},'keyword':kw,'name':name.strip()}
    def background(s,d):
        b=s.title(d,'background'); s.noise_blank(); b['description']=s.desc(['step']); sts=s.steps(d)
        b['steps']=[s.fin_step(x) for x in sts]; b['id']=s.nid(); return b
    def noise_blank(s):
        while s.r.random()<0.2: s.emit('')
    def scenario(s,d):
        tl=s.tags(); outline=s.r.random()<0.5
        sc=s.title(d,'scenarioOutline' if outline and s.r.random()<0.7 else 'scenario'); s.noise_blank(); sc['description']=s.desc(['step'])
        sts=s.steps(d); exs=[]
        if outline:
            for _ in range(s.r.randint(1,3)):
                etl=s.tags(); ex=s.title(d,'examples'); s.noise_blank(); ex['description']=s.desc(['row'])
                rows=s.table(nrows=s.r.choice([0,1,2,3])) if True else []
                exs.append((etl,ex,rows))
        sc['steps']=[s.fin_step(x) for x in sts]
        fex=[]
        for etl,ex,rows in exs:
            fr=s.fin_rows(rows); ex=dict(ex)
            ex['tags']=s.fin_tags(etl); 
            if fr: ex['tableHeader']=fr[0]
            ex['tableBody']=fr[1:]; ex['id']=s.nid(); fex.append(ex)
        sc['examples']=fex; sc['tags']=s.fin_tags(tl); sc['id']=s.nid(); return sc
    def rule(s,d):
        tl=s.tags(); r=s.title(d,'rule'); s.noise_blank(); r['description']=s.desc(['bg']); ch=[]
        if s.r.random()<0.5: ch.append({'background':s.background(d)})
        for _ in range(s.r.randint(0,2)): ch.append({'scenario':s.scenario(d)})
        r['children']=ch; r['tags']=s.fin_tags(tl); r['id']=s.nid(); return r
    def document(s):
        lang=s.r.choice(LANGS)
        d=DIALECTS[lang]
        if lang!='en' or s.r.random()<0.2: s.emit(s.r.choice(['#language:','# language: ','  #  language :'])+lang+s.trail())
        s.noise()
        tl=s.tags(); f=s.title(d,'feature'); s.noise_blank(); f['description']=s.desc(['bg']); ch=[]
        if s.r.random()<0.5: ch.append({'background':s.background(d)})
        for _ in range(s.r.randint(0,3)): ch.append({'scenario':s.scenario(d)})
        for _ in range(s.r.choice([0,0,1,2])): ch.append({'rule':s.rule(d)})
        f['children']=ch; f['tags']=s.fin_tags(tl); f['language']=lang
        nl=s.r.choice(['\n','\n','\r\n'])
        src=nl.join(s.lines)+(nl if s.r.random()<0.8 else '')
        return src,{'feature':f,'comments':s.comments}


def gen_document(seed):
    """(source text, intended AST dict)"""
    return G(seed).document()


KIND_LINES = ['a \\`\\`\\` b \\"\\"\\" c', 'Feature: f', 'Rule: r', 'Background:', 'Scenario: s', 'Scenario Outline: o', 'Examples:',
              'Given g', '* star', 'And a', '| a | b |', '| x |', '"""', '```', '@tag', '@a @b', '@bad tag',
              '# comment', '#language: fr', '# language: no-such', '', '   ', 'free text', '\\', '|', '@',
              'Fonctionnalité: x', 'Scénario: y', '\tGiven tab', 'Given', 'Examples: e', '| \\| |']


def mutate(src, r, nfaults=None):
    """Damage a document: delete / duplicate / swap / insert lines of every kind."""
    lines = src.split('\n')
    n = nfaults if nfaults is not None else r.choice([1, 1, 1, 2, 3, 5, 13])
    for _ in range(n):
        op = r.choice(['del', 'dup', 'swap', 'ins', 'ins', 'ins', 'cr'])
        if not lines:
            op = 'ins'
        i = r.randrange(len(lines)) if lines else 0
        if op == 'cr':
            # a stray carriage return: not a line end for io.StringIO (lines end at LF only)
            j = r.randrange(len(lines[i]) + 1)
            lines[i] = lines[i][:j] + r.choice(['\r', '\r\r', '\x0b', '\x0c', '\x85', '\u2028']) + lines[i][j:]
        elif op == 'del':
            del lines[i]
        elif op == 'dup':
            lines.insert(i, lines[i])
        elif op == 'swap' and len(lines) > 1:
            j = r.randrange(len(lines))
            lines[i], lines[j] = lines[j], lines[i]
        else:
            lines.insert(i, r.choice(['', ' ', '    ']) + r.choice(KIND_LINES))
    return '\n'.join(lines)


def corpus_files():
    import glob
    out = []
    for d in ('good', 'bad'):
        for f in sorted(glob.glob(os.path.join(REPO, 'testdata', d, '*.feature'))):
            with open(f, encoding='utf8', newline='') as fh:
                out.append((d, os.path.basename(f), fh.read()))
    return out
