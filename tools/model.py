"""Client for the extracted model (coq/extract/gmodel): wire format and batching."""
from __future__ import annotations

import subprocess
from concurrent.futures import ThreadPoolExecutor

from common import GMODEL, JOBS


class S(str):
    """marker: nothing special, plain str is a wire string"""


def enc(v) -> str:
    if v is None:
        return "N"
    if v is True:
        return "T"
    if v is False:
        return "F"
    if isinstance(v, int):
        assert v >= 0
        return str(v)
    if isinstance(v, str):
        return "s[" + ",".join(str(ord(c)) for c in v) + "]"
    if isinstance(v, (list, tuple)):
        return "[" + ",".join(enc(x) for x in v) + "]"
    if isinstance(v, dict):
        return "{" + ",".join(k + ":" + enc(x) for k, x in v.items()) + "}"
    raise TypeError(type(v))


def dec(s: str):
    pos = 0
    n = len(s)

    def number():
        nonlocal pos
        st = pos
        while pos < n and s[pos].isdigit():
            pos += 1
        return int(s[st:pos])

    def value():
        nonlocal pos
        c = s[pos]
        if c == "N":
            pos += 1
            return None
        if c == "T":
            pos += 1
            return True
        if c == "F":
            pos += 1
            return False
        if c == "s":
            pos += 2
            out = []
            if s[pos] == "]":
                pos += 1
                return ""
            while True:
                out.append(chr(number()))
                if s[pos] == ",":
                    pos += 1
                else:
                    pos += 1
                    return "".join(out)
        if c == "[":
            pos += 1
            out = []
            if s[pos] == "]":
                pos += 1
                return out
            while True:
                out.append(value())
                if s[pos] == ",":
                    pos += 1
                else:
                    pos += 1
                    return out
        if c == "{":
            pos += 1
            out = {}
            if s[pos] == "}":
                pos += 1
                return out
            while True:
                st = pos
                while s[pos] != ":":
                    pos += 1
                key = s[st:pos]
                pos += 1
                out[key] = value()
                if s[pos] == ",":
                    pos += 1
                else:
                    pos += 1
                    return out
        return number()

    v = value()
    assert pos == n, (pos, n, s[:80])
    return v


def _run_chunk(lines):
    p = subprocess.run(["bash", "-c", "ulimit -s unlimited 2>/dev/null; exec " + GMODEL],
                       input="\n".join(lines) + "\n", capture_output=True, text=True)
    out = p.stdout.split("\n")
    if out and out[-1] == "":
        out.pop()
    if len(out) != len(lines):
        raise RuntimeError("gmodel answered %d of %d requests (rc=%s): %s" % (len(out), len(lines), p.returncode, p.stderr[-400:]))
    return out


def run_model(requests, jobs=JOBS):
    """requests: list of (fname, [args]); returns decoded results in order."""
    lines = [f + " " + enc(list(a)) for f, a in requests]
    if not lines:
        return []
    k = max(1, min(jobs, (len(lines) + 49) // 50))
    size = (len(lines) + k - 1) // k
    chunks = [lines[i:i + size] for i in range(0, len(lines), size)]
    with ThreadPoolExecutor(max_workers=k) as ex:
        outs = list(ex.map(_run_chunk, chunks))
    return [dec(x) for o in outs for x in o]


def request_line(fname, args):
    return fname + " " + enc(list(args))
