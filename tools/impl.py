"""Drivers for the real implementation, returning results in the same shape the
model's Json.v produces (so they can be compared key by key)."""
from __future__ import annotations

import copy

from common import use_repo

use_repo()

from gherkin.ast_builder import AstBuilder            # noqa: E402
from gherkin.errors import CompositeParserException, ParserException, ParserError  # noqa: E402
from gherkin.gherkin_line import GherkinLine          # noqa: E402
from gherkin.parser import Parser                     # noqa: E402
from gherkin.pickles.compiler import Compiler         # noqa: E402
from gherkin.stream.gherkin_events import GherkinEvents  # noqa: E402
from gherkin.stream.id_generator import IdGenerator   # noqa: E402
from gherkin.token import Token                       # noqa: E402
from gherkin.token_formatter_builder import TokenFormatterBuilder  # noqa: E402
from gherkin.token_matcher import TokenMatcher        # noqa: E402
from gherkin.token_scanner import TokenScanner        # noqa: E402
import io                                             # noqa: E402


class StringScanner(TokenScanner):
    """TokenScanner over a string, never touching the file system (K1)."""

    def __init__(self, text):
        self.io = io.StringIO(text)
        self.line_number = 0


def source_arg(text):
    """what the harness hands to Parser.parse: the text itself (so that Parser.parse and TokenScanner's own
    string branch run), unless the text happens to name an existing file system entry (known finding K1)"""
    import os
    try:
        exists = os.path.exists(text)
    except Exception:  # noqa
        exists = False
    return StringScanner(text) if exists else text


class CountingIdGen:
    """duck-typed id generator owned by the harness (the documented interface is get_next_id)"""

    def __init__(self, start=0):
        self.n = start

    def get_next_id(self):
        r = str(self.n)
        self.n += 1
        return r


def read_counter(g, fallback=None):
    if isinstance(g, CountingIdGen):
        return g.n
    v = getattr(g, "_id_counter", None)
    return v if isinstance(v, int) else fallback


class CountingMatcher(TokenMatcher):
    def __init__(self, *a, **k):
        super().__init__(*a, **k)
        self.calls = 0


def _counting(name):
    orig = getattr(TokenMatcher, name)

    def f(self, token):
        self.calls += 1
        return orig(self, token)
    return f


for _n in dir(TokenMatcher):
    if _n.startswith("match_"):
        setattr(CountingMatcher, _n, _counting(_n))


def err_json(e):
    return {"type": type(e).__name__, "location": dict(e.location), "message": str(e)}


def mstate_json(m):
    return {"default": m._default_dialect_name, "dialect": m.dialect_name,
            "separator": m._active_doc_string_separator, "indent": m._indent_to_remove}


def foreign(e):
    return {"foreign": type(e).__name__, "text": str(e)[:200]}


def parse_with(parser, matcher, idgen, stop, src):
    """One Parser.parse call; returns the model's j_presult shape."""
    parser.stop_at_first_error = stop
    matcher.calls = 0
    try:
        doc = parser.parse(source_arg(src), matcher)
        out = {"ok": doc}
    except CompositeParserException as e:
        out = {"errors": [err_json(x) for x in e.errors]}
    except ParserException as e:
        out = {"error": err_json(e)}
    except RecursionError:
        raise
    except Exception as e:  # noqa
        return foreign(e)
    out["matcher"] = mstate_json(matcher)
    out["idc"] = read_counter(idgen)
    out["calls"] = matcher.calls
    return out


def parse(stop, dialect, src):
    try:
        m = CountingMatcher(dialect)
    except ParserException:
        return {"nosuchlanguage": None}
    g = CountingIdGen()
    p = Parser(AstBuilder(g))
    return parse_with(p, m, g, stop, src)


def parse_history(dialect, hist):
    m = CountingMatcher(dialect)
    g = CountingIdGen()
    p = Parser(AstBuilder(g))
    out = []
    for stop, src in hist:
        r = parse_with(p, m, g, stop, src)
        out.append(copy.deepcopy(r))
        if "foreign" in r:
            break
    return out


_GEN = CountingIdGen()
_COMPILER = Compiler(_GEN)      # one long-lived Compiler per worker process (reuse across documents is part of the API)


def compile_doc(uri, doc, idc):
    _GEN.n = idc
    d = copy.deepcopy(doc)
    d["uri"] = uri
    try:
        ps = copy.deepcopy(_COMPILER.compile(d))
    except IndexError:
        return {"crash": None}
    except Exception as e:  # noqa
        return foreign(e)
    return {"pickles": ps, "idc": _GEN.n}


def events(ps, pa, pp, stop, srcs):
    ge = GherkinEvents(GherkinEvents.Options(print_source=ps, print_ast=pa, print_pickles=pp))
    if stop:
        ge.parser.stop_at_first_error = True
    # keep K1 out of the comparison: the stream API hands the text to Parser.parse(str)
    orig = ge.parser.parse
    ge.parser.parse = lambda s, m=None: orig(source_arg(s), m)
    out = []
    try:
        for uri, data in srcs:
            ev = {"source": {"uri": uri, "data": data, "mediaType": "text/x.cucumber.gherkin+plain"}}
            out.extend(copy.deepcopy(x) for x in ge.enum(ev))
    except Exception as e:  # noqa
        return foreign(e)
    return {"envelopes": out, "idc": read_counter(ge.id_generator)}


def tokens(dialect, src):
    try:
        m = TokenMatcher(dialect)
    except ParserException:
        return {"nosuchlanguage": None}
    p = Parser(TokenFormatterBuilder())
    try:
        return {"ok": p.parse(source_arg(src), m)}
    except CompositeParserException as e:
        return {"errors": [err_json(x) for x in e.errors]}
    except ParserException as e:
        return {"error": err_json(e)}
    except Exception as e:  # noqa
        return foreign(e)


def table_cells(line):
    try:
        return GherkinLine(line, 1).table_cells
    except Exception as e:  # noqa
        return foreign(e)


def tags(line):
    try:
        return {"ok": GherkinLine(line, 1).tags}
    except ParserException as e:
        return {"error": e.location["column"]}
    except Exception as e:  # noqa
        return foreign(e)


def token_json(t):
    out = {"location": dict(t.location), "indent": getattr(t, "matched_indent", 0),
           "items": getattr(t, "matched_items", []), "dialect": getattr(t, "matched_gherkin_dialect", "")}
    for k, a in (("type", "matched_type"), ("text", "matched_text"), ("keyword", "matched_keyword"),
                 ("keywordType", "matched_keyword_type")):
        v = getattr(t, a, None)
        if v is not None:
            out[k] = v
    return out


def match(kind, ms, line, n):
    m = TokenMatcher(ms["default"])
    if ms["dialect"] != ms["default"]:
        m._change_dialect(ms["dialect"])
    m._active_doc_string_separator = ms["separator"]
    m._indent_to_remove = ms["indent"]
    t = Token(GherkinLine(line, n) if line else line, {"line": n})
    try:
        ans = getattr(m, "match_" + kind)(t)
    except ParserException as e:
        return {"raise": err_json(e), "token": token_json(t), "matcher": mstate_json(m)}
    except Exception as e:  # noqa
        return foreign(e)
    if not ans:
        return {"ans": False}
    return {"ans": True, "token": token_json(t), "matcher": mstate_json(m)}


def match_md(kind, ms, seen, line, n):
    from gherkin.token_matcher_markdown import GherkinInMarkdownTokenMatcher
    m = GherkinInMarkdownTokenMatcher(ms["default"])
    if ms["dialect"] != ms["default"]:
        m._change_dialect(ms["dialect"])
    m.matched_feature_line = seen
    t = Token(GherkinLine(line, n), {"line": n})
    try:
        ans = getattr(m, "match_" + kind)(t)
    except ParserException as e:
        return {"raise": err_json(e)}
    except Exception as e:  # noqa
        return foreign(e)
    out = {"ans": bool(ans), "seen": bool(getattr(m, "matched_feature_line", False))}
    out["token"] = token_json(t) if hasattr(t, "matched_type") else token_json_raw(t)
    return out


def token_json_raw(t):
    return {"location": dict(t.location), "indent": 0, "items": [], "dialect": ""}


def interpolate(name, hs, vs):
    """placeholder substitution through the public API: the name of the pickle of a one-row outline"""
    loc = {"line": 1, "column": 1}
    ex = {"id": "3", "tags": [], "location": loc, "keyword": "Examples", "name": "", "description": "",
          "tableHeader": {"id": "1", "location": loc, "cells": [{"location": loc, "value": h} for h in hs]},
          "tableBody": [{"id": "2", "location": loc, "cells": [{"location": loc, "value": v} for v in vs]}]}
    sc = {"id": "4", "tags": [], "location": loc, "keyword": "Scenario Outline", "name": name, "description": "", "steps": [], "examples": [ex]}
    doc = {"feature": {"tags": [], "location": loc, "language": "en", "keyword": "Feature", "name": "", "description": "",
                       "children": [{"scenario": sc}]}, "comments": []}
    r = compile_doc("u", doc, 5)
    if "pickles" in r:
        if len(r["pickles"]) != 1:
            return {"foreign": "pickles", "text": "%d pickles for a one-row outline" % len(r["pickles"])}
        return {"ok": r["pickles"][0]["name"]}
    return r


FUNCS = {"parse": parse, "parse_history": parse_history, "compile": compile_doc, "events": events,
         "tokens": tokens, "table_cells": table_cells, "tags": tags, "match": match,
         "interpolate": interpolate, "match_md": match_md}


def run_impl(fname, args):
    return FUNCS[fname](*args)


# ---------------------------------------------------------------------------
# kind-level stub: the real Parser driven by a stub scanner / matcher / builder

KINDS = ["EOF", "Empty", "Comment", "TagLine", "FeatureLine", "RuleLine", "BackgroundLine", "ScenarioLine",
         "ExamplesLine", "StepLine", "DocStringSeparator", "TableRow", "Language", "Other"]
RULES = ["GherkinDocument", "Feature", "FeatureHeader", "Rule", "RuleHeader", "Background", "ScenarioDefinition",
         "Scenario", "ExamplesDefinition", "Examples", "ExamplesTable", "Step", "DataTable", "DocString", "Tags",
         "Description"]


class _StubLine:
    indent = 0

    def __init__(self, kind):
        self.kind = kind

    def get_line_text(self, *a):
        return self.kind


class StubToken:
    def __init__(self, kind, n):
        self.kind = kind
        self.n = n
        self.line = None if kind == "EOF" else _StubLine(kind)
        self.location = {"line": n}
        self.matched_as = None

    def eof(self):
        return self.kind == "EOF"

    @property
    def detach(self):
        return None

    def token_value(self):
        return "EOF" if self.eof() else self.kind


class StubScanner:
    def __init__(self, kinds, first=1):
        self.kinds = list(kinds)
        self.n = first - 1

    def read(self):
        self.n += 1
        if self.kinds:
            return StubToken(self.kinds.pop(0), self.n)
        return StubToken("EOF", self.n)


def stub_answers(test, kind):
    return kind == test or (test == "Other" and kind != "EOF") or (kind == "Language" and test == "Comment")


class StubMatcher:
    def __init__(self):
        self.calls = 0

    def reset(self):
        pass


def _stub_match(test):
    def f(self, token):
        self.calls += 1
        if stub_answers(test, token.kind):
            token.matched_as = test
            return True
        return False
    return f


for _k in KINDS:
    setattr(StubMatcher, "match_" + _k, _stub_match(_k))


class StubBuilder:
    def __init__(self):
        self.events = []

    def reset(self):
        self.events = []

    def start_rule(self, r):
        self.events.append(["S", RULES.index(r)])

    def end_rule(self, r):
        self.events.append(["E", RULES.index(r)])

    def build(self, token):
        self.events.append(["B", token.n, token.matched_as])

    def get_result(self):
        return None


def _stub_errors(errs):
    out = []
    for e in errs:
        msg = str(e)
        exp = msg.split("expected: ", 1)[1].split(", got '")[0].split(", ")
        out.append([e.location["line"], [x.lstrip("#") for x in exp]])
    return out


def _stub_ctx(builder, matcher, context, scanner):
    return {"events": builder.events, "queue": [t.n for t in context.token_queue] if context else [],
            "lineno": scanner.n, "nerrs": len(context.errors) if context else 0,
            "errors": _stub_errors(context.errors) if context else [], "calls": matcher.calls}


def stub_match_token(stop, state, kind, rest):
    from collections import deque
    from gherkin.parser import ParserContext
    b, m, sc = StubBuilder(), StubMatcher(), StubScanner(rest, first=2)
    sc.n = 1
    p = Parser(b)
    p.stop_at_first_error = stop
    try:
        ctx = ParserContext(token_scanner=sc, token_matcher=m, token_queue=deque(), errors=[])
    except TypeError:
        ctx = ParserContext(sc, m, deque(), [])
    tok = StubToken(kind, 1)
    try:
        s = p.match_token(state, tok, ctx)
        out = {"ok": s}
    except CompositeParserException as e:
        out = {"raisec": len(e.errors)}
    except ParserException as e:
        out = {"raise1": e.location["line"]}
    except RuntimeError:
        out = {"crash": None}
    out.update(_stub_ctx(b, m, ctx, sc))
    return out


def stub_run(stop, kinds):
    """Parser.parse over a kind sequence; the context is captured through the matcher."""
    b, m, sc = StubBuilder(), StubMatcher(), StubScanner(kinds)
    p = Parser(b)
    p.stop_at_first_error = stop
    captured = {}
    orig = p.match_token

    def spy(state, token, context):
        captured["ctx"] = context
        return orig(state, token, context)
    p.match_token = spy
    try:
        p.parse(sc, m)
        out = {"ok": None}
    except CompositeParserException as e:
        out = {"raisec": len(e.errors)}
    except ParserException as e:
        out = {"raise1": e.location["line"]}
    except RuntimeError:
        out = {"crash": None}
    out.update(_stub_ctx(b, m, captured.get("ctx"), sc))
    return out


FUNCS.update({"stub_match_token": stub_match_token, "stub_run": stub_run})
