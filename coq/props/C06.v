(* C06 — one pickle per scenario without examples and per body row of each examples
   table that has a header, in document order.  Statements only. *)
From Coq Require Import String List Bool Arith NArith.
Local Open Scope string_scope.
Local Open Scope list_scope.
Import ListNotations.
Require Import PyStr Matcher Ast Compiler CompilerSpec.

(* the compiler is a map, threaded by the id counter, over the document's units
   (doc_units: scenarios without examples; body rows of examples that have a header), in order *)
Theorem C06_compile_is_map_over_units : forall uri d idc,
  compile uri d idc = tmap (compile_unit uri (doc_language d)) (doc_units d) idc.
Proof. exact compile_is_tmap. Qed.
Print Assumptions C06_compile_is_map_over_units.

(* exactly one pickle per unit, nothing else, pointing back to the scenario (and the row) *)
Theorem C06_sources : forall uri d idc ps i, compile uri d idc = Some (ps, i) ->
  length ps = length (doc_units d) /\ map p_nodes ps = map u_nodes (doc_units d).
Proof. intros uri d idc ps i H. split; [eapply pickles_count | eapply pickles_nodes]; exact H. Qed.
Print Assumptions C06_sources.

(* uri, language, name (row values substituted for an outline) *)
Theorem C06_fields : forall uri d idc ps i, compile uri d idc = Some (ps, i) ->
  Forall (fun p => p_uri p = uri /\ p_language p = doc_language d) ps
  /\ map p_name ps = map u_name (doc_units d).
Proof. intros uri d idc ps i H. split; [eapply pickles_uri_language | eapply pickles_names]; exact H. Qed.
Print Assumptions C06_fields.

(* a scenario without steps still yields its pickle, with no steps *)
Theorem C06_stepless : forall u, sc_steps (u_sc u) = [] -> u_step_nodes u = [].
Proof. intros u H. unfold u_step_nodes. now rewrite (has_steps_false u H). Qed.
Print Assumptions C06_stepless.

(* examples without a header, or with a header and no body rows, yield no unit *)
Theorem C06_empty_examples : forall x ex, (ex_header ex = None \/ ex_body ex = []) -> rows_of x [ex] = [].
Proof. intros x ex [H|H]; unfold rows_of; simpl; rewrite H; [reflexivity|]. destruct (ex_header ex); reflexivity. Qed.
Print Assumptions C06_empty_examples.

(* compile never fails on a document whose example rows are at least as long as their headers
   (what ensure_cell_count guarantees for parser output); this is the only failure there is *)
Theorem C06_compile_total : forall uri d idc,
  Forall rectangular_unit (doc_units d) -> compile uri d idc <> None.
Proof. exact compile_total. Qed.
Print Assumptions C06_compile_total.

(* non-vacuity: a two-scenario document with an outline of two rows yields three pickles *)
Example C06_example :
  let loc := mk_loc 1 (Some 1) in
  let c v := mk_cell loc v in
  let st := mk_step 0 loc [] Context (s2l "a <h>") ArgNone in
  let ex := mk_examples 5 [] loc [] [] [] (Some (mk_row 2 loc [c (s2l "h")])) [mk_row 3 loc [c (s2l "1")]; mk_row 4 loc [c (s2l "2")]] in
  let s1 := mk_scenario 1 [] loc [] (s2l "plain") [] [st] [] in
  let s2 := mk_scenario 6 [] loc [] (s2l "o <h>") [] [st] [ex] in
  let d := mk_document (Some (mk_feature [] loc (s2l "en") [] [] [] [FCScenario s1; FCScenario s2])) [] in
  option_map (fun r => map p_name (fst r)) (compile [] d 7) = Some [s2l "plain"; s2l "o 1"; s2l "o 2"].
Proof. vm_compute. reflexivity. Qed.
