(* C14 — rejected documents: errors at the right place with the right expectation. *)
From Coq Require Import String List Bool Arith.
Local Open Scope string_scope.
Local Open Scope list_scope.
Import ListNotations.
Require Import Kinds Automaton AutoFacts ErrorFacts TableFacts PyStr Line Matcher Builder Pipeline PipelineErrors Table Siblings StopFirst.

(* identical messages are reported once; parsing stops after the eleventh error; a composite
   exception is never empty; a normal return means no error was recorded *)
Theorem C14_dedupe_cap : forall stop toks m b,
  match parse_tokens stop toks m b with
  | Ok _ c => errs c = []
  | RaiseC es c => es = errs c /\ no_dup_msgs es /\ 1 <= length es <= 11
  | _ => True
  end.
Proof. exact pipeline_errors. Qed.
Print Assumptions C14_dedupe_cap.

(* the same for every instance of the interpreter (any matcher, any builder) *)
Theorem C14_dedupe_cap_generic :
  forall {Tok MS BS Err : Type} (P : params Tok MS BS Err) stop toks m b,
  match parse P stop toks m b with
  | Ok _ c => errs c = []
  | RaiseC es c => es = errs c /\ ndm P es /\ 1 <= length es <= S (Automaton.error_cap P)
  | _ => True
  end.
Proof. intros. apply parse_errors. Qed.
Print Assumptions C14_dedupe_cap_generic.

(* the expected-token list printed in state s is the list of the kinds the state tests, in order,
   without repetitions -- and it is the list every sibling implementation prints there *)
Theorem C14_expected : expected_is_tests = true /\ siblings_expected_agree = true.
Proof. exact (conj expected_is_tests_ok siblings_expected_agree_ok). Qed.
Print Assumptions C14_expected.

(* message and location of an unexpected line / unexpected end of file *)
Theorem C14_message : forall t l expected, tk_line t = Some l ->
  e_msg (unexpected t expected)
  = loc_prefix (e_loc (unexpected t expected)) ++ s2l "expected: " ++ join (s2l ", ") (map kind_str expected)
    ++ s2l ", got '" ++ strip (l_trimmed l) ++ s2l "'".
Proof. exact unexpected_token_message. Qed.
Print Assumptions C14_message.
Theorem C14_location : forall t l expected, tk_line t = Some l ->
  loc_line (e_loc (unexpected t expected)) = loc_line (tk_loc t)
  /\ (loc_col (tk_loc t) = None -> loc_col (e_loc (unexpected t expected)) = Some (l_indent l + 1)).
Proof. exact unexpected_token_location. Qed.
Print Assumptions C14_location.
Theorem C14_eof_message : forall t expected, tk_line t = None ->
  e_msg (unexpected t expected)
  = loc_prefix (tk_loc t) ++ s2l "unexpected end of file, expected: " ++ join (s2l ", ") (map kind_str expected)
  /\ e_loc (unexpected t expected) = tk_loc t.
Proof. exact unexpected_eof_message. Qed.
Print Assumptions C14_eof_message.

(* recovery: the error tail of every state returns the state itself *)
Theorem C14_recovery : error_stays Table.table = true.
Proof. exact error_stays_ok. Qed.
Print Assumptions C14_recovery.
Theorem C14_recovery_step : forall stop s t c x t' c1,
  find_state (pipeline_params Table.table) s = Some x ->
  run_tests (pipeline_params Table.table) stop (s_tests x) t c = Ok (None, t') c1 ->
  match_token (pipeline_params Table.table) false s t c
  = (if stop then match_token (pipeline_params Table.table) false s t c
     else bind (add_error (pipeline_params Table.table) (unexpected t' (s_expected x)) (emit (EvX t' s) c1))
               (fun _ c3 => Ok (s_id x) c3)).
Proof. exact unexpected_stays. Qed.
Print Assumptions C14_recovery_step.

(* stop-at-first-error mode raises precisely the first error that collecting mode lists: every source
   text, any matcher / builder state (the two runs coincide up to the first error; the collecting run
   only ever appends to its list) *)
Theorem C14_stop_first : forall m b src es m1 b1 n, parse_source false m b src = PErrs es m1 b1 n ->
  exists e l m2 b2 n2, es = e :: l /\ parse_source true m b src = PErr1 e m2 b2 n2.
Proof. exact source_stop_first. Qed.
Print Assumptions C14_stop_first.

(* ... and accepts exactly the same documents, with the same result *)
Theorem C14_stop_accepts : forall m b src d m1 b1 n, parse_source true m b src = POk d m1 b1 n ->
  parse_source false m b src = POk d m1 b1 n.
Proof. exact source_stop_accepts. Qed.
Print Assumptions C14_stop_accepts.

(* every error lies within the document: at one of its physical lines, or -- the end of file -- one line past the
   last; for the collected list as for the single error of stop mode.  (Generic part ErrorsWithin.v: every error
   a parse reports was raised by the matcher on a scanned token, by the builder on tokens it was given, or is the
   `unexpected` error of a token logged as unexpected; the delivery theorem of C18 bounds the latter.) *)
Require Import PipelineFacts ErrorsWithinInst.
Theorem C14_errors_within : forall stop m b src, wf_ms m ->
  let n := length (py_lines src) in
  match parse_source stop m b src with
  | PErrs es _ _ _ => Forall (fun e => 1 <= loc_line (e_loc e) <= S n) es
  | PErr1 e _ _ _ => 1 <= loc_line (e_loc e) <= S n
  | _ => True
  end.
Proof. exact errors_within. Qed.
Print Assumptions C14_errors_within.

(* the faults: every error a parse reports is a tag-with-whitespace error, an unknown-language error, a
   ragged-table error (each with its own '(line:column): ' prefix), or the `unexpected` error of a line (or the
   end of file) that the parser logged as unexpected in the state it was in *)
Theorem C14_error_origins : forall stop m b src,
  let ok (c : pctx) e := fault e \/ exists t s exp, In (Automaton.EvX t s) (Automaton.log c) /\ e = unexpected t exp in
  match parse_tokens stop (scan src) m b with
  | Automaton.Raise1 e c => ok c e
  | Automaton.RaiseC es c => Forall (ok c) es
  | _ => True
  end.
Proof. exact error_origins. Qed.
Print Assumptions C14_error_origins.

Require Import Regex Grammar RefSem Stub DeliveryInst ErrorPos ErrorPosInst ErrorPosStub.

(* "Rejected exactly when some line (or the end of file) cannot continue a sentence of the grammar ... reported at its own
   line", at the level of line kinds (the interpreter over the regenerated table with the kind-level matcher; the real
   matcher is tied to it by correspondence): in stop-at-first-error mode the error is raised on the token of the first
   line i such that the lines before it can still be continued to a sentence of gherkin.berp (`runR G`, the reference
   recogniser) while the lines up to and including it cannot, whatever follows.  The look-aheads answer from lines the
   machine has not reached, so the walk on the real document and on a hypothetical continuation may take different
   branches; ErrorPos.v shows that they can differ only while blank lines, comments and tag lines follow a tag line, where
   nothing is ever unexpected (closure certificate over the regenerated table), and that whether a line is unexpected
   never depends on a look-ahead (every guarded test is followed by an unguarded one for the same kinds).  The token
   carries its line number: `stub_all w` numbers the lines from 1 and ends with the end-of-file token. *)
Theorem C14_first_error_where_the_sentence_breaks : forall w, Forall (fun k => k <> KEOF) w ->
  match Stub.run true w with
  | Raise1 err _ =>
    exists i, fst err = nth i (stub_all w) (KEOF, 0)
              /\ (forall u, runR G (firstn (S i) (w ++ [KEOF]) ++ u) = false)
              /\ (exists u, runR G (firstn i w ++ u) = true)
  | Ok _ _ => True
  | _ => False
  end.
Proof. exact stub_first_error_exact. Qed.
Print Assumptions C14_first_error_where_the_sentence_breaks.

(* ... and the default, error-collecting mode lists that error first (C14_stop_first, generic) *)
Theorem C14_first_listed_error_where_the_sentence_breaks : forall w es c, Forall (fun k => k <> KEOF) w ->
  Stub.run false w = RaiseC es c ->
  exists err l i, es = err :: l /\ fst err = nth i (stub_all w) (KEOF, 0)
              /\ (forall u, runR G (firstn (S i) (w ++ [KEOF]) ++ u) = false)
              /\ (exists u, runR G (firstn i w ++ u) = true).
Proof. exact stub_first_error_collecting. Qed.
Print Assumptions C14_first_listed_error_where_the_sentence_breaks.

(* the position itself, as a function of the kinds: neither early nor late *)
Theorem C14_first_stuck : forall w i, first_stuck w = Some i ->
  (forall u, runR G (firstn (S i) (w ++ [KEOF]) ++ u) = false) /\ (exists u, runR G (firstn i w ++ u) = true).
Proof. intros w i D. split; [exact (first_stuck_not_early w i D) | exact (first_stuck_not_late w i D)]. Qed.
Print Assumptions C14_first_stuck.

Example C14_first_stuck_sample :
  first_stuck [KFeatureLine; KScenarioLine; KStepLine; KTagLine; KComment; KEmpty; KOther; KScenarioLine] = Some 6
  /\ first_stuck [KFeatureLine; KScenarioLine; KStepLine; KTagLine; KComment; KEmpty; KTagLine] = Some 7
  /\ first_stuck [KFeatureLine; KScenarioLine; KStepLine; KTagLine; KComment; KScenarioLine] = None
  /\ match Stub.run true [KFeatureLine; KScenarioLine; KStepLine; KTagLine; KComment; KEmpty; KOther; KScenarioLine] with
     | Raise1 err _ => fst err = (KOther, 7)
     | _ => False
     end.
Proof. vm_compute. repeat split. Qed.
