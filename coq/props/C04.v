(* C04 — every reported location is the exact 1-based line and code-point column. *)
From Coq Require Import String List Bool Arith NArith.
Import ListNotations.
Require Import Kinds Automaton PyStr Line Matcher Ast Builder Pipeline PipelineFacts CellsSpec LocationFacts DeliveryInst PipelineErrors Delivery Table ConserveDefs LocationsAst.

(* lines: the source is cut after each line feed (and only there); pieces are numbered from 1 and
   every token delivered to the builder carries the number of its own piece (C18_delivery) *)
Theorem C04_lines : forall s, concat (py_lines s) = s /\ Forall one_line (py_lines s).
Proof. intros s. split; [apply py_lines_concat | apply py_lines_one_line]. Qed.
Print Assumptions C04_lines.
Theorem C04_line_numbers : forall stop m b src, wf_ms m ->
  match parse_tokens stop (scan src) m b with
  | Ok _ c => delivered _ tkey c = source_keys src
  | _ => True
  end.
Proof. intros stop m b src W. pose proof (source_delivery stop m b src W) as D. destruct (parse_tokens stop (scan src) m b); auto. Qed.
Print Assumptions C04_line_numbers.

(* columns count code points: reading the physical line at (indent + 1) gives the trimmed text, and a
   match without explicit indent reports column indent + 1 (keyword lines, steps, tag lines, rows, delimiters) *)
Theorem C04_indent : forall text n,
  skipn (l_indent (make_line text n)) (l_text (make_line text n)) = l_trimmed (make_line text n).
Proof. exact indent_points_at_trimmed. Qed.
Print Assumptions C04_indent.
Theorem C04_keyword_col : forall m t ty text kw kt items l, tk_line t = Some l ->
  loc_col (tk_loc (set_matched m t ty text kw kt None items)) = Some (l_indent l + 1).
Proof. exact matched_column. Qed.
Print Assumptions C04_keyword_col.

(* tags: each reported tag stands in the line at its column, is '@' + name and contains no whitespace *)
Theorem C04_tags : forall l res c v,
  line_startswith l [AT] = true -> line_tags l = TagsOk res -> In (c, v) res ->
  exists pre post, l_trimmed l = pre ++ v ++ post /\ c = l_indent l + 1 + length pre
                   /\ (exists name, v = AT :: name) /\ existsb is_space v = false.
Proof. exact line_tags_columns. Qed.
Print Assumptions C04_tags.

(* cells: the column points at the first non-blank character of the raw cell (the closing pipe for
   an all-blank cell); the value is the unescaped raw text from there, right-trimmed *)
Theorem C04_cells : forall l c v, In (c, v) (table_cells l) ->
  let row := strip (l_trimmed l) in
  exists seg' rest, skipn (c - 1 - l_indent l) row = raws seg' ++ rest
    /\ (rest = [] \/ exists q, rest = PIPE :: q)
    /\ v = rdrop_while is_blank (vals seg')
    /\ (match vals seg' with [] => True | x :: _ => is_blank x = false end).
Proof. exact table_cell_columns. Qed.
Print Assumptions C04_cells.

(* errors: an unexpected line is located at (its line, indent + 1), an unexpected end of file at the
   EOF token's line; the message starts with that position *)
Theorem C04_error_location : forall t l expected, tk_line t = Some l ->
  loc_line (e_loc (unexpected t expected)) = loc_line (tk_loc t)
  /\ (loc_col (tk_loc t) = None -> loc_col (e_loc (unexpected t expected)) = Some (l_indent l + 1)).
Proof. exact unexpected_token_location. Qed.
Print Assumptions C04_error_location.

(* lifted to whole ASTs (through C03_conservation): every keyword line, tag and table row of the AST of an accepted
   source was read from one physical line i+1 of the source and is located there: keyword lines and rows at
   column indent+1 of that line, where the line's trimmed text starts with the reported keyword (followed by ':'
   for titles) and the reported name / step text is the trimmed rest; a tag at the column `line_tags` reports for
   it (C04_tags: the '@'); a row's cells at the columns `table_cells` reports (C04_cells); a doc string at its
   opening delimiter (column indent+1, the line starts with the delimiter, the media type is the trimmed rest) *)
Theorem C04_ast_elements : forall stop m b src d m1 b1 n, wf_ms m -> parse_source stop m b src = POk d m1 b1 n ->
  Forall (fun e => exists i text, nth_error (py_lines src) i = Some text /\ elem_at (make_line text (S i)) (S i) e) (doc_elems d).
Proof. exact ast_elements_located. Qed.
Print Assumptions C04_ast_elements.

(* ... and every comment of the document is one whole physical line starting (after blanks) with '#', at column 1 *)
Theorem C04_ast_comments : forall stop m b src d m1 b1 n, wf_ms m -> parse_source stop m b src = POk d m1 b1 n ->
  Forall (fun c => exists i text, nth_error (py_lines src) i = Some text /\ comment_at (make_line text (S i)) (S i) c) (doc_comments d).
Proof. exact ast_comments_located. Qed.
Print Assumptions C04_ast_comments.

Example C04_example :
  line_tags (make_line (s2l "  @a  @b-c #x @no"%string) 1) = TagsOk [(3, s2l "@a"%string); (7, s2l "@b-c"%string)]
  /\ table_cells (make_line (s2l "   | a |  | \| |"%string) 1) = [(6, s2l "a"%string); (11, []); (13, s2l "|"%string)].
Proof. vm_compute. split; reflexivity. Qed.
