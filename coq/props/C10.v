(* C10 — every pickle step has a definite type derived from its keyword. *)
From Coq Require Import String List Bool Arith NArith.
Local Open Scope string_scope.
Local Open Scope list_scope.
Import ListNotations.
Require Import PyStr Matcher Ast Compiler CompilerSpec Json Dialects KeywordFacts.

(* one chain over background steps then own steps, starting from Unknown: given/when/then/"*"
   give Context/Action/Outcome/Unknown, and/but repeat the type before them *)
Theorem C10_types : forall uri d idc ps i, compile uri d idc = Some (ps, i) ->
  map (fun p => map ps_type (p_steps p)) ps = map u_step_types (doc_units d).
Proof. exact pickles_step_types. Qed.
Print Assumptions C10_types.

Theorem C10_chain : forall last k r,
  fst (carry last (k :: r)) = pickle_type last k :: fst (carry (pickle_type last k) r).
Proof. exact carry_head. Qed.
Print Assumptions C10_chain.

(* a run of and/but steps of any length repeats the type of the step before it, and the step after the run sees that type *)
Theorem C10_conjunction_run : forall last n r,
  fst (carry last (repeat Conjunction n ++ r)) = repeat last n ++ fst (carry last r).
Proof. exact carry_conjunction_run. Qed.
Print Assumptions C10_conjunction_run.

Theorem C10_first_conjunction_unknown : forall r, hd_error (fst (carry PUnknown (Conjunction :: r))) = Some PUnknown.
Proof. intros r. rewrite carry_head. reflexivity. Qed.
Print Assumptions C10_first_conjunction_unknown.

(* the same whether the scenario is plain or an outline *)
Theorem C10_outline_eq_plain : forall x ex h r, u_step_types (URow x ex h r) = u_step_types (UPlain x).
Proof. exact types_outline_eq_plain. Qed.
Print Assumptions C10_outline_eq_plain.

(* never missing or null: the model's result type has exactly the four values, and the JSON
   printer maps them to the four names *)
Theorem C10_definite : forall t : ptype, In (Json.ptype_str t) [s2l "Unknown"; s2l "Context"; s2l "Action"; s2l "Outcome"].
Proof. intros t. destruct t; simpl; auto. Qed.
Print Assumptions C10_definite.

(* in every dialect an and/but keyword is a conjunction (listed once among and ++ but) unless it is also a
   given/when/then keyword, as "* " is: so it takes the type of the step before it, never Unknown by accident *)
Theorem C10_conjunction_keywords : forallb conjunctions_ok dialects = true.
Proof. exact dialects_conjunctions_ok. Qed.
Print Assumptions C10_conjunction_keywords.

Example C10_example :
  fst (carry PUnknown [Conjunction; Context; Conjunction; Unknown; Conjunction; Outcome; Conjunction; Action])
  = [PUnknown; PContext; PContext; PUnknown; PUnknown; POutcome; POutcome; PAction].
Proof. vm_compute. reflexivity. Qed.
