(* C19 — the Markdown matcher recognises Gherkin lines as MARKDOWN_WITH_GHERKIN.md specifies (line level). *)
From Coq Require Import String List Bool Arith NArith.
Local Open Scope string_scope.
Local Open Scope list_scope.
Import ListNotations.
Require Import Kinds PyStr Line Matcher MatcherMd Dialects KeywordFacts MdFacts.

(* one to six '#', one whitespace character, a listed keyword, ':' -- any clash-free keyword list
   (every title list of every dialect is: C05_table_conditions): keyword, trimmed title, column of the keyword *)
Theorem C19_title : forall m t (ks pre : list str) (k : str) (post : list str) (ws rest : str) depth sp n ty,
  let line := ws ++ repeat HASH depth ++ [sp] ++ k ++ [COLON] ++ rest in
  ks = pre ++ k :: post -> clash_free_from [] ks = true ->
  1 <= depth <= 6 -> is_space sp = true -> forallb is_space ws = true ->
  md_title m t (make_line line n) true ks [COLON] ty
  = Some (set_matched m t ty (Some (strip (dot_star rest))) (Some k) None (Some (length ws + S depth)) []).
Proof. exact md_header_recognised. Qed.
Print Assumptions C19_title.

Theorem C19_title_lists_clash_free : no_title_clash dialects = true.
Proof. exact dialects_no_title_clash. Qed.
Print Assumptions C19_title_lists_clash_free.

(* lines lacking the header prefix are not keyword lines *)
Theorem C19_negative : forall m t l ks ty, header_prefix (l_trimmed l) = None -> md_title m t l true ks [COLON] ty = None.
Proof. exact md_no_header_no_title. Qed.
Print Assumptions C19_negative.
Theorem C19_negative_no_hash : forall s, match s with [] => True | c :: _ => N.eqb c HASH = false end -> header_prefix s = None.
Proof. exact header_prefix_none_nohash. Qed.
Print Assumptions C19_negative_no_hash.

(* the header prefix exactly: a trimmed line has it iff it is one to six '#' followed by a whitespace character (so seven
   '#', or '#' followed directly by text, is no header) *)
Theorem C19_header_prefix_exact : forall s n, header_prefix s = Some n <->
  exists d sp rest, s = repeat HASH d ++ sp :: rest /\ (1 <= d <= 6)%nat /\ is_space sp = true /\ n = S d.
Proof. exact header_prefix_exact. Qed.
Print Assumptions C19_header_prefix_exact.

(* a table row needs two to five leading blanks *)
Theorem C19_table : forall text, md_table_indent text = true ->
  let n := count_while is_space text in 2 <= n <= 5 /\ exists r, skipn n text = PIPE :: r.
Proof. exact md_table_indent_spec. Qed.
Print Assumptions C19_table.

(* ... exactly: two to five whitespace characters, then '|' (the separator-row test comes on top) *)
Theorem C19_table_exact : forall text, md_table_indent text = true <->
  exists ws r, text = ws ++ PIPE :: r /\ forallb is_space ws = true /\ (2 <= length ws <= 5)%nat.
Proof. exact md_table_indent_exact. Qed.
Print Assumptions C19_table_exact.

(* a list item: blanks, one of '*', '+', '-', blanks, then text -- a step whose keyword is the first listed keyword
   that prefixes the text (which does not begin with a blank: no step keyword does), whose text is the trimmed rest,
   at the column of the keyword; any keyword list *)
Theorem C19_step : forall m t (ks : list str) (k ws bl rest : str) (b : N) n,
  let line := ws ++ [b] ++ bl ++ k ++ rest in
  forallb is_space ws = true -> is_bullet b = true -> forallb is_space bl = true ->
  match k ++ rest with [] => True | c :: _ => is_space c = false end ->
  first_kw ks [] (k ++ rest) = Some k ->
  md_title m t (make_line line n) false ks [] KStepLine
  = Some (set_matched m t KStepLine (Some (strip (dot_star rest))) (Some k) None (Some (length ws + 1 + length bl)%nat) []).
Proof. exact md_step_recognised. Qed.
Print Assumptions C19_step.

(* the hypothesis on the first character holds for every listed step keyword of every dialect *)
Theorem C19_step_keywords_start_nonblank :
  forallb (fun d => forallb kw_starts_nonblank (step_keywords d)) dialects = true.
Proof. exact step_keywords_start_nonblank. Qed.
Print Assumptions C19_step_keywords_start_nonblank.

(* a line whose first non-blank character is not a bullet is not a step *)
Theorem C19_negative_no_bullet : forall m t l ks ty,
  match l_trimmed l with [] => True | c :: _ => is_space c = false /\ is_bullet c = false end ->
  md_title m t l false ks [] ty = None.
Proof. exact md_no_bullet_no_step. Qed.
Print Assumptions C19_negative_no_bullet.

(* tags: a line made of text, `@tag`, text, `@tag`, ..., text (the texts and the tag bodies free of backticks, the
   bodies non-empty) yields exactly those tags, each at the offset of its opening backtick (the matcher adds the
   indentation and 2: the 1-based column of the '@') *)
Theorem C19_tags : forall items tail fuel pos, forallb item_ok items = true -> tick_free tail = true ->
  (length (render items tail) <= fuel)%nat ->
  md_tags_from fuel (render items tail) pos = tag_positions items pos.
Proof. exact md_tags_spec. Qed.
Print Assumptions C19_tags.

(* executable examples in the kernel (backticks that do not pair up as above, separator rows) *)
Example C19_step_example :
  option_map (fun t => (m_keyword t, m_text t, m_indent t))
    (md_title (mk_mstate [] [] (Build_dialect [] [] [] [] [] [] [] [s2l "Given "; s2l "* "] [] [] [] []) None 0)
       (raw_token (s2l "  -   Given x y ") 1) (make_line (s2l "  -   Given x y ") 1) false [s2l "Given "; s2l "* "] [] KStepLine)
  = Some (Some (s2l "Given "), Some (s2l "x y"), 6).
Proof. vm_compute. reflexivity. Qed.
Example C19_tags_example :
  md_tags_from 40 (s2l "`@a` x `@b c` `@` `@smoke` `@smoke`") 0
  = [(0, s2l "@a"); (7, s2l "@b c"); (18, s2l "@smoke"); (27, s2l "@smoke")].
Proof. vm_compute. reflexivity. Qed.
Example C19_separator_example :
  map is_gfm_sep_cell [s2l "---"; s2l ":-:"; s2l "-"; s2l "a"; s2l "- -"; s2l ":"; s2l "--:"] = [true; true; true; false; false; false; true].
Proof. vm_compute. reflexivity. Qed.
