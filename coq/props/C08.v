(* C08 — pickle tags = feature, rule, scenario, examples tags, in that order. *)
From Coq Require Import String List Bool Arith NArith.
Local Open Scope string_scope.
Local Open Scope list_scope.
Import ListNotations.
Require Import PyStr Matcher Ast Compiler CompilerSpec.

Theorem C08_tags : forall uri d idc ps i, compile uri d idc = Some (ps, i) ->
  map p_tags ps = map (fun u => pickle_tags (u_tags u)) (doc_units d).
Proof. exact pickles_tags. Qed.
Print Assumptions C08_tags.

(* u_tags is: tags in scope of the scenario's context ++ the scenario's ++ (for a row) those of the
   examples block the row belongs to; and the context's tags are the feature's, then the rule's *)
Theorem C08_scope : forall ftags fb scs (rs : list prule) x,
  In x (feature_ctxs ftags []
          (match fb with Some b => [FCBackground b] | None => [] end
           ++ map FCScenario scs ++ map (fun r => FCRule (pr_rule r)) rs)) ->
  (x_tags x = ftags /\ In (x_sc x) scs)
  \/ exists r, In r rs /\ x_tags x = ftags ++ ru_tags (pr_rule r) /\ In (x_sc x) (pr_scs r).
Proof.
  intros ftags fb scs rs x H. rewrite feature_ctxs_shape in H. apply in_app_iff in H as [H|H].
  - left. apply in_map_iff in H as [s [<- Hs]]. auto.
  - right. apply in_flat_map in H as [r [Hr H]]. apply in_map_iff in H as [s [<- Hs]]. eauto.
Qed.
Print Assumptions C08_scope.

(* each pickle tag carries the name and the id of the AST tag it comes from; order and repetitions kept *)
Theorem C08_tag_fields : forall ts, map pt_node (pickle_tags ts) = map tg_id ts /\ map pt_name (pickle_tags ts) = map tg_name ts.
Proof. intros ts. unfold pickle_tags. rewrite !map_map. split; reflexivity. Qed.
Print Assumptions C08_tag_fields.

Example C08_example :
  let loc := mk_loc 1 (Some 1) in
  let t n := mk_tag n loc [N.of_nat n] in
  let c v := mk_cell loc v in
  let ex k := mk_examples 50 [t k; t k] loc [] [] [] (Some (mk_row 2 loc [])) [mk_row 3 loc []] in
  let sc := mk_scenario 6 [t 3] loc [] [] [] [] [ex 4; ex 5] in
  let other := mk_scenario 7 [t 9] loc [] [] [] [] [] in
  let r := mk_grule 20 [t 2] loc [] [] [] [RCScenario other; RCScenario sc] in
  let d := mk_document (Some (mk_feature [t 1] loc [] [] [] [] [FCRule r])) [] in
  option_map (fun r => map (fun p => map pt_node (p_tags p)) (fst r)) (compile [] d 60)
  = Some [[1; 2; 9]; [1; 2; 3; 4; 4]; [1; 2; 3; 5; 5]].
Proof. vm_compute. reflexivity. Qed.
