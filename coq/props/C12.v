(* C12 — table cells are split and unescaped as documented; tables are rectangular. *)
From Coq Require Import String List Bool Arith NArith.
Local Open Scope string_scope.
Local Open Scope list_scope.
Import ListNotations.
Require Import PyStr Line Matcher Ast Builder CellsSpec CellsPairs Table TableFacts.

(* the tokens (unescaped pipe, escape pair, plain character, lone final backslash) partition the row *)
Theorem C12_lex_partition : forall row, raws (lex row) = row.
Proof. exact lex_raws. Qed.
Print Assumptions C12_lex_partition.

(* cells = the pieces between consecutive unescaped pipes (first and last piece dropped), each
   unescaped token by token: '\n' -> LF, '\|' -> '|', '\\' -> '\', other pairs kept (val) *)
Theorem C12_split_spec : forall row, split_table_cells row = map cell_of (inner (segments row)).
Proof. exact split_table_cells_spec. Qed.
Print Assumptions C12_split_spec.

(* each piece is delimited by unescaped pipes (or the ends of the row) and contains none *)
Theorem C12_pieces : forall row seg st, In (seg, st) (segments row) ->
  exists pre post, lex row = pre ++ seg ++ post
    /\ st = S (rawlen pre) /\ pipe_free seg
    /\ (pre = [] \/ exists p, pre = p ++ [TPipe])
    /\ (post = [] \/ exists q, post = TPipe :: q).
Proof. exact segments_where. Qed.
Print Assumptions C12_pieces.

(* cell texts written with the three escapes are read back unchanged (before trimming) ... *)
Theorem C12_split_escaped : forall vs,
  map fst (split_table_cells (PIPE :: flat_map (fun v => escape v ++ [PIPE]) vs)) = vs.
Proof. exact split_escaped. Qed.
Print Assumptions C12_split_escaped.

(* ... and after trimming, when they have no blanks at their ends (line feeds allowed) *)
Theorem C12_roundtrip : forall vs n, Forall no_blank_ends vs ->
  map snd (table_cells (make_line (PIPE :: flat_map (fun v => escape v ++ [PIPE]) vs) n)) = vs.
Proof. exact table_cells_roundtrip. Qed.
Print Assumptions C12_roundtrip.

(* the ragged-table error is at the first row deviating from the first row's cell count *)
Theorem C12_ragged : forall r0 rows,
  match first_ragged (r0 :: rows) with
  | Some r => exists pre post, r0 :: rows = pre ++ r :: post
                /\ length (r_cells r) <> length (r_cells r0)
                /\ Forall (fun y => length (r_cells y) = length (r_cells r0)) pre
  | None => Forall (fun y => length (r_cells y) = length (r_cells r0)) (r0 :: rows)
  end.
Proof. exact first_ragged_spec. Qed.
Print Assumptions C12_ragged.

Example C12_example :
  table_cells (make_line (s2l "  | a\|b | \n x\\ |  |\q | trailing") 3)
  = [(5%nat, s2l "a|b"); (12%nat, [10; 32; 120; 92]%N); (22%nat, []); (23%nat, s2l "\q")].
Proof. vm_compute. reflexivity. Qed.

(* which rows belong to one table is the transition table's business: in every state that reads the rows after the
   first (data tables and examples tables, at least five such states), a blank line and a comment are built and the
   state kept, so rows separated by blank lines or comments are rows of one table ... *)
Theorem C12_rows_of_one_table : rows_stay = true.
Proof. exact rows_stay_ok. Qed.
Print Assumptions C12_rows_of_one_table.

(* ... and the generated table has the transitions of every sibling implementation's generated parser *)
Theorem C12_reference_table : siblings_agree = true.
Proof. exact siblings_agree_ok. Qed.
Print Assumptions C12_reference_table.

(* read off the character loop itself: a cell made of plain text (no pipe, no backslash), one backslash pair, plain text
   holds the pair's value -- LF for '\n', the character for '\|' and '\\', the pair as written for every other
   second character -- and starts in column 2 *)
Theorem C12_one_pair : forall a d b, plain a = true -> plain b = true ->
  split_table_cells (PIPE :: a ++ BSL :: d :: b ++ [PIPE]) = [(a ++ pair_value d ++ b, 2%nat)].
Proof. exact one_pair_cell. Qed.
Print Assumptions C12_one_pair.

Theorem C12_other_pair_kept : forall a d b, plain a = true -> plain b = true ->
  d <> CH_n -> d <> PIPE -> d <> BSL ->
  split_table_cells (PIPE :: a ++ BSL :: d :: b ++ [PIPE]) = [(a ++ BSL :: d :: b, 2%nat)].
Proof. exact other_pair_kept. Qed.
Print Assumptions C12_other_pair_kept.

Example C12_other_pair_sample :
  plain (s2l " C:") = true /\ plain (s2l "mp ") = true
  /\ split_table_cells (s2l "| C:\tmp |") = [(s2l " C:\tmp ", 2%nat)].
Proof. vm_compute. repeat split; reflexivity. Qed.
