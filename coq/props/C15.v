(* C15 — no hidden state: results are independent of earlier parses.
   (Concurrency and aliasing are outside a functional model: decided by the harness; DESIGN 6.C15.) *)
From Coq Require Import List Bool Arith.
Import ListNotations.
Require Import Kinds PyStr Line Matcher Ast Builder Pipeline PipelineFacts Dialects.

(* the result of a parse depends on the matcher object only through its configured default
   dialect and on the builder only through the id counter: dialect switched by an earlier
   header, open doc-string separator, indent to remove, stack, comments, are all irrelevant *)
Theorem C15_reset : forall stop m1 m2 b1 b2 src,
  wf_ms m1 -> wf_ms m2 -> ms_default m1 = ms_default m2 -> b_idc b1 = b_idc b2 ->
  parse_source stop m1 b1 src = parse_source stop m2 b2 src.
Proof. exact parse_source_reset. Qed.
Print Assumptions C15_reset.

(* whatever a parse leaves behind (accepted, rejected, stopped at the first error) is again a
   well-formed matcher with the same default *)
Theorem C15_state_after : forall stop m b src, wf_ms m -> after (parse_source stop m b src) (ms_default m) (b_idc b).
Proof. exact parse_source_after. Qed.
Print Assumptions C15_state_after.

(* any history through one matcher and one builder = fresh instances for every document,
   sharing only the id counter *)
Theorem C15_history : forall m0 srcs, wf_ms m0 -> forall m b,
  wf_ms m -> ms_default m = ms_default m0 ->
  history m b srcs = fresh_history m0 (b_idc b) srcs.
Proof. exact history_fresh. Qed.
Print Assumptions C15_history.

(* non-vacuity: the matcher the constructor returns is well-formed *)
Theorem C15_constructor_wf : forall name m, new_matcher dialects name = Some m -> wf_ms m /\ ms_default m = name.
Proof. exact new_matcher_wf. Qed.
Print Assumptions C15_constructor_wf.

(* up to the offset of ids: a parse whose builder's id counter (and whatever else its stale state holds) is
   k higher gives the same outcome -- same document with every id k higher, same errors, same matcher state,
   same number of matcher calls.  Proved by instantiating the relational parametricity of the interpreter
   (Paramcoq, ParamGlue.v) with equal tokens and builder states related by the shift. *)
Require Import IdShift IdShiftParse.
Theorem C15_id_offset : forall k stop m b src,
  parse_source stop m (bshift k b) src = pshift k (parse_source stop m b src).
Proof. exact parse_source_shift. Qed.
Print Assumptions C15_id_offset.

(* ... and the pickle compiler sees the AST's ids and the counter only as an offset too: compiling the shifted
   document from the shifted counter gives the same pickles with every id and every reference k higher *)
Require Import Compiler CompileShift.
Theorem C15_compile_offset : forall k uri d i, compile uri (sh_doc k d) (i + k) = osh k (compile uri d i).
Proof. exact compile_shift. Qed.
Print Assumptions C15_compile_offset.
