(* C05 — every keyword of every dialect is recognised in its role; foreign ones are not. *)
From Coq Require Import List Bool Arith NArith.
Import ListNotations.
Require Import Kinds PyStr Line Matcher Dialects DialectsMaster KeywordFacts TableFacts Table.

(* title roles, every dialect of the regenerated table, every listed keyword, any blanks before,
   any text after: recognised with the keyword as listed, the stripped rest as name, column = blanks + 1 *)
Theorem C05_title : forall d (ks pre : list str) (k : str) (post : list str) m t (ws rest : str) n ty,
  In d dialects -> In ks (title_lists d) -> ks = pre ++ k :: post ->
  tk_line t = Some (make_line (ws ++ k ++ [COLON] ++ rest) n) -> forallb is_space ws = true ->
  match_title_line m t (make_line (ws ++ k ++ [COLON] ++ rest) n) ty ks
  = MYes (set_matched m t ty (Some (strip rest)) (Some k) None None []) m
  /\ m_indent (set_matched m t ty (Some (strip rest)) (Some k) None None []) = length ws.
Proof. exact title_recognised_all_dialects. Qed.
Print Assumptions C05_title.

(* the scenario test (scenario keywords, then outline keywords) is one test over the concatenation *)
Theorem C05_scenario_lists : forall m t l ty a b,
  match match_title_line m t l ty a with MNo => match_title_line m t l ty b | r => r end
  = match_title_line m t l ty (a ++ b).
Proof. exact scenario_line_concat. Qed.
Print Assumptions C05_scenario_lists.

(* steps: the first listed keyword (given, when, then, and, but order) that prefixes the line;
   keyword type = the category when listed once, Unknown when listed more than once *)
Theorem C05_step : forall ds m t (pre : list str) (k : str) (post : list str) (ws rest : str) n,
  let l := make_line (ws ++ k ++ rest) n in
  tk_line t = Some l -> step_keywords (ms_dialect m) = pre ++ k :: post ->
  Forall (fun k0 => starts_with k0 (k ++ rest) = false \/ k0 = k) pre -> head_ok k = true -> forallb is_space ws = true ->
  matcher ds KStepLine m t
  = MYes (set_matched m t KStepLine (Some (strip rest)) (Some k) (Some (keyword_type (ms_dialect m) k)) None []) m
  /\ m_indent (set_matched m t KStepLine (Some (strip rest)) (Some k) (Some (keyword_type (ms_dialect m) k)) None []) = length ws.
Proof. exact step_line_recognised. Qed.
Print Assumptions C05_step.

Theorem C05_keyword_type : forall d k,
  let g := count_in k (d_given d) in let w := count_in k (d_when d) in
  let th := count_in k (d_then d) in let c := count_in k (d_and d ++ d_but d) in
  (g + w + th + c = 1 -> keyword_type d k = if Nat.eqb g 1 then Context else if Nat.eqb w 1 then Action
                                             else if Nat.eqb th 1 then Outcome else Conjunction)
  /\ (g + w + th + c <> 1 -> keyword_type d k = Unknown).
Proof. exact keyword_type_spec. Qed.
Print Assumptions C05_keyword_type.

(* words that are keywords only elsewhere are plain text *)
Theorem C05_foreign : forall m t l ty ks, Forall (fun k => startswith_title_keyword l k = false) ks ->
  match_title_line m t l ty ks = MNo.
Proof. exact foreign_not_title. Qed.
Print Assumptions C05_foreign.

(* the language header, in every spelling the pattern admits; it is tested in the start state only *)
Theorem C05_language_header : forall (w1 w2 w3 w4 name w5 : str),
  forallb is_space w1 = true -> forallb is_space w2 = true -> forallb is_space w3 = true ->
  forallb is_space w4 = true -> forallb is_space w5 = true ->
  name <> [] -> forallb is_lang_char name = true ->
  language_header (w1 ++ [HASH] ++ w2 ++ LANGUAGE_WORD ++ w3 ++ [COLON] ++ w4 ++ name ++ w5) = Some name.
Proof. exact language_header_spec. Qed.
Print Assumptions C05_language_header.
(* ... and nothing else is: the header pattern recognises exactly these spellings -- blanks, '#', blanks, "language", blanks, ':',
   blanks, a non-empty name over the ASCII letters, '-' and '_', blanks (so a name with any other letter, a digit, or
   followed by other text makes the line an ordinary comment) *)
Theorem C05_language_header_exact : forall s name,
  language_header s = Some name <->
  exists w1 w2 w3 w4 w5, s = w1 ++ [HASH] ++ w2 ++ LANGUAGE_WORD ++ w3 ++ [COLON] ++ w4 ++ name ++ w5
    /\ forallb is_space w1 = true /\ forallb is_space w2 = true /\ forallb is_space w3 = true /\ forallb is_space w4 = true
    /\ forallb is_space w5 = true /\ name <> [] /\ forallb is_lang_char name = true.
Proof.
  intros s name. split; [apply language_header_shape|].
  intros (w1 & w2 & w3 & w4 & w5 & -> & H1 & H2 & H3 & H4 & H5 & Hn & Hl). exact (language_header_spec w1 w2 w3 w4 name w5 H1 H2 H3 H4 H5 Hn Hl).
Qed.
Print Assumptions C05_language_header_exact.

Theorem C05_language_only_at_start : language_only_at_start Table.table = true.
Proof. exact language_only_at_start_ok. Qed.
Print Assumptions C05_language_only_at_start.

(* side-conditions on the regenerated table: keyword heads, kinds disjoint, no clash within or across roles *)
Theorem C05_table_conditions :
  heads_ok dialects = true /\ kinds_disjoint dialects = true /\ no_title_clash dialects = true
  /\ forallb cross_free dialects = true.
Proof. exact (conj dialects_heads_nonblank (conj dialects_kinds_disjoint (conj dialects_no_title_clash dialects_cross_free))). Qed.
Print Assumptions C05_table_conditions.

(* the table shipped with the package is the repository's master table *)
Theorem C05_table_identity : list_beq (fun a b =>
    str_eqb (d_code a) (d_code b)
    && list_beq (list_beq str_eqb) (title_lists a ++ [d_given a; d_when a; d_then a; d_and a; d_but a])
                                   (title_lists b ++ [d_given b; d_when b; d_then b; d_and b; d_but b]))
  Dialects.dialects dialects_master = true.
Proof. exact table_identity. Qed.
Print Assumptions C05_table_identity.
