(* C03 — the AST carries every element once, in order, with exact text.
   Proved here: every line reaches the builder exactly once in order (delivery), the nesting is a
   derivation of the grammar, keywords / names / step text / comments / descriptions / doc strings
   carry the stated text.  The composition "AST flattened = significant source lines" is decided
   by correspondence (AST with ids and locations erased) and by the generator's intended AST:
   partial (DESIGN 6.C03). *)
From Coq Require Import List Bool Arith NArith.
Import ListNotations.
Require Import Kinds Automaton PyStr Line Matcher Ast Builder Pipeline PipelineFacts Dialects
               RefSem Nesting C02Lemmas Delivery DeliveryInst KeywordFacts BuilderFacts DocStringFacts Table.

(* each physical line is delivered exactly once, in source order, then one EOF (accepted documents) *)
Theorem C03_every_line_once : forall stop m b src c, wf_ms m ->
  parse_tokens stop (scan src) m b = Ok tt c -> delivered _ tkey c = source_keys src.
Proof. intros stop m b src c W H. pose proof (source_delivery stop m b src W) as D. rewrite H in D. exact D. Qed.
Print Assumptions C03_every_line_once.

(* the rule events given to the builder form a derivation of gherkin.berp *)
Theorem C03_nesting : forall stop toks m b c, parse_tokens stop toks m b = Ok tt c -> valid_events (abs c) = true.
Proof. exact pipeline_nesting. Qed.
Print Assumptions C03_nesting.

(* keywords as written, names = the rest of the line, trimmed *)
Theorem C03_title_text : forall d (ks pre : list str) (k : str) (post : list str) m t (ws rest : str) n ty,
  In d dialects -> In ks (title_lists d) -> ks = pre ++ k :: post ->
  tk_line t = Some (make_line (ws ++ k ++ [COLON] ++ rest) n) -> forallb is_space ws = true ->
  match_title_line m t (make_line (ws ++ k ++ [COLON] ++ rest) n) ty ks
  = MYes (set_matched m t ty (Some (strip rest)) (Some k) None None []) m
  /\ m_indent (set_matched m t ty (Some (strip rest)) (Some k) None None []) = length ws.
Proof. exact title_recognised_all_dialects. Qed.
Print Assumptions C03_title_text.

(* comments: the whole line, verbatim, appended to the document's comment list in order *)
Theorem C03_comment : forall ds m t l, tk_line t = Some l -> line_startswith l [HASH] = true ->
  exists t', matcher ds KComment m t = MYes t' m /\ m_text t' = Some (rstrip_crlf (l_text l))
             /\ tk_loc t' = mk_loc (loc_line (tk_loc t)) (Some 1).
Proof. exact comment_token. Qed.
Print Assumptions C03_comment.
Theorem C03_comment_built : forall t text b, m_type t = Some KComment -> m_text t = Some text ->
  builder_build t b = BoOk (mk_bstate (b_stack b) (b_comments b ++ [mk_comment (tk_loc t) text]) (b_idc b)).
Proof. exact comment_built. Qed.
Print Assumptions C03_comment_built.

(* descriptions: free-text lines verbatim, in order, trailing blank lines dropped *)
Theorem C03_description : forall os texts comments idc,
  map m_text (drop_trailing_blank os) = map Some texts ->
  transform_node (Node (KR RDescription) (map (fun o => (KT KOther, VTok o)) os)) comments idc
  = TOk (VDesc (join [LF] texts)) idc.
Proof. exact description_transform. Qed.
Print Assumptions C03_description.
Theorem C03_description_trailing : forall ts, exists keep dropped,
  ts = keep ++ dropped /\ drop_trailing_blank ts = keep /\ Forall (fun t => blank_text t = true) dropped
  /\ (keep = [] \/ blank_text (last keep (eof_token 0)) = false).
Proof. exact drop_trailing_blank_spec. Qed.
Print Assumptions C03_description_trailing.

(* steps *)
Theorem C03_step : forall sl kw kt text comments idc,
  m_keyword sl = Some kw -> m_ktype sl = Some kt -> m_text sl = Some text ->
  transform_node (Node (KR RStep) [(KT KStepLine, VTok sl)]) comments idc
  = TOk (VStep (mk_step idc (tk_loc sl) kw kt text ArgNone)) (S idc).
Proof. exact step_transform. Qed.
Print Assumptions C03_step.
