(* C03 — the AST carries every element once, in order, with exact text.
   Proved here: every line reaches the builder exactly once in order (delivery), the nesting is a
   derivation of the grammar, keywords / names / step text / comments / descriptions / doc strings
   carry the stated text, and the composition (C03_conservation): the AST read in source order is exactly
   the list of elements of the source's lines, each once, in order, under the parent the order implies --
   keyword lines, tags, table rows, doc-string opening delimiters (with media type), and the non-blank lines
   of descriptions and doc-string contents.  Not in the element list: blank lines inside free text (text
   lemmas; DESIGN 6.C03). *)
From Coq Require Import List Bool Arith NArith.
Import ListNotations.
Require Import Kinds Automaton PyStr Line Matcher Ast Builder Pipeline PipelineFacts Dialects
               RefSem Nesting C02Lemmas Delivery DeliveryInst KeywordFacts BuilderFacts DocStringFacts Table
               BuilderSafe MatcherTyping DenseMain ConserveDefs ConserveMain Grammar ConserveSentence.

(* each physical line is delivered exactly once, in source order, then one EOF (accepted documents) *)
Theorem C03_every_line_once : forall stop m b src c, wf_ms m ->
  parse_tokens stop (scan src) m b = Ok tt c -> delivered _ tkey c = source_keys src.
Proof. intros stop m b src c W H. pose proof (source_delivery stop m b src W) as D. rewrite H in D. exact D. Qed.
Print Assumptions C03_every_line_once.

(* the rule events given to the builder form a derivation of gherkin.berp *)
Theorem C03_nesting : forall stop toks m b c, parse_tokens stop toks m b = Ok tt c -> valid_events (abs c) = true.
Proof. exact pipeline_nesting. Qed.
Print Assumptions C03_nesting.

(* keywords as written, names = the rest of the line, trimmed *)
Theorem C03_title_text : forall d (ks pre : list str) (k : str) (post : list str) m t (ws rest : str) n ty,
  In d dialects -> In ks (title_lists d) -> ks = pre ++ k :: post ->
  tk_line t = Some (make_line (ws ++ k ++ [COLON] ++ rest) n) -> forallb is_space ws = true ->
  match_title_line m t (make_line (ws ++ k ++ [COLON] ++ rest) n) ty ks
  = MYes (set_matched m t ty (Some (strip rest)) (Some k) None None []) m
  /\ m_indent (set_matched m t ty (Some (strip rest)) (Some k) None None []) = length ws.
Proof. exact title_recognised_all_dialects. Qed.
Print Assumptions C03_title_text.

(* comments: the whole line, verbatim, appended to the document's comment list in order *)
Theorem C03_comment : forall ds m t l, tk_line t = Some l -> line_startswith l [HASH] = true ->
  exists t', matcher ds KComment m t = MYes t' m /\ m_text t' = Some (rstrip_crlf (l_text l))
             /\ tk_loc t' = mk_loc (loc_line (tk_loc t)) (Some 1).
Proof. exact comment_token. Qed.
Print Assumptions C03_comment.
Theorem C03_comment_built : forall t text b, m_type t = Some KComment -> m_text t = Some text ->
  builder_build t b = BoOk (mk_bstate (b_stack b) (b_comments b ++ [mk_comment (tk_loc t) text]) (b_idc b)).
Proof. exact comment_built. Qed.
Print Assumptions C03_comment_built.

(* descriptions: free-text lines verbatim, in order, trailing blank lines dropped *)
Theorem C03_description : forall os texts comments idc,
  map m_text (drop_trailing_blank os) = map Some texts ->
  transform_node (Node (KR RDescription) (map (fun o => (KT KOther, VTok o)) os)) comments idc
  = TOk (VDesc (join [LF] texts)) idc.
Proof. exact description_transform. Qed.
Print Assumptions C03_description.
Theorem C03_description_trailing : forall ts, exists keep dropped,
  ts = keep ++ dropped /\ drop_trailing_blank ts = keep /\ Forall (fun t => blank_text t = true) dropped
  /\ (keep = [] \/ blank_text (last keep (eof_token 0)) = false).
Proof. exact drop_trailing_blank_spec. Qed.
Print Assumptions C03_description_trailing.

(* steps *)
Theorem C03_step : forall sl kw kt text comments idc,
  m_keyword sl = Some kw -> m_ktype sl = Some kt -> m_text sl = Some text ->
  transform_node (Node (KR RStep) [(KT KStepLine, VTok sl)]) comments idc
  = TOk (VStep (mk_step idc (tk_loc sl) kw kt text ArgNone)) (S idc).
Proof. exact step_transform. Qed.
Print Assumptions C03_step.

(* conservation: for every accepted source there is one matched token per physical line (and the EOF), in
   source order (`source_keys`: the token's line is the i-th piece of the source, its line number i), each being
   what `TokenMatcher.match_<k>` makes of the scanner's raw token of that very line in some well-formed matcher
   state (`tok_made`; so the title / step / tag / cell theorems of C04, C05, C12 apply to it), such that
   the AST, read in source order (tags, keyword line, then children: `doc_elems`), is exactly the concatenation
   of the elements of those tokens (`tok_elems`: keyword line -> keyword as written + trimmed rest + location;
   tag line -> one tag per item with its column; table row -> its cells; free-text line (description or doc-string
   content) -> its non-blank text; opening doc-string delimiter -> delimiter, media type, location; a closing
   delimiter -> nothing), and the document's comment list is
   exactly the comment lines.  So every feature / rule / background / scenario / examples / step / row / tag /
   comment line of the source appears exactly once, in order, and nothing else appears.  The kinds of those tokens,
   the end of file last, form a sentence of gherkin.berp (`runR G`, the reference recogniser of the regenerated
   grammar: C02_accepted_is_sentence, about the same reading of the source): which line opens which element, and
   hence the parent of every element, is the grammar's. *)
Theorem C03_conservation : forall stop m b src d m1 b1 n, wf_ms m -> parse_source stop m b src = POk d m1 b1 n ->
  exists kts : list (kind * token),
    map (fun kt => tkey (snd kt)) kts = source_keys src
    /\ Forall (fun kt => tok_made (fst kt) (snd kt)) kts
    /\ runR G (map fst kts) = true
    /\ doc_elems d = flat_map kt_elems kts
    /\ doc_comments d = flat_map kt_comments kts.
Proof. exact source_conservation_sentence. Qed.
Print Assumptions C03_conservation.

(* non-vacuity: a document with every kind of element is accepted; its 24 elements and 1 comment *)
From Coq Require Import String.
Definition c03_sample : str := s2l
  "# note
@a @b
Feature: f
  about f

  more about f
  Background:
    Given g
      | x | y |
      | 1 | 2 |
    And h
      ```
      first

      third
      ```
  @c
  Scenario Outline: s
    When <x>
    Examples:
      | x |
      | 1 |
      | 2 |
  Rule: r
    @d
    Scenario: t
      Then z
".
Example C03_conservation_sample :
  match new_matcher Dialects.dialects (s2l "en") with
  | Some m =>
    match parse_source false m (new_builder 0) c03_sample with
    | POk d _ _ _ => List.length (doc_elems d) = 24 /\ List.length (doc_comments d) = 1
                     /\ hd_error (doc_elems d) = Some (ETag (mk_loc 2 (Some 1)) (s2l "@a"))
    | _ => False
    end
  | None => False
  end.
Proof. vm_compute. repeat split. Qed.

(* reading `tok_made` together with `source_keys`: the raw token of a matched token is the scanner's token of
   the i-th piece of the source *)
Theorem C03_token_of_line : forall t text i, tkey t = (Some (make_line text i), i) -> canon t = raw_token text i.
Proof. intros t text i H. unfold tkey in H. inversion H as [[H1 H2]]. unfold canon, raw_token. rewrite H1, H2. reflexivity. Qed.
Print Assumptions C03_token_of_line.
