(* C09 — example values replace <header> placeholders literally, everywhere they apply. *)
From Coq Require Import String List Bool Arith NArith.
Local Open Scope string_scope.
Local Open Scope list_scope.
Import ListNotations.
Require Import PyStr Matcher Ast Compiler CompilerSpec ReplaceSpec.

(* str.replace is the leftmost, non-overlapping rewrite (relation Repl), for every string *)
Theorem C09_replace_spec : forall p v s, p <> [] -> Repl p v s (replace_all p v s).
Proof. exact replace_all_Repl. Qed.
Print Assumptions C09_replace_spec.
Theorem C09_replace_unique : forall p v s r, p <> [] -> Repl p v s r -> replace_all p v s = r.
Proof. exact replace_all_unique. Qed.
Print Assumptions C09_replace_unique.

(* the value is inserted literally, whatever it contains: the result is the value joined between
   pieces that do not depend on the value, and the template is the pattern joined between them *)
Theorem C09_literal : forall p v s, p <> [] ->
  replace_all p v s = join v (pieces p s) /\ join p (pieces p s) = s.
Proof. exact replace_is_join. Qed.
Print Assumptions C09_literal.

Theorem C09_first_occurrence : forall p v a b, p <> [] ->
  (forall a1 a2, a = a1 ++ a2 -> starts_with p (a2 ++ p ++ b) = true -> a2 = []) ->
  replace_all p v (a ++ p ++ b) = a ++ v ++ replace_all p v b.
Proof. exact replace_first. Qed.
Print Assumptions C09_first_occurrence.

(* columns are applied in header order *)
Theorem C09_header_order : forall t hs vs,
  interp t hs vs = fold_left (fun acc hv => replace_all (placeholder (c_value (fst hv))) (c_value (snd hv)) acc) (combine hs vs) t.
Proof. exact interp_fold. Qed.
Print Assumptions C09_header_order.

(* text with no placeholder is unchanged; '<x>' for an x that is not a header stays as written *)
Theorem C09_no_placeholder : forall t hs vs,
  (forall h, In h hs -> ~ occurs (placeholder (c_value h)) t) -> interp t hs vs = t.
Proof. exact interp_no_placeholder. Qed.
Print Assumptions C09_no_placeholder.
Theorem C09_unknown_kept : forall x, no_angle x -> forall hs vs,
  ~ In x (map c_value hs) -> interp (placeholder x) hs vs = placeholder x.
Proof. exact interp_unknown_kept. Qed.
Print Assumptions C09_unknown_kept.

(* applied to the name, every own step's text, every cell, doc-string content and media type;
   not to background steps *)
Theorem C09_applied_everywhere : forall uri d idc ps i, compile uri d idc = Some (ps, i) ->
  map p_name ps = map u_name (doc_units d)
  /\ map (fun p => map ps_text (p_steps p)) ps = map u_step_texts (doc_units d)
  /\ map (fun p => map ps_arg (p_steps p)) ps = map u_step_args (doc_units d).
Proof.
  intros uri d idc ps i H. split; [|split];
    [eapply pickles_names | eapply pickles_step_texts | eapply pickles_step_args]; exact H.
Qed.
Print Assumptions C09_applied_everywhere.

(* the model's interpolate is the total chain whenever it returns (it fails only on a short row) *)
Theorem C09_interpolate : forall name vars vals,
  (length vars <= length vals -> interpolate name vars vals = Some (interp name vars vals))
  /\ (interpolate name vars vals = None <-> length vals < length vars).
Proof. intros. split; [apply interpolate_total | apply interpolate_none_iff]. Qed.
Print Assumptions C09_interpolate.

Example C09_example :
  let c v := mk_cell (mk_loc 1 None) (s2l v) in
  interpolate (s2l "<a.b> <aXb> <a(b> \1 <x>") [c "a.b"; c "a(b"] [c "\g<0>$1"; c "<a.b>"]
  = Some (s2l "\g<0>$1 <aXb> <a.b> \1 <x>").
Proof. vm_compute. reflexivity. Qed.
