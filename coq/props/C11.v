(* C11 — ids: the ids of one accepted source (AST and pickles) are pairwise distinct and all drawn during its
   processing; pickle ids are consecutive from the counter, references resolve, the counter of a stream never goes
   back; the AST ids of an accepted document are dense and in the canonical order (C11_dense, C11_canonical). *)
From Coq Require Import String.
From Coq Require Import List Bool Arith.
Import ListNotations.
Require Import Kinds PyStr Line Matcher Ast Builder Compiler CompilerSpec Pipeline PipelineFacts Stream StreamFacts AstIds DenseMain.

(* pickle steps before their pickle, consecutively, no gaps, from the counter's value *)
Theorem C11_compile_ids : forall uri d idc ps i, compile uri d idc = Some (ps, i) ->
  idc <= i /\ flat_map pickle_ids ps = seq idc (i - idc).
Proof. exact pickles_ids. Qed.
Print Assumptions C11_compile_ids.

(* every id a pickle mentions is the id of the scenario / example row / step / tag it was made from *)
Theorem C11_refs : forall uri d idc ps i, compile uri d idc = Some (ps, i) ->
  map p_nodes ps = map u_nodes (doc_units d)
  /\ map (fun p => map ps_nodes (p_steps p)) ps = map u_step_nodes (doc_units d)
  /\ map (fun p => map pt_node (p_tags p)) ps = map (fun u => map tg_id (u_tags u)) (doc_units d).
Proof.
  intros uri d idc ps i H. split; [eapply pickles_nodes; exact H | split; [eapply pickles_step_nodes; exact H|]].
  pose proof (pickles_tags uri d idc ps i H) as T.
  apply (f_equal (map (map pt_node))) in T. rewrite !map_map in T. rewrite T.
  apply map_ext. intros u. unfold pickle_tags. rewrite map_map. reflexivity.
Qed.
Print Assumptions C11_refs.

(* one generator through a stream of sources (accepted or rejected): the counter never goes back,
   so ids handed out for a later source are never below those of an earlier one *)
Theorem C11_stream_counter : forall o srcs idc es i, enum_sources o idc srcs = Some (es, i) -> idc <= i.
Proof. exact enum_sources_counter. Qed.
Print Assumptions C11_stream_counter.

Theorem C11_parse_counter : forall stop m b src, wf_ms m ->
  match state_after (parse_source stop m b src) with Some (_, b') => b_idc b <= b_idc b' | None => True end.
Proof. exact parse_source_counter. Qed.
Print Assumptions C11_parse_counter.

(* every id in the AST of an accepted document was drawn during this parse, and no two nodes share one
   (builder-stack invariant: transform_node never uses a child twice; fresh ids exceed all earlier ones) *)
Theorem C11_ast_ids : forall stop m b src d m1 b1 n, parse_source stop m b src = POk d m1 b1 n ->
  b_idc b <= b_idc b1 /\ NoDup (doc_ids d) /\ Forall (fun x => b_idc b <= x < b_idc b1) (doc_ids d).
Proof. exact ast_ids. Qed.
Print Assumptions C11_ast_ids.

(* AST ids and pickle ids of one source, together: pairwise distinct, between the counter before and after *)
Theorem C11_distinct : forall stop m b src d m1 b1 n uri ps i,
  parse_source stop m b src = POk d m1 b1 n -> compile uri d (b_idc b1) = Some (ps, i) ->
  NoDup (doc_ids d ++ flat_map pickle_ids ps) /\ Forall (fun x => b_idc b <= x < i) (doc_ids d ++ flat_map pickle_ids ps).
Proof. exact source_ids_distinct. Qed.
Print Assumptions C11_distinct.

(* density and canonical order: reading the AST of an accepted document in the order
   "children before their parent; table rows, then steps, then examples, then tags, then the owning node"
   (AstIds.doc_ids) gives exactly the ids the generator handed out during the parse, in the order it handed them out *)
Theorem C11_dense : forall stop m b src d m1 b1 n, parse_source stop m b src = POk d m1 b1 n ->
  b_idc b <= b_idc b1 /\ doc_ids d = seq (b_idc b) (b_idc b1 - b_idc b).
Proof. exact ast_ids_dense. Qed.
Print Assumptions C11_dense.

(* ... followed by the pickle ids (steps before their pickle): one gap-free run from the counter's value *)
Theorem C11_canonical : forall stop m b src d m1 b1 n uri ps i,
  parse_source stop m b src = POk d m1 b1 n -> compile uri d (b_idc b1) = Some (ps, i) ->
  doc_ids d ++ flat_map pickle_ids ps = seq (b_idc b) (i - b_idc b).
Proof. exact source_ids_dense. Qed.
Print Assumptions C11_canonical.

(* non-vacuity: a document with tags, a background, an outline with a table and examples is accepted, and numbered 0..19 *)
Definition c11_sample : str := s2l
  "@a @b
Feature: f
  Background:
    Given g
      | x | y |
      | 1 | 2 |
  @c
  Scenario Outline: s
    When <x>
    Examples:
      | x |
      | 1 |
      | 2 |
  Rule: r
    @d
    Scenario: t
      Then z
".
Example C11_dense_sample :
  match new_matcher Dialects.dialects (s2l "en") with
  | Some m =>
    match parse_source false m (new_builder 7) c11_sample with
    | POk d _ b1 _ => doc_ids d = seq 7 (b_idc b1 - 7) /\ (7 + 10 <=? b_idc b1) = true
    | _ => False
    end
  | None => False
  end.
Proof. vm_compute. split; reflexivity. Qed.

(* one id generator through a whole stream -- any number of sources, accepted or rejected, any print options:
   the ids of all AST nodes and pickles in all its envelopes are pairwise distinct and lie between the counter
   before and after *)
Require Import StreamIds.
Theorem C11_stream_distinct : forall o srcs idc es i, enum_sources o idc srcs = Some (es, i) ->
  idc <= i /\ NoDup (envs_ids es) /\ Forall (fun x => idc <= x < i) (envs_ids es).
Proof. intros o srcs idc es i H. destruct (enum_sources_ids o srcs idc es i H) as [L [N F]]. auto. Qed.
Print Assumptions C11_stream_distinct.
