(* C11 — ids: the ids of one accepted source (AST and pickles) are pairwise distinct and all drawn during its
   processing; pickle ids are consecutive from the counter, references resolve, the counter of a stream never goes
   back.  (That the AST numbering is dense and in the canonical order: by correspondence and by the generator's
   independent numbering; DESIGN 6.C11.) *)
From Coq Require Import List Bool Arith.
Import ListNotations.
Require Import Kinds PyStr Line Matcher Ast Builder Compiler CompilerSpec Pipeline PipelineFacts Stream StreamFacts AstIds.

(* pickle steps before their pickle, consecutively, no gaps, from the counter's value *)
Theorem C11_compile_ids : forall uri d idc ps i, compile uri d idc = Some (ps, i) ->
  idc <= i /\ flat_map pickle_ids ps = seq idc (i - idc).
Proof. exact pickles_ids. Qed.
Print Assumptions C11_compile_ids.

(* every id a pickle mentions is the id of the scenario / example row / step / tag it was made from *)
Theorem C11_refs : forall uri d idc ps i, compile uri d idc = Some (ps, i) ->
  map p_nodes ps = map u_nodes (doc_units d)
  /\ map (fun p => map ps_nodes (p_steps p)) ps = map u_step_nodes (doc_units d)
  /\ map (fun p => map pt_node (p_tags p)) ps = map (fun u => map tg_id (u_tags u)) (doc_units d).
Proof.
  intros uri d idc ps i H. split; [eapply pickles_nodes; exact H | split; [eapply pickles_step_nodes; exact H|]].
  pose proof (pickles_tags uri d idc ps i H) as T.
  apply (f_equal (map (map pt_node))) in T. rewrite !map_map in T. rewrite T.
  apply map_ext. intros u. unfold pickle_tags. rewrite map_map. reflexivity.
Qed.
Print Assumptions C11_refs.

(* one generator through a stream of sources (accepted or rejected): the counter never goes back,
   so ids handed out for a later source are never below those of an earlier one *)
Theorem C11_stream_counter : forall o srcs idc es i, enum_sources o idc srcs = Some (es, i) -> idc <= i.
Proof. exact enum_sources_counter. Qed.
Print Assumptions C11_stream_counter.

Theorem C11_parse_counter : forall stop m b src, wf_ms m ->
  match state_after (parse_source stop m b src) with Some (_, b') => b_idc b <= b_idc b' | None => True end.
Proof. exact parse_source_counter. Qed.
Print Assumptions C11_parse_counter.

(* every id in the AST of an accepted document was drawn during this parse, and no two nodes share one
   (builder-stack invariant: transform_node never uses a child twice; fresh ids exceed all earlier ones) *)
Theorem C11_ast_ids : forall stop m b src d m1 b1 n, parse_source stop m b src = POk d m1 b1 n ->
  b_idc b <= b_idc b1 /\ NoDup (doc_ids d) /\ Forall (fun x => b_idc b <= x < b_idc b1) (doc_ids d).
Proof. exact ast_ids. Qed.
Print Assumptions C11_ast_ids.

(* AST ids and pickle ids of one source, together: pairwise distinct, between the counter before and after *)
Theorem C11_distinct : forall stop m b src d m1 b1 n uri ps i,
  parse_source stop m b src = POk d m1 b1 n -> compile uri d (b_idc b1) = Some (ps, i) ->
  NoDup (doc_ids d ++ flat_map pickle_ids ps) /\ Forall (fun x => b_idc b <= x < i) (doc_ids d ++ flat_map pickle_ids ps).
Proof. exact source_ids_distinct. Qed.
Print Assumptions C11_distinct.
