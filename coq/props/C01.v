(* C01 — the pipeline is total and fails only with typed, located errors. *)
From Coq Require Import List Bool Arith NArith.
Import ListNotations.
Require Import Kinds Automaton PyStr Line Matcher Ast Builder Compiler CompilerSpec Pipeline PipelineFacts PipelineErrors
               ErrorFacts Stream StreamFacts Delivery DeliveryInst TableFacts Table Dialects BuilderSafe Safety Totality
               Stub Linear LinearInst.

(* Parser.parse, for every source text, either error mode, any well-formed matcher: a document, or the
   library's parser errors -- never another exception (no Crash in the model), never a hang (no OutOfFuel) *)
Theorem C01_parse_total : forall stop m b src, wf_ms m ->
  match parse_source stop m b src with
  | POk d _ _ _ => rect_doc d
  | PErrs es _ _ _ => 1 <= length es <= 11 /\ no_dup_msgs es
  | PErr1 e _ _ _ => stop = true
  | PCrash | POutOfFuel => False
  end.
Proof. exact parse_source_classified. Qed.
Print Assumptions C01_parse_total.

(* the generic core: the interpreter with the real matcher and builder never reaches a Crash *)
Theorem C01_no_crash : forall stop toks m b, wf_ms m ->
  match parse_tokens stop toks m b with
  | Crash _ => False
  | Ok _ c => exists d, builder_result (bs c) = Some d /\ rect_doc d
  | _ => True
  end.
Proof. exact parse_tokens_total. Qed.
Print Assumptions C01_no_crash.

(* the builder never crashes on a well-typed node whose required keys are present (the invariant
   the shape certificate of the regenerated table maintains) *)
Theorem C01_builder_safe : forall n comments idc x,
  node_rt n = KR x -> node_ok n -> Forall (has_key n) (required x) -> (x = RDocString -> docstring_ok n) ->
  tnode_spec x (transform_node n comments idc).
Proof. exact transform_node_ok. Qed.
Print Assumptions C01_builder_safe.
Theorem C01_shape_certificate : ShapeDefs.shape_ok Table.table ShapeCert.dstates Table.start_state ShapeCert.beta = true.
Proof. exact ShapeCert.beta_ok. Qed.
Print Assumptions C01_shape_certificate.

(* compiling any document the parser returns yields pickles *)
Theorem C01_compile_total : forall stop m b src d m' b' n uri idc, wf_ms m ->
  parse_source stop m b src = POk d m' b' n -> compile uri d idc <> None.
Proof. exact compile_parsed. Qed.
Print Assumptions C01_compile_total.
Theorem C01_compile_fails_only_on_short_rows : forall uri d idc,
  Forall rectangular_unit (doc_units d) -> compile uri d idc <> None.
Proof. exact compile_total. Qed.
Print Assumptions C01_compile_fails_only_on_short_rows.

(* the stream API turns any source(s) into envelopes: source / gherkinDocument / pickle, or parseError only *)
Theorem C01_stream_total : forall o srcs idc, enum_sources o idc srcs <> None.
Proof. exact enum_sources_total. Qed.
Print Assumptions C01_stream_total.
Theorem C01_envelopes : forall o idc uri data es i,
  enum_source o idc uri data = Some (es, i) ->
  (exists errs, es = map (fun e => EnvParseError uri (e_loc e) (e_msg e)) errs)
  \/ (exists d ps, es = accepted_envelopes o uri data d ps).
Proof. exact enum_source_shape. Qed.
Print Assumptions C01_envelopes.

(* longest test list of a state: 12 (bounds the match calls of one token outside look-ahead) *)
Theorem C01_max_tests : Nat.leb (max_tests Table.table) max_tests_bound = true.
Proof. exact max_tests_ok. Qed.
Print Assumptions C01_max_tests.

(* nothing hangs: the number of TokenMatcher.match_* calls of one Parser.parse is at most 20 per physical
   line (and 20 for the end of file), for every source text, either error mode, whatever the outcome.
   20 = 12 tests per state + 2 guarded tests x 4 matcher calls per token inside a look-ahead; the bound is
   amortised (a look-ahead starts with an empty queue: Linear.v), its side-conditions on the regenerated
   table are decided by vm_compute (LinearInst.linear_cert_ok), those on the dialect table likewise
   (no keyword is empty or starts with '#', '@' or '|') *)
Theorem C01_linear : forall stop m b src, wf_ms m ->
  match parse_source stop m b src with
  | POk _ _ _ n | PErrs _ _ _ n | PErr1 _ _ _ n => n <= 20 * (length (py_lines src) + 1)
  | PCrash => True
  | POutOfFuel => False
  end.
Proof. exact source_calls. Qed.
Print Assumptions C01_linear.

(* the same for the kind-level interpreter, every sequence of line kinds *)
Theorem C01_linear_kinds : forall stop w, Forall (fun k => k <> KEOF) w ->
  match Stub.run stop w with
  | Ok _ c | Raise1 _ c | RaiseC _ c | Crash c => calls c <= 20 * (length w + 1)
  | OutOfFuel => False
  end.
Proof. exact stub_calls. Qed.
Print Assumptions C01_linear_kinds.
