(* C01 — the pipeline is total and fails only with typed, located errors. *)
From Coq Require Import List Bool Arith NArith.
Import ListNotations.
Require Import Kinds Automaton PyStr Line Matcher Ast Builder Compiler CompilerSpec Pipeline PipelineFacts PipelineErrors
               Stream StreamFacts Delivery DeliveryInst TableFacts Table.

(* a parse ends: the model's fuel never runs out, for any source text and either error mode *)
Theorem C01_terminates : forall stop m b src, wf_ms m -> parse_source stop m b src <> POutOfFuel.
Proof.
  intros stop m b src W. pose proof (source_delivery stop m b src W) as D. unfold parse_source.
  destruct (parse_tokens stop (scan src) m b); try discriminate; [destruct (builder_result (bs c)); discriminate | contradiction].
Qed.
Print Assumptions C01_terminates.

(* what Parser.parse raises in collecting mode: between one and eleven errors, pairwise different messages;
   every error carries a line (by the type of `loc`) *)
Theorem C01_error_count : forall stop toks m b,
  match parse_tokens stop toks m b with
  | Ok _ c => errs c = []
  | RaiseC es c => es = errs c /\ no_dup_msgs es /\ 1 <= length es <= 11
  | _ => True
  end.
Proof. exact pipeline_errors. Qed.
Print Assumptions C01_error_count.

(* compiling never fails on a document whose example rows are at least as long as their headers
   (what the builder's ensure_cell_count guarantees); it fails (IndexError) only on a shorter row *)
Theorem C01_compile_total : forall uri d idc, Forall rectangular_unit (doc_units d) -> compile uri d idc <> None.
Proof. exact compile_total. Qed.
Print Assumptions C01_compile_total.

(* the stream yields source / gherkinDocument / pickle envelopes, or parseError envelopes only *)
Theorem C01_envelopes : forall o idc uri data es i,
  enum_source o idc uri data = Some (es, i) ->
  (exists errs, es = map (fun e => EnvParseError uri (e_loc e) (e_msg e)) errs)
  \/ (exists d ps, es = accepted_envelopes o uri data d ps).
Proof. exact enum_source_shape. Qed.
Print Assumptions C01_envelopes.

(* longest test list of a state: 12 (bounds the match calls of one token outside look-ahead) *)
Theorem C01_max_tests : Nat.leb (max_tests Table.table) max_tests_bound = true.
Proof. exact max_tests_ok. Qed.
Print Assumptions C01_max_tests.
