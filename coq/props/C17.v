(* C17 — stream output: order, dependence, and the shape of every envelope (Schema.v is the reading of
   Cucumber Messages; the same reading, in Python, is applied to the implementation's envelopes). *)
From Coq Require Import String List Bool Arith.
Import ListNotations.
Require Import Kinds PyStr Line Matcher Ast Builder Compiler Pipeline Stream StreamFacts Json Schema SchemaFacts.

Theorem C17_order : forall o idc uri data es i,
  enum_source o idc uri data = Some (es, i) ->
  (exists errs, es = map (fun e => EnvParseError uri (e_loc e) (e_msg e)) errs)
  \/ (exists d ps, es = accepted_envelopes o uri data d ps).
Proof. exact enum_source_shape. Qed.
Print Assumptions C17_order.

Theorem C17_source_verbatim : forall o idc uri data es i e,
  enum_source o idc uri data = Some (es, i) -> In e es ->
  match e with EnvSource u dt mt => u = uri /\ dt = data /\ mt = MEDIA_TYPE | _ => True end.
Proof. exact source_verbatim. Qed.
Print Assumptions C17_source_verbatim.

(* sources are handled in the order given; each source's envelopes are a function of that
   source and the running id counter (enum_source o i uri data), nothing else *)
Theorem C17_sequence : forall o a b idc,
  enum_sources o idc (a ++ b) =
  match enum_sources o idc a with
  | None => None
  | Some (es, i) => match enum_sources o i b with None => None | Some (es', i') => Some (es ++ es', i') end
  end.
Proof. exact enum_sources_app. Qed.
Print Assumptions C17_sequence.

(* vocabulary: the step types the JSON printer can emit *)
Theorem C17_vocabulary : forall (t : ptype) (k : ktype),
  In (ptype_str t) (map s2l ["Unknown"; "Context"; "Action"; "Outcome"]%string)
  /\ In (TokenFormatter.ktype_str k) (map s2l ["Unknown"; "Context"; "Action"; "Outcome"; "Conjunction"]%string).
Proof. intros t k. split; [destruct t | destruct k]; simpl; auto 6. Qed.
Print Assumptions C17_vocabulary.

(* every envelope the stream yields, rendered as the JSON the implementation's dictionaries have, has the
   shape Cucumber Messages prescribes: exactly one of source / gherkinDocument / pickle / parseError;
   required keys present and no others; strings, integers and lists where required; keywordType and
   pickle step type from the fixed vocabularies; optional keys (column, mediaType, tableHeader, dataTable,
   docString, argument, feature) absent or well-typed, never null *)
Theorem C17_schema : forall o idc uri data es i e,
  enum_source o idc uri data = Some (es, i) -> In e es -> s_envelope (j_envelope e) = true.
Proof. exact stream_envelopes_ok. Qed.
Print Assumptions C17_schema.

(* each source's envelopes depend only on that source and the running id counter -- and on the counter only as an
   offset: they are the envelopes of the source run alone with a fresh generator, every id (AST, pickle, reference)
   raised by the counter's value; parse errors are the same *)
Require Import IdShift CompileShift StreamShift.
Theorem C17_counter_offset : forall o i uri data, enum_source o i uri data = esh i (enum_source o 0 uri data).
Proof. exact enum_source_fresh. Qed.
Print Assumptions C17_counter_offset.
