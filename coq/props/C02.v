(* C02 — accepted language and rule nesting are those of gherkin.berp.
   Only theorem statements here; proofs are in proofs/. *)
From Coq Require Import List Bool Arith.
Import ListNotations.
Require Import Kinds Regex Grammar RefSem NFA Stub Table Automaton Nesting Bisim TableFacts C02Lemmas Pipeline LanguageLink LanguageStub.

(* the regenerated table, read as an automaton over line kinds (guards = nondeterministic choice),
   accepts exactly the words of the reference semantics of the regenerated grammar: all lengths *)
Theorem C02_language_nfa : forall w, runN Table.table [Table.start_state] w = runR G w.
Proof. exact nfa_language_eq. Qed.
Print Assumptions C02_language_nfa.

(* the interpreter itself -- Parser.parse over the regenerated table, with its token queue, its
   look-ahead methods re-queuing what they read, error collection and the eleven-error cap --
   accepts a sequence of line kinds (the scanner's lines; the end of file follows them) exactly
   when that sequence is a sentence of the regenerated grammar: every length, no bound.
   Chain: interpreter = deterministic guarded machine (stub_accepts_dacc) = nondeterministic view
   (det_language: the look-ahead hints are exact, by verified product-closure certificates)
   = reference semantics of gherkin.berp (nfa_language_eq: verified bisimulation certificate). *)
Theorem C02_language : forall w, Forall (fun k => k <> KEOF) w -> Stub.accepts w = runR G (w ++ [KEOF]).
Proof. exact stub_language. Qed.
Print Assumptions C02_language.
Example C02_language_nonvacuous :
  Stub.accepts [KTagLine; KFeatureLine; KOther; KTagLine; KComment; KTagLine; KScenarioLine; KStepLine; KDocStringSeparator; KFeatureLine; KDocStringSeparator; KTagLine; KEmpty; KExamplesLine; KTableRow] = true
  /\ Stub.accepts [KFeatureLine; KTagLine; KComment; KStepLine] = false.
Proof. vm_compute. split; reflexivity. Qed.

(* every normally-returning run of the kind-level interpreter (queue, look-ahead, error modes
   included) reports to the builder a derivation of the grammar *)
Theorem C02_nesting_kinds : forall stop w c, Stub.run stop w = Ok tt c -> valid_events (abs c) = true.
Proof. exact stub_nesting. Qed.
Print Assumptions C02_nesting_kinds.

(* the same for the real pipeline (real matcher and AST builder), for every token list *)
Theorem C02_nesting_pipeline : forall stop toks m b c,
  parse_tokens stop toks m b = Ok tt c -> valid_events (abs c) = true.
Proof. exact pipeline_nesting. Qed.
Print Assumptions C02_nesting_pipeline.

(* same transition function as the five sibling generated parsers *)
Theorem C02_siblings : siblings_agree = true.
Proof. exact siblings_agree_ok. Qed.
Print Assumptions C02_siblings.

(* look-ahead methods are the grammar's hints *)
Theorem C02_hints : la_matches_hints = true /\ guards_shape Table.table = true.
Proof. exact (conj la_matches_hints_ok guards_shape_ok). Qed.
Print Assumptions C02_hints.

Require Import PyStr Matcher Builder PipelineFacts Sentence SentenceInst.

(* The same for the real pipeline -- the real matcher over text, the real AST builder, any dialect, either mode: every
   accepted document is a sentence of gherkin.berp.  `run_kinds c` reads the run's log: the kinds under which the
   lines were handed to the builder, in order, the end of file last (C18_delivery: these are all the lines of the
   source, each once).  `runR G` is the reference recogniser of the regenerated grammar.  (Generic part: a normal
   return walks a path of the table -- PathReplay -- and every path of the table is a run of the table read as a
   nondeterministic automaton -- Sentence.v, side conditions on the table by vm_compute; then C02_language_nfa.)
   The converse -- a sentence whose lines raise no matcher or builder error is accepted -- is C02_language on the
   kind-level stub plus correspondence. *)
Theorem C02_accepted_is_sentence : forall stop toks m b c, wf_ms m ->
  parse_tokens stop toks m b = Ok tt c -> runR G (run_kinds c) = true.
Proof. exact pipeline_sentence. Qed.
Print Assumptions C02_accepted_is_sentence.

From Coq Require Import String.
Example C02_accepted_is_sentence_sample :
  match new_matcher Dialects.dialects (PyStr.s2l "en") with
  | Some m =>
    match parse_tokens false (scan (PyStr.s2l "# language: en
@t
Feature: f
  free text
  Scenario Outline: o
    Given <a>
      | x |
    @e
    Examples:
      | a |
")) m (new_builder 0) with
    | Ok _ c => run_kinds c = [KLanguage; KTagLine; KFeatureLine; KOther; KScenarioLine; KStepLine; KTableRow; KTagLine; KExamplesLine; KTableRow; KEOF]
    | _ => False
    end
  | None => False
  end.
Proof. vm_compute. reflexivity. Qed.
