(* C13 — doc strings are opaque: verbatim content, closed only by their own delimiter. *)
From Coq Require Import List Bool Arith NArith.
Import ListNotations.
Require Import Kinds PyStr Line Matcher Ast Builder Automaton Pipeline Table TableFacts Dialects DocStringFacts DocSepExact.

(* the states reached by an opening delimiter test exactly [#DocStringSeparator; #Other], unguarded,
   and #Other loops with a single build *)
Theorem C13_states : docstring_states_opaque Table.table = true.
Proof. exact docstring_states_opaque_ok. Qed.
Print Assumptions C13_states.

(* with an active separator only a line starting with that separator closes (the other delimiter does not) *)
Theorem C13_not_closed : forall ds m t l sep, tk_line t = Some l -> ms_sep m = Some sep ->
  line_startswith l sep = false -> matcher ds KDocStringSeparator m t = MNo.
Proof. exact docsep_active_no. Qed.
Print Assumptions C13_not_closed.
Theorem C13_closed : forall ds m t l sep, tk_line t = Some l -> ms_sep m = Some sep ->
  line_startswith l sep = true ->
  exists t', matcher ds KDocStringSeparator m t = MYes t' (mk_mstate (ms_default m) (ms_name m) (ms_dialect m) None 0)
             /\ m_keyword t' = Some sep /\ m_type t' = Some KDocStringSeparator.
Proof. exact docsep_active_close. Qed.
Print Assumptions C13_closed.

(* opening: the rest of the line is the media type *)
Theorem C13_open : forall ds m t l sep, tk_line t = Some l -> ms_sep m = None ->
  (sep = DQ3 \/ (sep = BT3 /\ line_startswith l DQ3 = false)) -> line_startswith l sep = true ->
  exists t', matcher ds KDocStringSeparator m t = MYes t' (mk_mstate (ms_default m) (ms_name m) (ms_dialect m) (Some sep) (l_indent l))
             /\ m_keyword t' = Some sep /\ m_text t' = Some (rstrip_crlf (get_rest_trimmed l (length sep))).
Proof. exact docsep_open. Qed.
Print Assumptions C13_open.

(* one content line through Parser.match_token in a doc-string state: whatever the line looks like
   (keyword, tag, comment, table row, blank, the other delimiter) it is built as #Other with the
   content text, the parser stays in the state, the matcher is untouched, and exactly two matcher
   functions were consulted *)
Theorem C13_line : forall stop s t c l sep, In s (docstring_states Table.table) ->
  tk_line t = Some l -> ms_sep (ms c) = Some sep -> line_startswith l sep = false ->
  exists t' c2,
    match_token (pipeline_params Table.table) stop s t c
    = bind (exec (pipeline_params Table.table) stop t' KOther [PB] c2) (fun _ c3 => Ok s c3)
    /\ m_text t' = Some (content_of (ms c) l) /\ m_type t' = Some KOther
    /\ ms c2 = ms c /\ bs c2 = bs c /\ errs c2 = errs c /\ queue c2 = queue c /\ rest c2 = rest c /\ log c2 = log c
    /\ calls c2 = S (S (calls c)) /\ lineno c2 = lineno c.
Proof. exact docstring_line_step. Qed.
Print Assumptions C13_line.

(* a whole body, any number of lines: the parse loop consumes exactly these lines as content, in order *)
Theorem C13_segment : forall stop s sep, In s (docstring_states Table.table) ->
  forall body fuel c r cur stk,
  ms_sep (ms c) = Some sep -> queue c = [] -> rest c = body ++ r ->
  Forall (is_content_line sep) body -> b_stack (bs c) = cur :: stk ->
  exists c' ts,
    loop (pipeline_params Table.table) (length body + fuel) stop s c = loop (pipeline_params Table.table) fuel stop s c'
    /\ queue c' = [] /\ rest c' = r /\ ms c' = ms c /\ errs c' = errs c
    /\ lineno c' = lineno c + length body
    /\ calls c' = calls c + 2 * length body
    /\ b_stack (bs c') = add_others cur ts :: stk /\ b_comments (bs c') = b_comments (bs c) /\ b_idc (bs c') = b_idc (bs c)
    /\ map m_text ts = map (fun t => match tk_line t with Some l => Some (content_of (ms c) l) | None => None end) body.
Proof. exact docstring_body. Qed.
Print Assumptions C13_segment.

(* the AST node: content = the content texts joined by line feeds, in order; media type absent when empty *)
Theorem C13_node : forall open_ close_ os texts delim mt comments idc,
  m_keyword open_ = Some delim -> m_text open_ = Some mt -> map m_text os = map Some texts ->
  transform_node (Node (KR RDocString)
      ((KT KDocStringSeparator, VTok open_) :: map (fun o => (KT KOther, VTok o)) os ++ [(KT KDocStringSeparator, VTok close_)]))
    comments idc
  = TOk (VDocString (mk_docstring (get_location open_ None) (join [LF] texts) delim
                       (match mt with [] => None | _ => Some mt end))) idc.
Proof. exact docstring_transform. Qed.
Print Assumptions C13_node.

(* non-vacuity: the table has doc-string states *)
Example C13_states_exist : docstring_states Table.table <> [].
Proof. vm_compute. discriminate. Qed.

(* When a line is a doc-string delimiter, exactly.  Outside a doc string: iff its trimmed text begins with three double quotes
   or three backticks (the quotes are tried first; the trimmed rest of the line is the media type, the line's indentation is
   what will be removed from the content lines).  Inside a doc string: iff it begins with the delimiter that opened it,
   whatever follows -- so the other delimiter, a longer run of the other character, and the delimiter after other text are
   content, and a closing line may carry trailing text. *)
Theorem C13_opening_exact : forall m t l, tk_line t = Some l -> ms_sep m = None ->
  yes (matcher dialects KDocStringSeparator m t) = line_startswith l DQ3 || line_startswith l BT3.
Proof. exact docsep_opening_exact. Qed.
Print Assumptions C13_opening_exact.

Theorem C13_opening_result : forall m t l, tk_line t = Some l -> ms_sep m = None ->
  forall t' m', matcher dialects KDocStringSeparator m t = MYes t' m' ->
  exists sep, (sep = DQ3 /\ line_startswith l DQ3 = true \/ sep = BT3 /\ line_startswith l DQ3 = false /\ line_startswith l BT3 = true)
    /\ ms_sep m' = Some sep /\ ms_indent m' = l_indent l /\ m_keyword t' = Some sep
    /\ m_text t' = Some (rstrip_crlf (get_rest_trimmed l (length sep))).
Proof. exact docsep_opening_result. Qed.
Print Assumptions C13_opening_result.

Theorem C13_closing_exact : forall m t l sep, tk_line t = Some l -> ms_sep m = Some sep ->
  yes (matcher dialects KDocStringSeparator m t) = line_startswith l sep.
Proof. exact docsep_closing_exact. Qed.
Print Assumptions C13_closing_exact.

Theorem C13_closing_result : forall m t l sep, tk_line t = Some l -> ms_sep m = Some sep ->
  forall t' m', matcher dialects KDocStringSeparator m t = MYes t' m' -> ms_sep m' = None /\ ms_indent m' = 0%nat.
Proof. exact docsep_closing_result. Qed.
Print Assumptions C13_closing_result.
