(* C07 — pickle steps = feature background, then the rule's own background, then own steps. *)
From Coq Require Import String List Bool Arith NArith.
Local Open Scope string_scope.
Local Open Scope list_scope.
Import ListNotations.
Require Import PyStr Matcher Ast Compiler CompilerSpec.

(* per pickle: the source steps (ids, and the row for an outline's own steps); nothing when the
   scenario has no steps of its own *)
Theorem C07_steps : forall uri d idc ps i, compile uri d idc = Some (ps, i) ->
  map (fun p => map ps_nodes (p_steps p)) ps = map u_step_nodes (doc_units d).
Proof. exact pickles_step_nodes. Qed.
Print Assumptions C07_steps.

(* arguments: background steps and plain steps copied cell by cell / line by line (arg_copy);
   an outline's own steps through the row's substitution (arg_spec) *)
Theorem C07_args : forall uri d idc ps i, compile uri d idc = Some (ps, i) ->
  map (fun p => map ps_arg (p_steps p)) ps = map u_step_args (doc_units d).
Proof. exact pickles_step_args. Qed.
Print Assumptions C07_args.

(* which background is in scope: for a document of the grammar's shape (background first, then
   scenarios, then rules; same inside a rule) a scenario of the feature sees the feature
   background only, a scenario of a rule sees the feature background followed by the background
   of *that* rule -- never another rule's *)
Theorem C07_no_leak : forall ftags fb scs (rs : list prule),
  feature_ctxs ftags []
    (match fb with Some x => [FCBackground x] | None => [] end
     ++ map FCScenario scs ++ map (fun r => FCRule (pr_rule r)) rs)
  = map (mk_sctx ftags (bg_steps_opt fb)) scs
    ++ flat_map (fun r => map (mk_sctx (ftags ++ ru_tags (pr_rule r)) (bg_steps_opt fb ++ bg_steps_opt (pr_bg r))) (pr_scs r)) rs.
Proof. exact feature_ctxs_shape. Qed.
Print Assumptions C07_no_leak.

(* empty tables and empty doc strings are carried over as such *)
Theorem C07_empty_args : forall s l d,
  (st_arg s = ArgTable l [] -> arg_copy s = PArgTable []) /\
  (st_arg s = ArgDoc d -> ds_content d = [] -> arg_copy s = PArgDoc [] (ds_media d)).
Proof. intros s l d. unfold arg_copy. split; [intros -> | intros -> ->]; reflexivity. Qed.
Print Assumptions C07_empty_args.

Example C07_example :
  let loc := mk_loc 1 (Some 1) in
  let st n := mk_step n loc [] Context [] ArgNone in
  let fb := mk_background 10 loc [] [] [] [st 0] in
  let rb1 := mk_background 11 loc [] [] [] [st 1] in
  let rb2 := mk_background 12 loc [] [] [] [st 2] in
  let sc n k := mk_scenario n [] loc [] [] [] [st k] [] in
  let r1 := mk_grule 20 [] loc [] [] [] [RCBackground rb1; RCScenario (sc 30 3)] in
  let r2 := mk_grule 21 [] loc [] [] [] [RCBackground rb2; RCScenario (sc 31 4); RCScenario (mk_scenario 32 [] loc [] [] [] [] [])] in
  let d := mk_document (Some (mk_feature [] loc [] [] [] [] [FCBackground fb; FCScenario (sc 29 5); FCRule r1; FCRule r2])) [] in
  option_map (fun r => map (fun p => map ps_nodes (p_steps p)) (fst r)) (compile [] d 40)
  = Some [[[0]; [5]]; [[0]; [1]; [3]]; [[0]; [2]; [4]]; []].
Proof. vm_compute. reflexivity. Qed.
