(* C16 — layout is meaning-neutral.  Line endings (CRLF / LF / none on the last line) and the final line break:
   end-to-end theorems (C16_crlf, C16_final_line_break, C16_terminators, at the end of this file).  Trailing
   blanks, extra indentation, inserted blank / comment lines: lemmas about the scanner, the string primitives
   and the table here; the end-to-end relations are decided by the transformation oracle on the implementation
   and by correspondence of layout variants (DESIGN 6.C16). *)
From Coq Require Import List Bool Arith NArith.
Import ListNotations.
Require Import Kinds PyStr Line Matcher LocationFacts LayoutFacts TableFacts Table.

(* loading from a file (text mode, universal newlines) = the string with CRLF written as LF *)
Theorem C16_file : forall s, ~ In CR s -> universal_newlines (crlf s) = s /\ universal_newlines s = s.
Proof. intros s H. split; [apply universal_newlines_crlf | apply universal_newlines_no_cr]; exact H. Qed.
Print Assumptions C16_file.

(* the line terminator (LF or CRLF, or none on the last line) never reaches matched text ... *)
Theorem C16_terminator : forall x, ~ In CR x -> ~ In LF x ->
  rstrip_crlf (x ++ [LF]) = x /\ rstrip_crlf (x ++ [CR; LF]) = x /\ rstrip_crlf x = x.
Proof. exact rstrip_crlf_app_lf. Qed.
Print Assumptions C16_terminator.
(* ... nor stripped text (names, step text, media types, rows, tag lines, language headers) *)
Theorem C16_strip : forall x, strip (x ++ [CR; LF]) = strip (x ++ [LF]) /\ strip (x ++ [LF]) = strip x.
Proof. exact strip_ignores_line_end. Qed.
Print Assumptions C16_strip.

(* a final line break does not add a line *)
Theorem C16_final_newline : forall x, x <> [] -> ~ In LF (removelast x) -> last x 0%N <> LF ->
  py_lines (x ++ [LF]) = [x ++ [LF]] /\ py_lines x = [x].
Proof. exact py_lines_final_newline. Qed.
Print Assumptions C16_final_newline.

(* indentation only moves the column: the trimmed text, which is all the matchers look at, starts at indent *)
Theorem C16_indent : forall text n,
  skipn (l_indent (make_line text n)) (l_text (make_line text n)) = l_trimmed (make_line text n).
Proof. exact indent_points_at_trimmed. Qed.
Print Assumptions C16_indent.

(* blank lines: every state outside descriptions and doc strings builds an #Empty line and stays put *)
Theorem C16_blank_lines : blank_neutral Table.table = true.
Proof. exact blank_neutral_ok. Qed.
Print Assumptions C16_blank_lines.

Require Import Kinds Automaton Matcher Builder Pipeline PipelineFacts BuilderErase TerminatorFacts ParamGlue LineEndings.

(* CRLF line endings change nothing: for every source text, either error mode, any well-formed matcher state and
   any builder state, parsing the CRLF rendering gives the same document -- or the same errors -- the same matcher
   state afterwards and the same number of matcher calls (psim; the builder states may differ in the physical lines
   of tokens still on the stack after a rejected parse).  Composition of: Paramcoq's relational parametricity of the
   interpreter (kernel-checked), the matcher theorem (no line terminator is visible to any match_* method), the
   builder theorem (the builder never reads a token's physical line) and "a blank line is never unexpected". *)
Theorem C16_crlf : forall stop m b src, wf_ms m ->
  psim (parse_source stop m b src) (parse_source stop m b (crlf src)).
Proof. exact crlf_neutral. Qed.
Print Assumptions C16_crlf.

(* a final line break does not change the result *)
Theorem C16_final_line_break : forall stop m b src, wf_ms m -> src <> [] -> last src 0%N <> LF ->
  psim (parse_source stop m b (src ++ [LF])) (parse_source stop m b src).
Proof. exact final_newline_neutral. Qed.
Print Assumptions C16_final_line_break.

(* the general form: any two token lists whose physical lines differ only in their runs of trailing CR / LF *)
Theorem C16_terminators : forall stop toks toks' m b, wf_ms m -> list_R token token TRel toks toks' ->
  psim (presult_of (parse_tokens stop toks m b)) (presult_of (parse_tokens stop toks' m b)).
Proof. exact tokens_related. Qed.
Print Assumptions C16_terminators.

(* the AST builder never looks at the physical line of a token *)
Theorem C16_builder_blind : forall t r b,
  bout_map berase (builder_build t b) = builder_build (terase t) (berase b)
  /\ bout_map berase (builder_end r b) = builder_end r (berase b)
  /\ builder_result (berase b) = builder_result b.
Proof. intros t r b. exact (conj (builder_build_erase t b) (conj (builder_end_erase r b) (builder_result_erase b))). Qed.
Print Assumptions C16_builder_blind.

(* no match_* method sees the terminator of the line it is given *)
Theorem C16_matcher_blind : forall c n tl m t k, all_crlf tl -> MI m -> tk_line t = Some (make_line (c ++ tl) n) ->
  mout_rel t (make_line c n) (matcher Dialects.dialects k m t) (matcher Dialects.dialects k m (with_line (make_line c n) t)).
Proof. intros c n tl m t k Ht Hm Hl. exact (matcher_tail c n tl Ht m Hm t Hl k). Qed.
Print Assumptions C16_matcher_blind.
