(* C16 — layout is meaning-neutral: the parts proved about the scanner, the string primitives and the
   table; the end-to-end relations are decided by the transformation oracle on the implementation
   and by correspondence of layout variants (DESIGN 6.C16). *)
From Coq Require Import List Bool Arith NArith.
Import ListNotations.
Require Import Kinds PyStr Line Matcher LocationFacts LayoutFacts TableFacts Table.

(* loading from a file (text mode, universal newlines) = the string with CRLF written as LF *)
Theorem C16_file : forall s, ~ In CR s -> universal_newlines (crlf s) = s /\ universal_newlines s = s.
Proof. intros s H. split; [apply universal_newlines_crlf | apply universal_newlines_no_cr]; exact H. Qed.
Print Assumptions C16_file.

(* the line terminator (LF or CRLF, or none on the last line) never reaches matched text ... *)
Theorem C16_terminator : forall x, ~ In CR x -> ~ In LF x ->
  rstrip_crlf (x ++ [LF]) = x /\ rstrip_crlf (x ++ [CR; LF]) = x /\ rstrip_crlf x = x.
Proof. exact rstrip_crlf_app_lf. Qed.
Print Assumptions C16_terminator.
(* ... nor stripped text (names, step text, media types, rows, tag lines, language headers) *)
Theorem C16_strip : forall x, strip (x ++ [CR; LF]) = strip (x ++ [LF]) /\ strip (x ++ [LF]) = strip x.
Proof. exact strip_ignores_line_end. Qed.
Print Assumptions C16_strip.

(* a final line break does not add a line *)
Theorem C16_final_newline : forall x, x <> [] -> ~ In LF (removelast x) -> last x 0%N <> LF ->
  py_lines (x ++ [LF]) = [x ++ [LF]] /\ py_lines x = [x].
Proof. exact py_lines_final_newline. Qed.
Print Assumptions C16_final_newline.

(* indentation only moves the column: the trimmed text, which is all the matchers look at, starts at indent *)
Theorem C16_indent : forall text n,
  skipn (l_indent (make_line text n)) (l_text (make_line text n)) = l_trimmed (make_line text n).
Proof. exact indent_points_at_trimmed. Qed.
Print Assumptions C16_indent.

(* blank lines: every state outside descriptions and doc strings builds an #Empty line and stays put *)
Theorem C16_blank_lines : blank_neutral Table.table = true.
Proof. exact blank_neutral_ok. Qed.
Print Assumptions C16_blank_lines.
