(* C16 — layout is meaning-neutral.  Line endings (CRLF / LF / none on the last line) and the final line break:
   end-to-end theorems (C16_crlf, C16_final_line_break, C16_terminators, at the end of this file).  Trailing
   blanks, extra indentation, inserted blank / comment lines: lemmas about the scanner, the string primitives
   and the table here; the end-to-end relations are decided by the transformation oracle on the implementation
   and by correspondence of layout variants (DESIGN 6.C16). *)
From Coq Require Import List Bool Arith NArith.
Import ListNotations.
Require Import Kinds PyStr Line Matcher LocationFacts LayoutFacts TableFacts Table.

(* loading from a file (text mode, universal newlines) = the string with CRLF written as LF *)
Theorem C16_file : forall s, ~ In CR s -> universal_newlines (crlf s) = s /\ universal_newlines s = s.
Proof. intros s H. split; [apply universal_newlines_crlf | apply universal_newlines_no_cr]; exact H. Qed.
Print Assumptions C16_file.

(* the line terminator (LF or CRLF, or none on the last line) never reaches matched text ... *)
Theorem C16_terminator : forall x, ~ In CR x -> ~ In LF x ->
  rstrip_crlf (x ++ [LF]) = x /\ rstrip_crlf (x ++ [CR; LF]) = x /\ rstrip_crlf x = x.
Proof. exact rstrip_crlf_app_lf. Qed.
Print Assumptions C16_terminator.
(* ... nor stripped text (names, step text, media types, rows, tag lines, language headers) *)
Theorem C16_strip : forall x, strip (x ++ [CR; LF]) = strip (x ++ [LF]) /\ strip (x ++ [LF]) = strip x.
Proof. exact strip_ignores_line_end. Qed.
Print Assumptions C16_strip.

(* a final line break does not add a line *)
Theorem C16_final_newline : forall x, x <> [] -> ~ In LF (removelast x) -> last x 0%N <> LF ->
  py_lines (x ++ [LF]) = [x ++ [LF]] /\ py_lines x = [x].
Proof. exact py_lines_final_newline. Qed.
Print Assumptions C16_final_newline.

(* indentation only moves the column: the trimmed text, which is all the matchers look at, starts at indent *)
Theorem C16_indent : forall text n,
  skipn (l_indent (make_line text n)) (l_text (make_line text n)) = l_trimmed (make_line text n).
Proof. exact indent_points_at_trimmed. Qed.
Print Assumptions C16_indent.

(* blank lines: every state outside descriptions and doc strings builds an #Empty line and stays put *)
Theorem C16_blank_lines : blank_neutral Table.table = true.
Proof. exact blank_neutral_ok. Qed.
Print Assumptions C16_blank_lines.

Require Import Kinds Automaton Matcher Builder Pipeline PipelineFacts BuilderErase TerminatorFacts ParamGlue LineEndings.

(* CRLF line endings change nothing: for every source text, either error mode, any well-formed matcher state and
   any builder state, parsing the CRLF rendering gives the same document -- or the same errors -- the same matcher
   state afterwards and the same number of matcher calls (psim; the builder states may differ in the physical lines
   of tokens still on the stack after a rejected parse).  Composition of: Paramcoq's relational parametricity of the
   interpreter (kernel-checked), the matcher theorem (no line terminator is visible to any match_* method), the
   builder theorem (the builder never reads a token's physical line) and "a blank line is never unexpected". *)
Theorem C16_crlf : forall stop m b src, wf_ms m ->
  psim (parse_source stop m b src) (parse_source stop m b (crlf src)).
Proof. exact crlf_neutral. Qed.
Print Assumptions C16_crlf.

(* a final line break does not change the result *)
Theorem C16_final_line_break : forall stop m b src, wf_ms m -> src <> [] -> last src 0%N <> LF ->
  psim (parse_source stop m b (src ++ [LF])) (parse_source stop m b src).
Proof. exact final_newline_neutral. Qed.
Print Assumptions C16_final_line_break.

(* the general form: any two token lists whose physical lines differ only in their runs of trailing CR / LF *)
Theorem C16_terminators : forall stop toks toks' m b, wf_ms m -> list_R token token TRel toks toks' ->
  psim (presult_of (parse_tokens stop toks m b)) (presult_of (parse_tokens stop toks' m b)).
Proof. exact tokens_related. Qed.
Print Assumptions C16_terminators.

(* the AST builder never looks at the physical line of a token *)
Theorem C16_builder_blind : forall t r b,
  bout_map berase (builder_build t b) = builder_build (terase t) (berase b)
  /\ bout_map berase (builder_end r b) = builder_end r (berase b)
  /\ builder_result (berase b) = builder_result b.
Proof. intros t r b. exact (conj (builder_build_erase t b) (conj (builder_end_erase r b) (builder_result_erase b))). Qed.
Print Assumptions C16_builder_blind.

(* no match_* method sees the terminator of the line it is given *)
Theorem C16_matcher_blind : forall c n tl m t k, all_crlf tl -> MI m -> tk_line t = Some (make_line (c ++ tl) n) ->
  mout_rel t (make_line c n) (matcher Dialects.dialects k m t) (matcher Dialects.dialects k m (with_line (make_line c n) t)).
Proof. intros c n tl m t k Ht Hm Hl. exact (matcher_tail c n tl Ht m Hm t Hl k). Qed.
Print Assumptions C16_matcher_blind.

Require Import AgreeUpTo BlankTail BlankParse.

(* Trailing blanks.  No match_* method other than match_Other, match_Comment (on a comment line) and match_StepLine
   (when the keyword test itself changes its answer) sees the run of whitespace that ends its line: for a non-blank
   text c and any run of whitespace tl (blanks, tabs, the terminator), matching the line c ++ tl gives what matching c
   gives -- same answer, same matcher state, same token up to the physical line it carries. *)
Theorem C16_matcher_blind_whitespace : forall c n tl m t k, all_space tl -> is_blank_text c = false -> MIw m ->
  tk_line t = Some (make_line (c ++ tl) n) -> blind_ok c n tl m k ->
  mout_wrel t (make_line c n) (matcher Dialects.dialects k m t) (matcher Dialects.dialects k m (with_line (make_line c n) t)).
Proof. intros c n tl m t k Ht Hc Hm Hl Hk. exact (matcher_wtail c n tl Ht Hc m Hm t Hl k Hk). Qed.
Print Assumptions C16_matcher_blind_whitespace.

(* The paired run (BlankParse.paired_run: every changed token carries its twin from the other source, the matcher state
   carries a flag) IS the real run on the first source: same outcome, same matcher state, same builder state, same
   number of matcher calls.  Its flag goes up exactly when the matcher is asked, about a changed token, whether it is
   free text, whether it is a comment while it begins with '#', or a step question that the two lines answer differently. *)
Theorem C16_paired_run_is_the_run : forall stop xs m b,
  out_rel MRa eq (paired_run stop xs m b) (parse_tokens stop (map fst xs) m b).
Proof.
  intros stop xs m b. apply (res_R_out TRa MRa eq). unfold paired_run, parse_tokens, parse_tokens_with.
  exact (parse_R _ _ TRa _ _ MRa _ _ eq _ _ ER PA (pipeline_params Table.table) paramsA_related stop stop (bool_R_refl stop)
                 xs (map fst xs) (list_R_fst xs) (reset_matcher Dialects.dialects m, false) (reset_matcher Dialects.dialects m) eq_refl
                 (reset_builder b) (reset_builder b) eq_refl).
Qed.
Print Assumptions C16_paired_run_is_the_run.
Theorem C16_flag_rule : forall k m p t,
  (forall t', flag (mres_ms (matchA k (m, p) (t, Some t'))) = p || unblind k m t t')
  /\ flag (mres_ms (matchA k (m, p) (t, None))) = p.
Proof. intros k m p t. split; [intros t'|]; unfold matchA; cbn [snd fst]; rewrite mres_ms_map; reflexivity. Qed.
Print Assumptions C16_flag_rule.

(* Two sources whose physical lines are pairwise equal or differ only in the whitespace that ends them (blanks or tabs
   added to or removed from the end of non-blank lines; LF / CRLF / nothing as terminator) give the same document -- or
   the same errors --, the same matcher state and the same number of matcher calls, in either error mode, whenever the run
   on the first source ends with the flag down, i.e. never asks one of the three questions above about a changed line
   (a changed line is not read as free text, is not a comment, is not a step keyword cut at its final blank).
   Chain: paired run A = real run on the first source (projection, parametricity); run B = A while the flag is down
   (AgreeUpTo.parse_agree); run B ~ real run on the second source (parametricity + the matcher theorem + the builder
   theorem of C16_builder_blind). *)
Theorem C16_trailing_whitespace : forall stop m b src src', wf_ms m ->
  Forall2 lrel (py_lines src) (py_lines src') ->
  blank_safe stop (pair_lines (py_lines src) (py_lines src') 1) m b ->
  psim (parse_source stop m b src) (parse_source stop m b src').
Proof. exact trailing_whitespace_neutral. Qed.
Print Assumptions C16_trailing_whitespace.

(* non-vacuity: trailing blanks / tabs after tag, keyword, step, row and delimiter lines of an accepted document and of a
   rejected one: the hypotheses hold (the doc string's content line is left alone), and so does the conclusion *)
From Coq Require Import String.
Definition c16_plain : str := s2l
"@t
Feature: f
  Scenario: s
    Given g
      | a |
    And d
      ```
      text  
      ```
".
Definition c16_padded : str := s2l
"@t  
Feature: f 	
  Scenario: s  
    Given g   
      | a |  
    And d 
      ```  
      text  
      ```   
".
Definition c16_plain_bad : str := (c16_plain ++ s2l "  Background: late
")%list.
Definition c16_padded_bad : str := (c16_padded ++ s2l "  Background: late   
")%list.
Example C16_trailing_whitespace_sample :
  match new_matcher Dialects.dialects (s2l "en") with
  | Some m =>
    forallb2 lrelb (py_lines c16_plain) (py_lines c16_padded) = true
    /\ flag_down (paired_run false (pair_lines (py_lines c16_plain) (py_lines c16_padded) 1) m (new_builder 0)) = true
    /\ negb (str_eqb c16_plain c16_padded) = true
    /\ match parse_source false m (new_builder 0) c16_plain with POk _ _ _ _ => True | _ => False end
    /\ forallb2 lrelb (py_lines c16_plain_bad) (py_lines c16_padded_bad) = true
    /\ flag_down (paired_run false (pair_lines (py_lines c16_plain_bad) (py_lines c16_padded_bad) 1) m (new_builder 0)) = true
    /\ match parse_source false m (new_builder 0) c16_plain_bad with PErrs _ _ _ _ => True | _ => False end
    (* and the flag does go up when the changed line is doc-string content *)
    /\ flag_down (paired_run false (pair_lines (py_lines c16_padded) (py_lines (s2l "@t
Feature: f
  Scenario: s
    Given g
      | a |
    And d
      ```
      text
      ```
")) 1) m (new_builder 0)) = false
  | None => False
  end.
Proof. vm_compute. repeat split. Qed.

Require Import Ast ColErase IndentTail IndentParse StopFirst StopAccepts.

(* Indentation.  The AST builder never looks at a column: running any builder operation on a state whose columns
   (of tokens, tag / cell items, finished nodes, comments) are forgotten gives the result with its columns forgotten --
   the builder's own error included. *)
Theorem C16_builder_blind_columns : forall t r b,
  builder_build (tce t) (bce b) = bout_ce (builder_build t b)
  /\ builder_end r (bce b) = bout_ce (builder_end r b)
  /\ builder_result (bce b) = option_map ce_doc (builder_result b).
Proof. intros t r b. exact (conj (builder_build_ce t b) (conj (builder_end_ce r b) (builder_result_ce b))). Qed.
Print Assumptions C16_builder_blind_columns.

(* For the matcher, two physical lines with the same text after their leading whitespace are the same line up to
   columns: same answer; matched tokens equal up to columns; matcher states equal up to the doc string indentation to
   remove; errors equal up to their column -- for every question except "free text?" when the text that would be kept
   differs and "comment?" on a comment line whose text differs. *)
Theorem C16_matcher_blind_indent : forall l l' m m' t t' k, l_trimmed l = l_trimmed l' -> l_no l = l_no l' -> msim m m' ->
  tk_line t = Some l -> tk_line t' = Some l' -> tce t = tce t' -> iblind k m m' l l' ->
  mouti_rel t t' (matcher Dialects.dialects k m t) (matcher Dialects.dialects k m' t').
Proof. intros l l' m m' t t' k H1 H2 H3 H4 H5 H6 H7. exact (matcher_indent l l' H1 H2 m m' H3 t t' H4 H5 H6 k H7). Qed.
Print Assumptions C16_matcher_blind_indent.

(* Two sources whose physical lines pairwise have the same text after their leading whitespace (any change of
   indentation: more, less, tabs for blanks) give, in stop-at-first-error mode, the same document up to columns -- or the
   same first error up to its column --, matcher states equal up to the indentation to remove, the same number of
   matcher calls, whenever the run on the first source never asks of a pair of lines whether it is free text whose kept
   text differs (a doc string that moves as one block keeps its content) or a comment whose text differs. *)
Theorem C16_indentation : forall m b src src',
  Forall2 same_text (py_lines src) (py_lines src') ->
  indent_safe (ipair_lines (py_lines src) (py_lines src') 1) m b ->
  psimc (parse_source true m b src) (parse_source true m b src').
Proof. exact indentation_neutral. Qed.
Print Assumptions C16_indentation.

(* ... and for accepted documents the same holds in error-collecting mode (the default) *)
Theorem C16_indentation_accepted : forall m b src src' d m1 b1 n,
  Forall2 same_text (py_lines src) (py_lines src') ->
  indent_safe (ipair_lines (py_lines src) (py_lines src') 1) m b ->
  parse_source false m b src = POk d m1 b1 n ->
  exists d' m1' b1', parse_source false m b src' = POk d' m1' b1' n /\ ce_doc d = ce_doc d' /\ msim m1 m1'.
Proof.
  intros m b src src' d m1 b1 n R G H. apply source_collect_accepts in H.
  pose proof (indentation_neutral m b src src' R G) as S. rewrite H in S.
  destruct (parse_source true m b src') as [d' m1' b1' n'| | | |] eqn:P'; cbn [psimc] in S; try contradiction.
  destruct S as (D & M & <-). exists d', m1', b1'. split; [apply source_stop_accepts; exact P' | split; assumption].
Qed.
Print Assumptions C16_indentation_accepted.

(* the paired run is the real run on the first source (stop mode) *)
Theorem C16_indent_paired_run_is_the_run : forall xs m b,
  oute_rel IMRa eq ER (ipaired_run xs m b) (parse_tokens true (map fst xs) m b).
Proof.
  intros xs m b. unfold ipaired_run, parse_tokens, parse_tokens_with.
  rewrite <- (StopIndep.parse_stop_indep (pipeline_params Table.table) no_dedupe). apply (res_R_oute ITRa IMRa eq ER).
  exact (parse_R _ _ ITRa _ _ IMRa _ _ eq _ _ ER IA pipeline_nd iparamsA_related true true (bool_R_refl true)
                 xs (map fst xs) (ilist_fst xs) (reset_matcher Dialects.dialects m, reset_matcher Dialects.dialects m, false)
                 (reset_matcher Dialects.dialects m) eq_refl (reset_builder b) (reset_builder b) eq_refl).
Qed.
Print Assumptions C16_indent_paired_run_is_the_run.

(* non-vacuity: every keyword, step, tag, row line indented further, the doc string moved as one block (its content line
   with it), tabs for blanks: hypotheses and conclusion; the flag goes up when only the content line of the doc string moves *)
Definition c16_indented : str := s2l
"   @t
	Feature: f
      Scenario: s
          Given g
              | a |
      And d
          ```
          text  
          ```
".
Example C16_indentation_sample :
  match new_matcher Dialects.dialects (s2l "en") with
  | Some m =>
    forallb2 same_textb (py_lines c16_plain) (py_lines c16_indented) = true
    /\ iflag_down (ipaired_run (ipair_lines (py_lines c16_plain) (py_lines c16_indented) 1) m (new_builder 0)) = true
    /\ match parse_source true m (new_builder 0) c16_plain, parse_source true m (new_builder 0) c16_indented with
       | POk d _ _ _, POk d' _ _ _ => ce_doc d = ce_doc d' /\ d <> d'
       | _, _ => False
       end
    /\ iflag_down (ipaired_run (ipair_lines (py_lines c16_plain) (py_lines (s2l
"@t
Feature: f
  Scenario: s
    Given g
      | a |
    And d
      ```
        text  
      ```
")) 1) m (new_builder 0)) = false
  | None => False
  end.
Proof. vm_compute. repeat split. discriminate. Qed.

Require Import FlagOrigin BlankOrigin.

(* The side condition of C16_trailing_whitespace, read off the text and off what the run builds.  The paired run's log is
   the real run's log with every changed token carrying its twin (C16_paired_log); its flag can only go up when a changed
   line is handed to the builder as free text (kind Other: a description or doc-string content line), provided no changed
   line is a comment line and in no dialect does the step-keyword test answer differently on the two lines (lstatic).
   Generic part FlagOrigin.v: every Other test of the regenerated table is unguarded and builds its token after
   start_rule calls only (side conditions by vm_compute), so a flag raised by a yes to "free text?" is followed by the
   logged build of that token. *)
Theorem C16_paired_log : forall stop xs m b,
  map ev_fst (log_of (paired_run stop xs m b)) = log_of (parse_tokens stop (map fst xs) m b).
Proof. exact paired_log. Qed.
Print Assumptions C16_paired_log.

Theorem C16_trailing_whitespace_built : forall stop m b src src', wf_ms m ->
  Forall2 lrel (py_lines src) (py_lines src') -> Forall2 lstatic (py_lines src) (py_lines src') ->
  ~ built_changed_other (paired_run stop (pair_lines (py_lines src) (py_lines src') 1) m b) ->
  psim (parse_source stop m b src) (parse_source stop m b src').
Proof. exact trailing_whitespace_built. Qed.
Print Assumptions C16_trailing_whitespace_built.

Example C16_trailing_whitespace_built_sample :
  match new_matcher Dialects.dialects (s2l "en") with
  | Some m =>
    forallb2 lstaticb (py_lines c16_plain) (py_lines c16_padded) = true
    /\ no_changed_other (paired_run false (pair_lines (py_lines c16_plain) (py_lines c16_padded) 1) m (new_builder 0)) = true
    /\ forallb2 lstaticb (py_lines c16_plain_bad) (py_lines c16_padded_bad) = true
    /\ no_changed_other (paired_run true (pair_lines (py_lines c16_plain_bad) (py_lines c16_padded_bad) 1) m (new_builder 0)) = true
    (* "Given" with its final blank cut off is not statically safe *)
    /\ lstaticb (s2l "    Given
") (s2l "    Given 
") = false
  | None => False
  end.
Proof. vm_compute. repeat split. Qed.

Require Import IndentOrigin.

(* The side condition of C16_indentation, read off the text and off what the run builds: every pair of lines has the same
   text after its leading whitespace, comment lines keep their text, lines that begin with a doc-string delimiter keep
   their indentation (istatic), and no line whose text changed is handed to the builder as free text.  (The flag version
   above also covers a doc string that moves as one block.) *)
Theorem C16_indentation_built : forall m b src src',
  Forall2 istatic (py_lines src) (py_lines src') ->
  ~ ibuilt_changed_other (ipaired_run (ipair_lines (py_lines src) (py_lines src') 1) m b) ->
  psimc (parse_source true m b src) (parse_source true m b src').
Proof. exact indentation_built. Qed.
Print Assumptions C16_indentation_built.

Definition c16_reindented : str := s2l
"   @t
	Feature: f
      Scenario: s
          Given g
              | a |
      And d
      ```
      text  
      ```
".
Example C16_indentation_built_sample :
  match new_matcher Dialects.dialects (s2l "en") with
  | Some m =>
    forallb2 istaticb (py_lines c16_plain) (py_lines c16_reindented) = true
    /\ ino_changed_other (ipaired_run (ipair_lines (py_lines c16_plain) (py_lines c16_reindented) 1) m (new_builder 0)) = true
    (* a doc string that moves as a block is outside this sufficient condition (its delimiter lines move) *)
    /\ forallb2 istaticb (py_lines c16_plain) (py_lines c16_indented) = false
  | None => False
  end.
Proof. vm_compute. repeat split. Qed.

Require Import LineErase Machine MachineEq MachineInst MachineInsert BlankInsert.

(* Blank lines.  Two sources, the second obtained from the first by leaving out the flagged lines, which are blank
   (whitespace only): if the parser reaches every flagged line in a state that handles #Empty by staying where it is --
   every state outside descriptions and doc strings (C16_neutral_states) --, then in stop-at-first-error mode the two
   sources give the same document up to line numbers, or the same first error up to its line number, and the same
   matcher state.  Chain: Parser.parse = the queue-free machine (C18_queue_free_machine); the insertion theorem for the
   machine (MachineInsert.m_parse_ins: look-aheads skip the inserted tokens, a neutral state consumes them; hand-made
   relational induction, the two pending lists being aligned once the flagged tokens are left out); the matcher copies
   line numbers and never looks at them (matcher_le); the builder never looks at a line number nor at the #Empty tokens
   it stores (LineErase). *)
Theorem C16_blank_lines_inserted : forall m b src src' fl, wf_ms m ->
  List.length fl = List.length (py_lines src') -> flagged_blank fl (py_lines src') -> del fl (py_lines src') = py_lines src ->
  safe_run (pipeline_params Table.table) neutral (scan src') fl (reset_matcher Dialects.dialects m) (reset_builder b) ->
  psimn (parse_source true m b src') (parse_source true m b src).
Proof. exact blank_lines_neutral. Qed.
Print Assumptions C16_blank_lines_inserted.

Theorem C16_neutral_states :
  forallb (fun x => neutralb (s_id x) || existsb (Nat.eqb (s_id x)) (description_states Table.table)
                    || existsb (Nat.eqb (s_id x)) (docstring_states Table.table)) Table.table = true.
Proof. exact neutral_states. Qed.
Print Assumptions C16_neutral_states.

(* the matcher copies line numbers, it never looks at them *)
Theorem C16_matcher_blind_line_numbers : forall k m t,
  matcher Dialects.dialects k m (tle t) = mout_le (matcher Dialects.dialects k m t).
Proof. exact matcher_le. Qed.
Print Assumptions C16_matcher_blind_line_numbers.

(* ... and for accepted documents the same holds in error-collecting mode *)
Theorem C16_blank_lines_inserted_accepted : forall m b src src' fl d m1 b1 n, wf_ms m ->
  List.length fl = List.length (py_lines src') -> flagged_blank fl (py_lines src') -> del fl (py_lines src') = py_lines src ->
  safe_run (pipeline_params Table.table) neutral (scan src') fl (reset_matcher Dialects.dialects m) (reset_builder b) ->
  parse_source false m b src = POk d m1 b1 n ->
  exists d' b1' n', parse_source false m b src' = POk d' m1 b1' n' /\ le_doc d' = le_doc d.
Proof.
  intros m b src src' fl d m1 b1 n W L F D Sf H. apply source_collect_accepts in H.
  pose proof (blank_lines_neutral m b src src' fl W L F D Sf) as S. rewrite H in S.
  destruct (parse_source true m b src') as [d' m1' b1' n'| | | |] eqn:P'; cbn [psimn] in S; try contradiction.
  destruct S as (Dd & <-). exists d', b1', n'. split; [apply source_stop_accepts; exact P' | exact Dd].
Qed.
Print Assumptions C16_blank_lines_inserted_accepted.

(* non-vacuity: blank lines (empty, blanks, tabs) inserted before and after the tag line, the feature line, between steps,
   inside a table, before the doc string: hypotheses and conclusion; a blank line inside the doc string is not safe *)
Definition c16_spaced : str := s2l
"
@t
   
Feature: f

  Scenario: s
    Given g
	
      | a |
    And d

      ```
      text  
      ```

".
Definition c16_spaced_flags : list bool := [true; false; true; false; true; false; false; true; false; false; true; false; false; false; true].
Example C16_blank_lines_sample :
  match new_matcher Dialects.dialects (s2l "en") with
  | Some m =>
    Nat.eqb (List.length c16_spaced_flags) (List.length (py_lines c16_spaced)) = true
    /\ flagged_blankb c16_spaced_flags (py_lines c16_spaced) = true
    /\ list_beq str_eqb (del c16_spaced_flags (py_lines c16_spaced)) (py_lines c16_plain) = true
    /\ safe_runb (scan c16_spaced) c16_spaced_flags (reset_matcher Dialects.dialects m) (reset_builder (new_builder 0)) = true
    /\ match parse_source true m (new_builder 0) c16_spaced, parse_source true m (new_builder 0) c16_plain with
       | POk d' _ _ _, POk d _ _ _ => le_doc d' = le_doc d /\ d' <> d
       | _, _ => False
       end
    /\ safe_runb (scan (s2l "Feature: f
  Scenario: s
    Given d
      ```

      ```
")) [false; false; false; false; true; false] (reset_matcher Dialects.dialects m) (reset_builder (new_builder 0)) = false
  | None => False
  end.
Proof. vm_compute. repeat split. discriminate. Qed.

Require Import CommentErase CommentInsert.

(* Comment lines.  Two sources, the second obtained from the first by leaving out the flagged lines, which are comments
   (first non-blank character '#'): if the parser reaches every flagged line in a state that handles #Comment by
   building it and staying where it is (C16_comment_neutral_states: every state but the start of the document, where
   a comment may be a language header; the states right after a keyword line, where a comment opens the description;
   and the doc-string states, where it is content -- so in particular before any step, table row, doc-string delimiter,
   and before a tag or keyword line that follows a step, a table, a doc string, a description or another comment), then in
   stop-at-first-error mode the two sources give the same document up to line numbers and up to its list of comments,
   or the same first error up to its line number, and the same matcher state.  Same chain as for blank lines; the
   builder's only use of its comment list is to copy it into the finished document (CommentErase.v). *)
Theorem C16_comment_lines_inserted : forall m b src src' fl, wf_ms m ->
  List.length fl = List.length (py_lines src') -> flagged_comment fl (py_lines src') -> del fl (py_lines src') = py_lines src ->
  safe_run (pipeline_params Table.table) neutral_c (scan src') fl (reset_matcher Dialects.dialects m) (reset_builder b) ->
  psimcm (parse_source true m b src') (parse_source true m b src).
Proof. exact comment_lines_neutral. Qed.
Print Assumptions C16_comment_lines_inserted.

Theorem C16_comment_neutral_states :
  forallb (fun x => neutralcb (s_id x) || tests_language x || comment_opens_description x || no_comment_test x) Table.table = true
  /\ List.length (filter (fun x => neutralcb (s_id x)) Table.table) = 29%nat.
Proof. exact comment_neutral_states. Qed.
Print Assumptions C16_comment_neutral_states.

(* the builder never looks at its comments: an operation on states equal up to line numbers, #Empty tokens and comments
   gives results that are *)
Theorem C16_builder_blind_comments :
  (forall r b b', BRc b b' -> boutc_rel' (builder_start r b) (builder_start r b'))
  /\ (forall r b b', BRc b b' -> boutc_rel' (builder_end r b) (builder_end r b'))
  /\ (forall t t' b b', tle t = tle t' -> BRc b b' -> boutc_rel' (builder_build t b) (builder_build t' b')).
Proof. exact (conj builder_start_crel' (conj builder_end_crel' builder_build_crel')). Qed.
Print Assumptions C16_builder_blind_comments.

(* ... and for accepted documents the same holds in error-collecting mode; the comments of the longer source that are
   not in the shorter one are the inserted lines (C03_conservation: the comment list is exactly the comment lines) *)
Theorem C16_comment_lines_inserted_accepted : forall m b src src' fl d m1 b1 n, wf_ms m ->
  List.length fl = List.length (py_lines src') -> flagged_comment fl (py_lines src') -> del fl (py_lines src') = py_lines src ->
  safe_run (pipeline_params Table.table) neutral_c (scan src') fl (reset_matcher Dialects.dialects m) (reset_builder b) ->
  parse_source false m b src = POk d m1 b1 n ->
  exists d' b1' n', parse_source false m b src' = POk d' m1 b1' n' /\ de_doc (le_doc d') = de_doc (le_doc d).
Proof.
  intros m b src src' fl d m1 b1 n W L F D Sf H. apply source_collect_accepts in H.
  pose proof (comment_lines_neutral m b src src' fl W L F D Sf) as S. rewrite H in S.
  destruct (parse_source true m b src') as [d' m1' b1' n'| | | |] eqn:P'; cbn [psimcm] in S; try contradiction.
  destruct S as (Dd & <-). exists d', b1', n'. split; [apply source_stop_accepts; exact P' | exact Dd].
Qed.
Print Assumptions C16_comment_lines_inserted_accepted.

(* non-vacuity: comments inserted before a tag line that follows a step, before a step, inside a table, before a
   doc-string delimiter, before a scenario line that follows a step, at the end; a comment right after the feature
   line is not safe (it opens the description), nor one inside a doc string *)
Definition c16_commented : str := s2l
"Feature: f
  Scenario: s
    Given g
    # one
      | a |
  # two
      | b |
    And d
      # three
      ```
      text
      ```
    # four
  @t
 # five
  Scenario: t
    Given h
# six
".
Definition c16_uncommented : str := s2l
"Feature: f
  Scenario: s
    Given g
      | a |
      | b |
    And d
      ```
      text
      ```
  @t
  Scenario: t
    Given h
".
Definition c16_commented_flags : list bool :=
  [false; false; false; true; false; true; false; false; true; false; false; false; true; false; true; false; false; true].
Example C16_comment_lines_sample :
  match new_matcher Dialects.dialects (s2l "en") with
  | Some m =>
    Nat.eqb (List.length c16_commented_flags) (List.length (py_lines c16_commented)) = true
    /\ flagged_commentb c16_commented_flags (py_lines c16_commented) = true
    /\ list_beq str_eqb (del c16_commented_flags (py_lines c16_commented)) (py_lines c16_uncommented) = true
    /\ safe_runcb (scan c16_commented) c16_commented_flags (reset_matcher Dialects.dialects m) (reset_builder (new_builder 0)) = true
    /\ match parse_source true m (new_builder 0) c16_commented, parse_source true m (new_builder 0) c16_uncommented with
       | POk d' _ _ _, POk d _ _ _ => de_doc (le_doc d') = de_doc (le_doc d) /\ List.length (doc_comments d') = 6%nat /\ doc_comments d = []
       | _, _ => False
       end
    /\ safe_runcb (scan (s2l "Feature: f
  # opens the description
  Scenario: s
")) [false; true; false; false] (reset_matcher Dialects.dialects m) (reset_builder (new_builder 0)) = false
    /\ safe_runcb (scan (s2l "Feature: f
  Scenario: s
    Given d
      ```
      # content
      ```
")) [false; false; false; false; true; false; false] (reset_matcher Dialects.dialects m) (reset_builder (new_builder 0)) = false
  | None => False
  end.
Proof. vm_compute. repeat split. Qed.
