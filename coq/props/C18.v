(* C18 — the builder sees each source line exactly once, in order, then one EOF. *)
From Coq Require Import List Bool Arith.
Import ListNotations.
Require Import Kinds Automaton Delivery DeliveryInst Stub Table PyStr Line Matcher Builder Pipeline PipelineFacts TableFacts.

(* kind level, every sequence of line kinds: the tokens passed to build or reported unexpected are
   the input tokens in order, each once, then one EOF -- all of them unless the parse was cut short
   (stop-at-first-error, error cap), and then a prefix of them *)
Theorem C18_delivery_kinds : forall stop w, Forall (fun k => k <> KEOF) w ->
  match Stub.run stop w with
  | Ok _ c => delivered tok (fun t => t) c = stub_all w
  | RaiseC es c => prefix_of tok (delivered tok (fun t => t) c) (stub_all w)
                   /\ (length es <= Table.error_cap -> delivered tok (fun t => t) c = stub_all w)
  | Raise1 _ c | Crash c => prefix_of tok (delivered tok (fun t => t) c) (stub_all w)
  | OutOfFuel => False
  end.
Proof. exact stub_delivery. Qed.
Print Assumptions C18_delivery_kinds.

(* the real pipeline, every source text: the tokens delivered (built or reported unexpected) are,
   by physical line and line number, the lines of the source in order, each once, followed by one
   EOF numbered one past the last line; fuel never runs out *)
Theorem C18_delivery : forall stop m b src, wf_ms m ->
  match parse_tokens stop (scan src) m b with
  | Ok _ c => delivered _ tkey c = source_keys src
  | RaiseC es c => prefix_of _ (delivered _ tkey c) (source_keys src)
                   /\ (length es <= Table.error_cap -> delivered _ tkey c = source_keys src)
  | Raise1 _ c | Crash c => prefix_of _ (delivered _ tkey c) (source_keys src)
  | OutOfFuel => False
  end.
Proof. exact source_delivery. Qed.
Print Assumptions C18_delivery.

(* the queue invariant behind it: a look-ahead changes nothing but the split between queue and scanner *)
Theorem C18_lookahead_invariant :
  forall {Tok MS BS Err : Type} (P : params Tok MS BS Err) (K : Type) (key : Tok -> K) (sk : Tok -> Prop) (I : MS -> Prop),
  (forall k m t, key (Delivery.mtok (matchf P k m t)) = key t) ->
  (forall k m t, is_eof P (Delivery.mtok (matchf P k m t)) = is_eof P t) ->
  (forall n, is_eof P (mk_eof P n) = true) ->
  (forall k m t, I m -> I (mst (matchf P k m t))) ->
  (forall t, sk t -> is_eof P t = false) ->
  (forall h k m t t' m', In h (Automaton.lookaheads P) -> In k (la_skip h) -> I m -> matchf P k m t = MR true t' m' -> sk t') ->
  (forall h m t, In h (Automaton.lookaheads P) -> I m -> sk t ->
    (forall k, In k (la_expected h) -> matchf P k m t = MR false t m)
    /\ exists ks1 k ks2, la_skip h = ks1 ++ k :: ks2
         /\ (forall k1, In k1 ks1 -> matchf P k1 m t = MR false t m)
         /\ exists t' m', matchf P k m t = MR true t' m' /\ sk t') ->
  (forall h, In h (Automaton.lookaheads P) -> ~ In KEOF (la_expected h) /\ ~ In KEOF (la_skip h)) ->
  forall stop h c, W P sk I c ->
  AutoFacts.sat (lookahead P stop h c)
    (fun _ c2 => W P sk I c2 /\ U P K key c2 = U P K key c /\ log c2 = log c) (fun c2 => log c2 = log c) False.
Proof. intros. eapply lookahead_spec; eauto. Qed.
Print Assumptions C18_lookahead_invariant.

(* every transition hands its token to build exactly once, as its last production *)
Theorem C18_builds_once : builds_last Table.table = true.
Proof. exact builds_last_ok. Qed.
Print Assumptions C18_builds_once.

(* non-vacuity / finite cross-check in the kernel: all kind sequences of length <= 3 *)
Example C18_small_sequences :
  forallb (fun w => match Stub.run false w with
                    | Ok _ c | RaiseC _ c => list_beq (fun a b => kind_beq (fst a) (fst b) && Nat.eqb (snd a) (snd b))
                                                      (delivered tok (fun t => t) c) (stub_all w)
                    | _ => false end)
          (flat_map (fun a => [[a]] ++ flat_map (fun b => [[a; b]] ++ map (fun c => [a; b; c]) non_eof_kinds) non_eof_kinds) non_eof_kinds)
  = true.
Proof. vm_compute. reflexivity. Qed.

Require Import Matcher Builder Pipeline PipelineFacts Machine MachineEq MachineC MachineCEq MachineInst.

(* The token queue is an implementation detail: in stop-at-first-error mode Parser.parse -- with its queue, its
   look-ahead methods that push tokens back, its scanner, fuel and counters -- computes exactly the queue-free
   deterministic machine of Machine.v, which walks the list of pending tokens, lets a look-ahead scan that list in place,
   and tries the tests of the current state in order on the head token: same outcome (document builder state, or the
   first error), same matcher state, same builder state.  Generic theorem MachineEq.parse_machine (for any matcher and
   builder that satisfy the hypotheses of the delivery theorem), instantiated for the real pipeline over the regenerated
   table; with C14_stop_first / C14_stop_accepts it also describes the collecting mode's accepted documents and first error. *)
Theorem C18_queue_free_machine : forall m b src, wf_ms m ->
  pm_rel (parse_tokens true (scan src) m b) (machine_source m b src).
Proof. exact source_machine. Qed.
Print Assumptions C18_queue_free_machine.

From Coq Require Import String.
Example C18_queue_free_machine_sample :
  match new_matcher Dialects.dialects (PyStr.s2l "en") with
  | Some m =>
    match machine_source m (new_builder 0) (PyStr.s2l "Feature: f
  @a
  # c

  @b
  Scenario Outline: o
    Given <x>
    @c

    Examples:
      | x |
      | 1 |
"), machine_source m (new_builder 0) (PyStr.s2l "Feature: f
  @a
  oops
") with
    | MoOk _ _ b, MoRaise e _ _ => builder_result b <> None /\ e_kind e = EUnexpectedToken
    | _, _ => False
    end
  | None => False
  end.
Proof. vm_compute. split; [discriminate | reflexivity]. Qed.

(* The same in the default, error-collecting mode: Parser.parse computes the queue-free machine of MachineC.v, which
   threads the list of collected errors through the same walk -- an error raised by the matcher or the builder is
   appended (unless an error with the same message is there already) and the walk goes on as if the match had failed /
   the builder call had returned; an unexpected token is appended and the walk resumes from the state's recovery target
   with the next token; the walk stops when the list outgrows the cap.  Same outcome (accepted with no error, or
   rejected with exactly that list of errors), same matcher state, same builder state. *)
Theorem C18_queue_free_machine_collecting : forall m b src, wf_ms m ->
  pc_rel (parse_tokens false (scan src) m b) (machine_collecting_source m b src).
Proof. exact source_machine_collecting. Qed.
Print Assumptions C18_queue_free_machine_collecting.

Example C18_queue_free_machine_collecting_sample :
  match new_matcher Dialects.dialects (PyStr.s2l "en") with
  | Some m =>
    match machine_collecting_source m (new_builder 0) (PyStr.s2l "Feature: f
  Scenario: s
    Given g
      | a |
      | b | c |
    nope
  Scenario: t
    Given h
    nope again
"), machine_collecting_source m (new_builder 0) (PyStr.s2l "Feature: f
  Scenario: s
") with
    | CReject es _ _, CAccept _ b => map e_kind es = [EUnexpectedToken; EAstBuilder; EUnexpectedToken] /\ builder_result b <> None
    | _, _ => False
    end
  | None => False
  end.
Proof. vm_compute. split; [reflexivity | discriminate]. Qed.
