#!/bin/bash
# Full .vo build of the Coq development (or of the given .vo targets).
set -e
cd "$(dirname "$0")"
( cat _CoqProject.base; find theories gen proofs props extract -name '*.v' | sort ) > _CoqProject.new
cmp -s _CoqProject.new _CoqProject 2>/dev/null && rm _CoqProject.new || mv _CoqProject.new _CoqProject
if [ ! -f Makefile.coq ] || [ _CoqProject -nt Makefile.coq ]; then
  coq_makefile -f _CoqProject -o Makefile.coq >/dev/null
fi
exec timeout ${VERIF_BUILD_TIMEOUT:-3000} make -f Makefile.coq -j${VERIF_JOBS:-16} "$@"
