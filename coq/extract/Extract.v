(* Extraction of the executable model.  ExtrOcamlBasic only: bool, option, unit,
   list, prod, sumbool, sumor map to OCaml's own; nat, N, positive stay inductive. *)
From Coq Require Import ExtrOcamlBasic.
Require Import Dispatch.
Extraction "extract/gen/model.ml" dispatch.
