#!/bin/bash
# Build the extracted model + driver into coq/extract/gmodel (rebuilt only when model.ml changed).
set -e
cd "$(dirname "$0")"
[ -f gen/model.ml ] || { echo "extract/gen/model.ml missing: run coq/build.sh first" >&2; exit 2; }
if [ ! -x gmodel ] || [ gen/model.ml -nt gmodel ] || [ driver.ml -nt gmodel ]; then
  cp driver.ml gen/driver.ml
  ( cd gen && ocamlfind ocamlopt -O3 -w -a -o ../gmodel.new model.mli model.ml driver.ml 2>/dev/null \
     || ocamlfind ocamlopt -w -a -o ../gmodel.new model.mli model.ml driver.ml )
  mv gmodel.new gmodel
fi
