(* Reads one request per line:  <function> <args>  where <args> is a wire-format
   array; prints one wire-format value per line.  Wire format: N (null), T, F,
   decimal numbers, s[cp,cp,...] (a string as code points), [v,...], {key:v,...}. *)
open Model

let rec nat_of_int_acc i acc = if i <= 0 then acc else nat_of_int_acc (i - 1) (S acc)
let nat_of_int i = nat_of_int_acc i O
let int_of_nat n = let rec go n acc = match n with O -> acc | S m -> go m (acc + 1) in go n 0
let rec pos_of_int i = if i = 1 then XH else if i land 1 = 1 then XI (pos_of_int (i lsr 1)) else XO (pos_of_int (i lsr 1))
let n_of_int i = if i = 0 then N0 else Npos (pos_of_int i)
let rec int_of_pos = function XH -> 1 | XO p -> 2 * int_of_pos p | XI p -> 2 * int_of_pos p + 1
let int_of_n = function N0 -> 0 | Npos p -> int_of_pos p

let str_of_ascii s = Stdlib.List.init (Stdlib.String.length s) (fun i -> n_of_int (Stdlib.Char.code s.[i]))
let ascii_of_str l = Stdlib.String.concat "" (Stdlib.List.map (fun c -> Stdlib.String.make 1 (Stdlib.Char.chr (int_of_n c))) l)

exception Parse_error of Stdlib.String.t

let parse (s : Stdlib.String.t) : json =
  let pos = ref 0 in
  let len = Stdlib.String.length s in
  let peek () = if !pos < len then s.[!pos] else '\000' in
  let adv () = incr pos in
  let expect c = if peek () = c then adv () else raise (Parse_error (Stdlib.Printf.sprintf "expected %c at %d" c !pos)) in
  let number () =
    let st = !pos in
    while !pos < len && s.[!pos] >= '0' && s.[!pos] <= '9' do adv () done;
    if !pos = st then raise (Parse_error (Stdlib.Printf.sprintf "number at %d" st));
    int_of_string (Stdlib.String.sub s st (!pos - st)) in
  let rec value () =
    match peek () with
    | 'N' -> adv (); JNull
    | 'T' -> adv (); JBool true
    | 'F' -> adv (); JBool false
    | 's' ->
      adv (); expect '[';
      let items = ref [] in
      if peek () = ']' then adv ()
      else begin
        let continue = ref true in
        while !continue do
          items := n_of_int (number ()) :: !items;
          if peek () = ',' then adv () else (expect ']'; continue := false)
        done
      end;
      JStr (Stdlib.List.rev !items)
    | '[' ->
      adv ();
      let items = ref [] in
      if peek () = ']' then adv ()
      else begin
        let continue = ref true in
        while !continue do
          items := value () :: !items;
          if peek () = ',' then adv () else (expect ']'; continue := false)
        done
      end;
      JArr (Stdlib.List.rev !items)
    | '{' ->
      adv ();
      let items = ref [] in
      if peek () = '}' then adv ()
      else begin
        let continue = ref true in
        while !continue do
          let st = !pos in
          while !pos < len && s.[!pos] <> ':' do adv () done;
          let key = Stdlib.String.sub s st (!pos - st) in
          expect ':';
          let v = value () in
          items := (str_of_ascii key, v) :: !items;
          if peek () = ',' then adv () else (expect '}'; continue := false)
        done
      end;
      JObj (Stdlib.List.rev !items)
    | c when c >= '0' && c <= '9' -> JNum (nat_of_int (number ()))
    | c -> raise (Parse_error (Stdlib.Printf.sprintf "unexpected %c at %d" c !pos))
  in
  let v = value () in
  if !pos <> len then raise (Parse_error "trailing input");
  v

let rec print (b : Stdlib.Buffer.t) (j : json) : unit =
  match j with
  | JNull -> Stdlib.Buffer.add_char b 'N'
  | JBool true -> Stdlib.Buffer.add_char b 'T'
  | JBool false -> Stdlib.Buffer.add_char b 'F'
  | JNum n -> Stdlib.Buffer.add_string b (string_of_int (int_of_nat n))
  | JStr l ->
    Stdlib.Buffer.add_string b "s[";
    Stdlib.List.iteri (fun i c -> if i > 0 then Stdlib.Buffer.add_char b ','; Stdlib.Buffer.add_string b (string_of_int (int_of_n c))) l;
    Stdlib.Buffer.add_char b ']'
  | JArr l ->
    Stdlib.Buffer.add_char b '[';
    Stdlib.List.iteri (fun i v -> if i > 0 then Stdlib.Buffer.add_char b ','; print b v) l;
    Stdlib.Buffer.add_char b ']'
  | JObj l ->
    Stdlib.Buffer.add_char b '{';
    Stdlib.List.iteri (fun i (k, v) -> if i > 0 then Stdlib.Buffer.add_char b ','; Stdlib.Buffer.add_string b (ascii_of_str k); Stdlib.Buffer.add_char b ':'; print b v) l;
    Stdlib.Buffer.add_char b '}'

let () =
  try
    while true do
      let line = input_line stdin in
      let out =
        try
          let sp = Stdlib.String.index line ' ' in
          let fname = Stdlib.String.sub line 0 sp in
          let args = Stdlib.String.sub line (sp + 1) (Stdlib.String.length line - sp - 1) in
          (match parse args with
           | JArr l ->
             let b = Stdlib.Buffer.create 1024 in
             print b (dispatch (str_of_ascii fname) l);
             Stdlib.Buffer.contents b
           | _ -> "{driver_error:s[]}")
        with
        | Parse_error m -> Stdlib.Printf.sprintf "{driver_error:s[%s]}" (Stdlib.String.concat "," (Stdlib.List.map (fun c -> string_of_int (Stdlib.Char.code c)) (Stdlib.List.init (Stdlib.String.length m) (Stdlib.String.get m))))
        | Not_found -> "{driver_error:s[]}"
        | Stack_overflow -> "{driver_error:s[115,116,97,99,107]}"
      in
      print_string out; print_newline ()
    done
  with End_of_file -> ()
