#!/bin/bash
# independent re-check of every compiled property file and all it depends on; prints the axioms relied on
cd "$(dirname "$0")"
exec coqchk -silent -o -R theories Gherkin -R gen Gherkin -R proofs Gherkin -R props Gherkin \
  $(for i in 01 02 03 04 05 06 07 08 09 10 11 12 13 14 15 16 17 18 19; do echo Gherkin.C$i; done)
