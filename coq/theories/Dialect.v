(* The shape of one entry of gherkin-languages.json (only the keyword lists the
   implementation reads; `name` and `native` are checked to exist by the
   translator and otherwise unused by python/gherkin). *)
From Coq Require Import List NArith.
Import ListNotations.

Definition str := list N.

Record dialect := {
  d_code : str;
  d_feature : list str; d_rule : list str; d_background : list str;
  d_scenario : list str; d_scenarioOutline : list str; d_examples : list str;
  d_given : list str; d_when : list str; d_then : list str;
  d_and : list str; d_but : list str
}.
