(* Model of python/gherkin/token_formatter_builder.py *)
From Coq Require Import String.
From Coq Require Import List Bool Arith NArith.
Import ListNotations.
Require Import Kinds PyStr Line Matcher.

Definition ktype_str (k : ktype) : str :=
  s2l match k with
      | Unknown => "Unknown" | Context => "Context" | Action => "Action"
      | Outcome => "Outcome" | Conjunction => "Conjunction"
      end.

Definition kind_name_str (k : kind) : str := tl (kind_str k).   (* without the leading # *)

Definition format_token (t : token) : str :=
  if tok_is_eof t then s2l "EOF"
  else
    s2l "(" ++ nat_to_str (loc_line (tk_loc t)) ++ s2l ":"
    ++ nat_to_str (match loc_col (tk_loc t) with Some c => c | None => 0 end) ++ s2l ")"
    ++ (match m_type t with Some k => kind_name_str k | None => [] end) ++ s2l ":"
    ++ (match m_keyword t with
        | Some (c :: kw) =>
          s2l "(" ++ (match m_ktype t with Some kt => ktype_str kt | None => [] end) ++ s2l ")" ++ (c :: kw)
        | _ => []
        end)
    ++ s2l "/" ++ (match m_text t with Some s => s | None => [] end) ++ s2l "/"
    ++ join (s2l ",") (map (fun it => nat_to_str (fst it) ++ s2l ":" ++ snd it) (m_items t)).

Definition format_tokens (ts : list token) : str := join [LF] (map format_token ts).
