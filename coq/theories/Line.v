(* Model of python/gherkin/gherkin_line.py (GherkinLine) and token.py.
   No proofs in this file. *)
From Coq Require Import List Bool Arith NArith.
Import ListNotations.
Require Import PyStr.

Local Open Scope N_scope.

Definition PIPE : N := 124.      (* | *)
Definition BSL : N := 92.        (* \ *)
Definition CH_n : N := 110.      (* n *)
Definition AT : N := 64.         (* @ *)
Definition HASH : N := 35.       (* # *)
Definition COLON : N := 58.

Record gline := mk_gline {
  l_text : str;            (* _line_text: the physical line, terminator included *)
  l_no : nat;              (* _line_number *)
  l_trimmed : str;         (* _trimmed_line_text = line_text.lstrip() *)
  l_indent : nat           (* len(line_text) - len(trimmed) *)
}.

Definition make_line (text : str) (n : nat) : gline :=
  let t := lstrip text in
  mk_gline text n t (length text - length t)%nat.

Definition get_rest_trimmed (l : gline) (len : nat) : str := strip (skipn len (l_trimmed l)).

(* get_line_text(indent_to_remove); None = the default -1 *)
Definition get_line_text (l : gline) (ind : option nat) : str :=
  match ind with
  | None => l_trimmed l
  | Some i => if (l_indent l <? i)%nat then l_trimmed l else skipn i (l_text l)
  end.

Definition line_is_empty (l : gline) : bool := match l_trimmed l with [] => true | _ => false end.
Definition line_startswith (l : gline) (p : str) : bool := starts_with p (l_trimmed l).
Definition startswith_title_keyword (l : gline) (k : str) : bool := starts_with (k ++ [COLON]) (l_trimmed l).

(* split_table_cells: the character loop; col counts characters consumed so far,
   start is start_col, cell is accumulated in reverse, first = first_cell *)
Fixpoint split_cells (row : str) (col start : nat) (cell : str) (first : bool) : list (str * nat) :=
  match row with
  | [] => []                                  (* content after the last | is skipped *)
  | c :: r =>
    let col := S col in
    if c =? PIPE then
      if first then split_cells r col (S col) [] false
      else (rev cell, start) :: split_cells r col (S col) [] false
    else if c =? BSL then
      match r with
      | [] => []                              (* lone final backslash: kept in a cell that is then skipped *)
      | d :: r' =>
        let col := S col in
        if d =? CH_n then split_cells r' col start (LF :: cell) first
        else if (d =? PIPE) || (d =? BSL) then split_cells r' col start (d :: cell) first
        else split_cells r' col start (d :: BSL :: cell) first
      end
    else split_cells r col start (c :: cell) first
  end.
Definition split_table_cells (row : str) : list (str * nat) := split_cells row 0 1 [] true.

(* table_cells: (column, text) per cell *)
Definition table_cells (l : gline) : list (nat * str) :=
  map (fun cc =>
         let cell := fst cc in
         let lstripped := drop_while is_blank cell in
         let cell_indent := (length cell - length lstripped)%nat in
         ((snd cc + l_indent l + cell_indent)%nat, rdrop_while is_blank lstripped))
      (split_table_cells (strip (l_trimmed l))).

(* re.split(r"\s#", s, maxsplit=2)[0]: the text before the first whitespace
   character that is directly followed by '#' *)
Fixpoint before_comment (s : str) : str :=
  match s with
  | [] => []
  | c :: s' =>
    match s' with
    | d :: _ => if is_space c && (d =? HASH) then [] else c :: before_comment s'
    | [] => [c]
    end
  end.

Inductive tags_res :=
  | TagsOk (items : list (nat * str))
  | TagsErr (column : nat).                   (* "A tag may not contain whitespace" *)

Fixpoint tags_items (items : list str) (column : nat) (acc : list (nat * str)) : tags_res :=
  match items with
  | [] => TagsOk (rev acc)
  | item :: rest =>
    let tag_value := AT :: rstrip item in
    if existsb is_space tag_value then TagsErr column
    else tags_items rest (column + length item + 1)%nat ((column, tag_value) :: acc)
  end.

Definition line_tags (l : gline) : tags_res :=
  let uncommented := before_comment (strip (l_trimmed l)) in
  let items := split_chr AT (strip uncommented) in
  tags_items (tl items) (l_indent l + 1)%nat [].
