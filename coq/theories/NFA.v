(* The transition table seen as a nondeterministic automaton over line kinds:
   a guarded test (look-ahead) becomes a nondeterministic choice between taking
   it and falling through.  No proofs in this file. *)
From Coq Require Import List Bool Arith.
Import ListNotations.
Require Import Kinds Stub.

Section NFA.
  Variable table : list st.
  Definition find_state (s : nat) := find (fun x => Nat.eqb (s_id x) s) table.
  Definition kmatches (test k : kind) := answers test (k, 0).
  Fixpoint targets_tests (tests : list test) (k : kind) : list nat :=
    match tests with
    | [] => []
    | x :: xs =>
      if kmatches (t_kind x) k then
        match t_guard x with
        | None => [t_tgt x]
        | Some _ => t_tgt x :: targets_tests xs k
        end
      else targets_tests xs k
    end.
  Definition targets (s : nat) (k : kind) : list nat :=
    match find_state s with Some x => targets_tests (s_tests x) k | None => [] end.
  Fixpoint insert (n : nat) (l : list nat) : list nat :=
    match l with
    | [] => [n]
    | m :: t => if n <? m then n :: l else if n =? m then l else m :: insert n t
    end.
  Definition norm (l : list nat) := fold_right insert [] l.
  Definition stepN (S : list nat) (k : kind) : list nat := norm (flat_map (fun s => targets s k) S).
  (* end state: the target of the #EOF tests, not itself a state of the table *)
  Definition is_end (S : list nat) : bool :=
    existsb (fun s => match find_state s with None => true | Some _ => false end) S.
  Fixpoint runN (S : list nat) (w : list kind) : bool :=
    match w with
    | [] => is_end S
    | k :: w' => match stepN S k with [] => false | S' => runN S' w' end
    end.
End NFA.
