(* Reference semantics of gherkin.berp at token-kind level, read off the grammar
   alone (DESIGN 6.C02):
   - a line counts as free text (#Other) only where its own kind is not expected;
   - a `# language:` line is a comment wherever a language header is not expected;
   - comments and blank lines (and language headers, being comments) may appear
     wherever free text is not expected.
   No proofs in this file. *)
From Coq Require Import List Bool Arith.
Import ListNotations.
Require Import Kinds Regex Grammar.

(* the whole document: GherkinDocument followed by the EOF token *)
Definition G : re := Sq (inline 20 rule_body (Rl RGherkinDocument)) (Tk KEOF).

Definition dk (r : re) (k : kind) : re := deriv r (IK k).

Definition ref_step (r : re) (k : kind) : option re :=
  if re_beq r Eps then None else          (* nothing follows the end of file *)
  let d := dk r k in
  if nonemp d then Some d else
  match k with
  | KEOF => None
  | _ =>
    let dc := if kind_beq k KLanguage then dk r KComment else Emp in
    if nonemp dc then Some dc else
    let d2 := dk r KOther in
    if nonemp d2 then Some d2 else
    match k with
    | KComment | KEmpty | KLanguage => Some r
    | _ => None
    end
  end.

Fixpoint runR (r : re) (w : list kind) : bool :=
  match w with
  | [] => re_beq r Eps
  | k :: w' => match ref_step r k with None => false | Some r' => runR r' w' end
  end.

(* w is a sequence of line kinds without the final EOF *)
Definition accepts_ref (w : list kind) : bool := runR G (w ++ [KEOF]).

(* ---- rule-stack semantics of builder events (nesting) ---- *)
(* a stack of open rules, each with the residual of its body *)
Definition frame := (rule * re)%type.

Inductive aev := AS (r : rule) | AE (r : rule) | AB (k : kind).

Definition ignorable (k : kind) : bool :=
  match k with KComment | KEmpty => true | _ => false end.

Definition apply_aev (stk : list frame) (e : aev) : option (list frame) :=
  match e with
  | AS x =>
    match stk with
    | [] => match x with RGherkinDocument => Some [(x, normalize (rule_body x))] | _ => None end
    | (y, r) :: tl =>
      let d := deriv r (IR x) in
      if nonemp d then Some ((x, normalize (rule_body x)) :: (y, d) :: tl) else None
    end
  | AE x =>
    match stk with
    | (y, r) :: tl => if rule_beq x y && nullable r then Some tl else None
    | [] => None
    end
  | AB KEOF =>
    (* the EOF token is handed to the document node once every inner rule is closed *)
    match stk with
    | [(RGherkinDocument, r)] => if nullable r then Some stk else None
    | _ => None
    end
  | AB k =>
    match stk with
    | (y, r) :: tl =>
      let d := deriv r (IK k) in
      if nonemp d then Some ((y, d) :: tl)
      else if ignorable k then Some stk else None
    | [] => None
    end
  end.

Fixpoint apply_aevs (stk : list frame) (es : list aev) : option (list frame) :=
  match es with
  | [] => Some stk
  | e :: es' => match apply_aev stk e with Some s' => apply_aevs s' es' | None => None end
  end.

(* the events of a whole parse form a derivation: every node's children, in
   order, are a sentence of its rule's body (Comment/Empty the rule cannot take
   are skipped), every rule is closed, nothing is left open *)
Definition valid_events (es : list aev) : bool :=
  match apply_aevs [] es with Some [] => true | _ => false end.
