(* Token kinds, rule types, and the shape of the generated transition table.
   Hand-written; the translator tools/regen.py maps the names found in
   parser.py / gherkin.berp / sibling parsers onto these constructors and
   fails closed on any name it does not know. *)
From Coq Require Import List Bool Arith.
Import ListNotations.

Inductive kind :=
  | KEOF | KEmpty | KComment | KTagLine | KFeatureLine | KRuleLine
  | KBackgroundLine | KScenarioLine | KExamplesLine | KStepLine
  | KDocStringSeparator | KTableRow | KLanguage | KOther.

Inductive rule :=
  | RGherkinDocument | RFeature | RFeatureHeader | RRule | RRuleHeader
  | RBackground | RScenarioDefinition | RScenario | RExamplesDefinition
  | RExamples | RExamplesTable | RStep | RDataTable | RDocString | RTags
  | RDescription.

Scheme Equality for kind.
Scheme Equality for rule.

Lemma kind_beq_eq a b : kind_beq a b = true <-> a = b.
Proof. split; [apply internal_kind_dec_bl | apply internal_kind_dec_lb]. Qed.
Lemma rule_beq_eq a b : rule_beq a b = true <-> a = b.
Proof. split; [apply internal_rule_dec_bl | apply internal_rule_dec_lb]. Qed.
Lemma kind_beq_refl a : kind_beq a a = true.
Proof. now apply kind_beq_eq. Qed.
Lemma rule_beq_refl a : rule_beq a a = true.
Proof. now apply rule_beq_eq. Qed.

Definition all_kinds : list kind :=
  [KEOF; KEmpty; KComment; KTagLine; KFeatureLine; KRuleLine; KBackgroundLine;
   KScenarioLine; KExamplesLine; KStepLine; KDocStringSeparator; KTableRow;
   KLanguage; KOther].
Definition non_eof_kinds : list kind := tl all_kinds.

Lemma all_kinds_complete k : In k all_kinds.
Proof. destruct k; simpl; tauto. Qed.

Definition all_rules : list rule :=
  [RGherkinDocument; RFeature; RFeatureHeader; RRule; RRuleHeader; RBackground;
   RScenarioDefinition; RScenario; RExamplesDefinition; RExamples;
   RExamplesTable; RStep; RDataTable; RDocString; RTags; RDescription].
Lemma all_rules_complete r : In r all_rules.
Proof. destruct r; simpl; tauto. Qed.

(* productions of a transition *)
Inductive prod := PS (r : rule) | PE (r : rule) | PB.

Definition prod_beq (a b : prod) : bool :=
  match a, b with
  | PS x, PS y | PE x, PE y => rule_beq x y
  | PB, PB => true
  | _, _ => false
  end.

(* one `if self.match_K(context, token):` block of a state method;
   t_guard = Some h for a nested `if self.lookahead_h(context, token):` *)
Record test := { t_kind : kind; t_guard : option nat; t_prods : list prod; t_tgt : nat }.

(* one `match_token_at_N` method: its tests in order, the expected_tokens
   literal and the state returned by the error tail *)
Record st := { s_id : nat; s_tests : list test; s_expected : list kind; s_err : nat }.

(* one `lookahead_h` method: kinds that make it succeed, kinds it skips *)
Record la := { la_id : nat; la_expected : list kind; la_skip : list kind }.

Definition opt_nat_beq (a b : option nat) : bool :=
  match a, b with
  | None, None => true
  | Some x, Some y => Nat.eqb x y
  | _, _ => false
  end.

Fixpoint list_beq {A} (eqb : A -> A -> bool) (a b : list A) : bool :=
  match a, b with
  | [], [] => true
  | x :: a', y :: b' => eqb x y && list_beq eqb a' b'
  | _, _ => false
  end.

Definition test_beq (a b : test) : bool :=
  kind_beq (t_kind a) (t_kind b) && opt_nat_beq (t_guard a) (t_guard b)
  && list_beq prod_beq (t_prods a) (t_prods b) && Nat.eqb (t_tgt a) (t_tgt b).

Definition st_beq (a b : st) : bool :=
  Nat.eqb (s_id a) (s_id b) && list_beq test_beq (s_tests a) (s_tests b)
  && list_beq kind_beq (s_expected a) (s_expected b) && Nat.eqb (s_err a) (s_err b).

Definition kind_name (k : kind) : nat :=
  match k with
  | KEOF => 0 | KEmpty => 1 | KComment => 2 | KTagLine => 3 | KFeatureLine => 4
  | KRuleLine => 5 | KBackgroundLine => 6 | KScenarioLine => 7 | KExamplesLine => 8
  | KStepLine => 9 | KDocStringSeparator => 10 | KTableRow => 11 | KLanguage => 12
  | KOther => 13
  end.
