(* Python str primitives used by python/gherkin, over strings as lists of code
   points.  Validated against CPython by tools/pysweep.py (DESIGN 4.3).
   No proofs in this file. *)
From Coq Require Import Ascii String.
From Coq Require Import List Bool Arith NArith.
Import ListNotations.
Require Export Dialect.

Local Open Scope N_scope.

Definition chr_eqb (a b : N) : bool := N.eqb a b.

Fixpoint str_eqb (a b : str) : bool :=
  match a, b with
  | [], [] => true
  | x :: a', y :: b' => N.eqb x y && str_eqb a' b'
  | _, _ => false
  end.

(* ASCII literals *)
Fixpoint s2l (s : string) : str :=
  match s with
  | EmptyString => []
  | String c s' => N_of_ascii c :: s2l s'
  end.

Definition LF : N := 10.
Definition CR : N := 13.

(* str.isspace() of a single character == what str.strip() removes == \s in re (str patterns) *)
Definition is_space (c : N) : bool :=
  ((9 <=? c) && (c <=? 13)) || ((28 <=? c) && (c <=? 32)) || (c =? 133) || (c =? 160)
  || (c =? 5760) || ((8192 <=? c) && (c <=? 8202)) || (c =? 8232) || (c =? 8233)
  || (c =? 8239) || (c =? 8287) || (c =? 12288).

(* [^\S\n] : whitespace other than line feed *)
Definition is_blank (c : N) : bool := is_space c && negb (c =? LF).

Fixpoint drop_while (p : N -> bool) (s : str) : str :=
  match s with
  | [] => []
  | c :: s' => if p c then drop_while p s' else s
  end.

(* remove the maximal suffix of characters satisfying p *)
Fixpoint rdrop_while (p : N -> bool) (s : str) : str :=
  match s with
  | [] => []
  | c :: s' =>
    match rdrop_while p s' with
    | [] => if p c then [] else [c]
    | r => c :: r
    end
  end.

Definition lstrip (s : str) : str := drop_while is_space s.
Definition rstrip (s : str) : str := rdrop_while is_space s.
Definition strip (s : str) : str := rstrip (lstrip s).
Definition is_crlf (c : N) : bool := (c =? CR) || (c =? LF).
Definition rstrip_crlf (s : str) : str := rdrop_while is_crlf s.      (* s.rstrip("\r\n") *)

Fixpoint starts_with (p s : str) : bool :=
  match p, s with
  | [], _ => true
  | x :: p', y :: s' => N.eqb x y && starts_with p' s'
  | _ :: _, [] => false
  end.

(* s.split(c) for a single-character separator *)
Fixpoint split_chr (c : N) (s : str) : list str :=
  match s with
  | [] => [[]]
  | x :: s' =>
    if N.eqb x c then [] :: split_chr c s'
    else match split_chr c s' with
         | [] => [[x]]          (* unreachable: split_chr is never empty *)
         | p :: ps => (x :: p) :: ps
         end
  end.

(* sep.join(parts) *)
Fixpoint join (sep : str) (parts : list str) : str :=
  match parts with
  | [] => []
  | [p] => p
  | p :: ps => p ++ sep ++ join sep ps
  end.

(* s.replace(p, v), p non-empty: leftmost, non-overlapping.
   Recursion on fuel = length s + 1 (each step consumes at least one character). *)
Fixpoint replace_fuel (fuel : nat) (p v s : str) : str :=
  match fuel with
  | O => s
  | S f =>
    match s with
    | [] => []
    | c :: s' =>
      if starts_with p s then v ++ replace_fuel f p v (skipn (length p) s)
      else c :: replace_fuel f p v s'
    end
  end.
Definition replace_all (p v s : str) : str :=
  match p with
  | [] => s                                  (* never used with an empty pattern *)
  | _ => replace_fuel (S (length s)) p v s
  end.

(* the pieces io.StringIO.readline() returns until it returns "": cut after each LF *)
Fixpoint lines_acc (cur : str) (s : str) : list str :=
  match s with
  | [] => match cur with [] => [] | _ => [rev cur] end
  | c :: s' => if N.eqb c LF then rev (c :: cur) :: lines_acc [] s' else lines_acc (c :: cur) s'
  end.
Definition py_lines (s : str) : list str := lines_acc [] s.

(* str(n) for a natural number *)
Fixpoint uint_digits (d : Decimal.uint) : str :=
  match d with
  | Decimal.Nil => []
  | Decimal.D0 d' => 48 :: uint_digits d'
  | Decimal.D1 d' => 49 :: uint_digits d'
  | Decimal.D2 d' => 50 :: uint_digits d'
  | Decimal.D3 d' => 51 :: uint_digits d'
  | Decimal.D4 d' => 52 :: uint_digits d'
  | Decimal.D5 d' => 53 :: uint_digits d'
  | Decimal.D6 d' => 54 :: uint_digits d'
  | Decimal.D7 d' => 55 :: uint_digits d'
  | Decimal.D8 d' => 56 :: uint_digits d'
  | Decimal.D9 d' => 57 :: uint_digits d'
  end.
Definition nat_to_str (n : nat) : str :=
  match uint_digits (Nat.to_uint n) with [] => [48] | l => l end.

(* text-mode reading with universal newlines: CRLF and lone CR become LF *)
Fixpoint universal_newlines (s : str) : str :=
  match s with
  | [] => []
  | c :: s' =>
    if N.eqb c CR then
      match s' with
      | d :: s'' => if N.eqb d LF then LF :: universal_newlines s'' else LF :: universal_newlines s'
      | [] => [LF]
      end
    else c :: universal_newlines s'
  end.

Definition str_in (x : str) (l : list str) : bool := existsb (str_eqb x) l.
