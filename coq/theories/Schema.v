(* C17: the shapes Cucumber Messages prescribes for the four envelope kinds, as a checker over JSON
   values (required keys present, no other keys, strings / integers / lists where required, the fixed
   vocabularies, optional keys either absent or well-typed -- never null).  No proofs in this file. *)
From Coq Require Import String.
From Coq Require Import List Bool Arith NArith.
Import ListNotations.
Require Import Kinds PyStr Json.

Definition is_str (j : json) : bool := match j with JStr _ => true | _ => false end.
Definition is_num (j : json) : bool := match j with JNum _ => true | _ => false end.
Definition is_arr (f : json -> bool) (j : json) : bool := match j with JArr l => forallb f l | _ => false end.
Definition is_enum (vals : list string) (j : json) : bool :=
  match j with JStr s => existsb (fun v => list_beq N.eqb s (s2l v)) vals | _ => false end.

(* a field: name, required?, checker *)
Definition field := (string * bool * (json -> bool))%type.
Definition lookup (k : str) (l : list (str * json)) : option json :=
  option_map snd (find (fun kv => list_beq N.eqb (fst kv) k) l).
Fixpoint keys_distinct (l : list (str * json)) : bool :=
  match l with
  | [] => true
  | (k, _) :: r => negb (existsb (fun kv => list_beq N.eqb (fst kv) k) r) && keys_distinct r
  end.
Definition is_obj (spec : list field) (j : json) : bool :=
  match j with
  | JObj l =>
    keys_distinct l
    && forallb (fun kv => existsb (fun f => list_beq N.eqb (fst kv) (s2l (fst (fst f)))) spec) l
    && forallb (fun f => match lookup (s2l (fst (fst f))) l with
                         | Some v => snd f v
                         | None => negb (snd (fst f))
                         end) spec
  | _ => false
  end.
Definition req (k : string) (f : json -> bool) : field := (k, true, f).
Definition opt (k : string) (f : json -> bool) : field := (k, false, f).

Definition s_loc : json -> bool := is_obj [req "line" is_num; opt "column" is_num].
Definition s_tag := is_obj [req "id" is_str; req "location" s_loc; req "name" is_str].
Definition s_cell := is_obj [req "location" s_loc; req "value" is_str].
Definition s_row := is_obj [req "id" is_str; req "location" s_loc; req "cells" (is_arr s_cell)].
Definition s_docstring := is_obj [req "location" s_loc; req "content" is_str; req "delimiter" is_str; opt "mediaType" is_str].
Definition s_datatable := is_obj [req "location" s_loc; req "rows" (is_arr s_row)].
Definition KTYPES : list string := ["Unknown"; "Context"; "Action"; "Outcome"; "Conjunction"]%string.
Definition PTYPES : list string := ["Unknown"; "Context"; "Action"; "Outcome"]%string.
Definition s_step := is_obj [req "id" is_str; req "location" s_loc; req "keyword" is_str; req "keywordType" (is_enum KTYPES);
                             req "text" is_str; opt "dataTable" s_datatable; opt "docString" s_docstring].
Definition s_background := is_obj [req "id" is_str; req "location" s_loc; req "keyword" is_str; req "name" is_str;
                                   req "description" is_str; req "steps" (is_arr s_step)].
Definition s_examples := is_obj [req "id" is_str; req "tags" (is_arr s_tag); req "location" s_loc; req "keyword" is_str;
                                 req "name" is_str; req "description" is_str; opt "tableHeader" s_row; req "tableBody" (is_arr s_row)].
Definition s_scenario := is_obj [req "id" is_str; req "tags" (is_arr s_tag); req "location" s_loc; req "keyword" is_str;
                                 req "name" is_str; req "description" is_str; req "steps" (is_arr s_step);
                                 req "examples" (is_arr s_examples)].
(* a child: an object with exactly one of the given keys *)
Definition is_one (alts : list (string * (json -> bool))) (j : json) : bool :=
  match j with
  | JObj [(k, v)] => existsb (fun a => list_beq N.eqb k (s2l (fst a)) && snd a v) alts
  | _ => false
  end.
Definition s_rchild := is_one [("background", s_background); ("scenario", s_scenario)]%string.
Definition s_rule := is_obj [req "id" is_str; req "tags" (is_arr s_tag); req "location" s_loc; req "keyword" is_str;
                             req "name" is_str; req "description" is_str; req "children" (is_arr s_rchild)].
Definition s_fchild := is_one [("background", s_background); ("scenario", s_scenario); ("rule", s_rule)]%string.
Definition s_feature := is_obj [req "tags" (is_arr s_tag); req "location" s_loc; req "language" is_str; req "keyword" is_str;
                                req "name" is_str; req "description" is_str; req "children" (is_arr s_fchild)].
Definition s_comment := is_obj [req "location" s_loc; req "text" is_str].
Definition s_gherkin_document := is_obj [opt "feature" s_feature; req "comments" (is_arr s_comment); req "uri" is_str].

Definition s_pcell := is_obj [req "value" is_str].
Definition s_prow := is_obj [req "cells" (is_arr s_pcell)].
Definition s_pargument := is_one [("dataTable", is_obj [req "rows" (is_arr s_prow)]);
                                  ("docString", is_obj [req "content" is_str; opt "mediaType" is_str])]%string.
Definition s_pstep := is_obj [req "astNodeIds" (is_arr is_str); req "id" is_str; req "type" (is_enum PTYPES); req "text" is_str;
                              opt "argument" s_pargument].
Definition s_ptag := is_obj [req "astNodeId" is_str; req "name" is_str].
Definition s_pickle := is_obj [req "astNodeIds" (is_arr is_str); req "id" is_str; req "tags" (is_arr s_ptag); req "name" is_str;
                               req "language" is_str; req "steps" (is_arr s_pstep); req "uri" is_str].
Definition s_source := is_obj [req "uri" is_str; req "data" is_str; req "mediaType" (is_enum ["text/x.cucumber.gherkin+plain"%string])].
Definition s_parse_error := is_obj [req "source" (is_obj [req "uri" is_str; req "location" s_loc]); req "message" is_str].

Definition s_envelope := is_one [("source", s_source); ("gherkinDocument", s_gherkin_document); ("pickle", s_pickle);
                                 ("parseError", s_parse_error)]%string.
