(* Model of python/gherkin/ast_builder.py and ast_node.py: the untyped stack
   machine, with every ill-typed access an explicit crash.  No proofs here. *)
From Coq Require Import String.
From Coq Require Import List Bool Arith NArith.
Import ListNotations.
Require Import Kinds PyStr Line Matcher Ast.

Inductive key := KT (k : kind) | KR (r : rule) | KNone.
Definition key_beq (a b : key) : bool :=
  match a, b with
  | KT x, KT y => kind_beq x y
  | KR x, KR y => rule_beq x y
  | KNone, KNone => true
  | _, _ => false
  end.

(* what an AstNode can hold: tokens and the results of transform_node *)
Inductive value :=
  | VTok (t : token)
  | VNode (n : node)
  | VStep (s : step)
  | VDocString (d : docstring)
  | VDataTable (l : loc) (rows : list row)
  | VBackground (b : background)
  | VScenario (s : scenario)
  | VExamples (e : examples)
  | VRows (rs : list row)
  | VDesc (s : str)
  | VRule (r : grule)
  | VFeature (f : feature)
  | VDocument (d : document)
  | VNone
with node := Node (rt : key) (items : list (key * value)).

Definition node_rt (n : node) : key := match n with Node rt _ => rt end.
Definition node_items (n : node) : list (key * value) := match n with Node _ it => it end.
Definition node_add (n : node) (k : key) (v : value) : node :=
  match n with Node rt it => Node rt (it ++ [(k, v)]) end.
Definition get_items (n : node) (k : key) : list value :=
  map snd (filter (fun kv => key_beq (fst kv) k) (node_items n)).
Definition get_single (n : node) (k : key) : option value :=
  match get_items n k with v :: _ => Some v | [] => None end.

Record bstate := mk_bstate {
  b_stack : list node;          (* top of stack first *)
  b_comments : list comment;    (* oldest first *)
  b_idc : nat                   (* the id generator's counter (shared, never reset) *)
}.

Definition reset_builder (b : bstate) : bstate := mk_bstate [Node KNone []] [] (b_idc b).
Definition new_builder (idc : nat) : bstate := mk_bstate [Node KNone []] [] idc.

(* results of builder-internal computations: value, id counter *)
Inductive tres (A : Type) :=
  | TOk (a : A) (idc : nat)
  | TRaise (e : perror) (idc : nat)
  | TCrash.
Arguments TOk {A}. Arguments TRaise {A}. Arguments TCrash {A}.

Definition tbind {A B} (r : tres A) (f : A -> nat -> tres B) : tres B :=
  match r with TOk a i => f a i | TRaise e i => TRaise e i | TCrash => TCrash end.

(* get_location(token, column) *)
Definition get_location (t : token) (column : option nat) : loc :=
  match column with
  | Some (S c) => mk_loc (loc_line (tk_loc t)) (Some (S c))
  | _ => tk_loc t
  end.

Fixpoint toks_of (vs : list value) : option (list token) :=
  match vs with
  | [] => Some []
  | VTok t :: r => option_map (cons t) (toks_of r)
  | _ :: _ => None
  end.
Definition get_tokens (n : node) (k : kind) : option (list token) := toks_of (get_items n (KT k)).

Fixpoint tags_of_items (t : token) (items : list (nat * str)) (idc : nat) : list tag * nat :=
  match items with
  | [] => ([], idc)
  | (c, text) :: r =>
    let (tl, idc') := tags_of_items t r (S idc) in
    (mk_tag idc (get_location t (Some c)) text :: tl, idc')
  end.
Fixpoint tags_of_tokens (ts : list token) (idc : nat) : list tag * nat :=
  match ts with
  | [] => ([], idc)
  | t :: r =>
    let (a, i1) := tags_of_items t (m_items t) idc in
    let (b, i2) := tags_of_tokens r i1 in
    (a ++ b, i2)
  end.

Definition get_tags (n : node) (idc : nat) : tres (list tag) :=
  match get_single n (KR RTags) with
  | None => TOk [] idc
  | Some (VNode tn) =>
    match get_tokens tn KTagLine with
    | Some ts => let (tags, i) := tags_of_tokens ts idc in TOk tags i
    | None => TCrash
    end
  | Some _ => TCrash
  end.

Definition get_cells (t : token) : list cell :=
  map (fun it => mk_cell (get_location t (Some (fst it))) (snd it)) (m_items t).

Fixpoint rows_of_tokens (ts : list token) (idc : nat) : list row * nat :=
  match ts with
  | [] => ([], idc)
  | t :: r =>
    let (rs, i) := rows_of_tokens r (S idc) in
    (mk_row idc (get_location t None) (get_cells t) :: rs, i)
  end.

(* ensure_cell_count: the first row whose cell count differs from the first row's *)
Definition first_ragged (rows : list row) : option row :=
  match rows with
  | [] => None
  | r0 :: _ => find (fun r => negb (Nat.eqb (length (r_cells r)) (length (r_cells r0)))) rows
  end.

Definition get_table_rows (n : node) (idc : nat) : tres (list row) :=
  match get_tokens n KTableRow with
  | None => TCrash
  | Some ts =>
    let (rows, i) := rows_of_tokens ts idc in
    match first_ragged rows with
    | Some r => TRaise (parser_exception EAstBuilder (s2l "inconsistent cell count within the table") (r_loc r)) i
    | None => TOk rows i
    end
  end.

Definition get_description (n : node) : option str :=
  match get_single n (KR RDescription) with
  | None => Some []
  | Some (VDesc s) => Some s
  | Some _ => None
  end.

Fixpoint steps_of (vs : list value) : option (list step) :=
  match vs with
  | [] => Some []
  | VStep s :: r => option_map (cons s) (steps_of r)
  | _ :: _ => None
  end.
Definition get_steps (n : node) : option (list step) := steps_of (get_items n (KR RStep)).

Fixpoint scenarios_of (vs : list value) : option (list scenario) :=
  match vs with
  | [] => Some []
  | VScenario s :: r => option_map (cons s) (scenarios_of r)
  | _ :: _ => None
  end.
Fixpoint examples_of (vs : list value) : option (list examples) :=
  match vs with
  | [] => Some []
  | VExamples s :: r => option_map (cons s) (examples_of r)
  | _ :: _ => None
  end.
Fixpoint rules_of (vs : list value) : option (list (option grule)) :=
  match vs with
  | [] => Some []
  | VRule s :: r => option_map (cons (Some s)) (rules_of r)
  | VNone :: r => option_map (cons None) (rules_of r)
  | _ :: _ => None
  end.

Definition get_token (n : node) (k : kind) : option (option token) :=
  match get_single n (KT k) with
  | None => Some None
  | Some (VTok t) => Some (Some t)
  | Some _ => None
  end.

(* whitespace-only (or empty) matched text: a blank description line *)
Definition blank_text (t : token) : bool :=
  match m_text t with Some s => forallb is_space s | None => true end.
Fixpoint drop_trailing_blank (ts : list token) : list token :=
  match ts with
  | [] => []
  | t :: r =>
    match drop_trailing_blank r with
    | [] => if blank_text t then [] else [t]
    | r' => t :: r'
    end
  end.

Fixpoint texts_of (ts : list token) : option (list str) :=
  match ts with
  | [] => Some []
  | t :: r => match m_text t, texts_of r with Some s, Some l => Some (s :: l) | _, _ => None end
  end.

Definition opt_crash {A B} (o : option A) (f : A -> tres B) : tres B :=
  match o with Some a => f a | None => TCrash end.

(* AstBuilder.transform_node; comments = self.comments at that moment *)
Definition transform_node (n : node) (comments : list comment) (idc : nat) : tres value :=
  match node_rt n with
  | KR RStep =>
    opt_crash (get_token n KStepLine) (fun ot =>
    opt_crash ot (fun sl =>
    opt_crash (m_keyword sl) (fun kw =>
    opt_crash (m_ktype sl) (fun kt =>
    opt_crash (m_text sl) (fun text =>
      let arg := match get_single n (KR RDataTable) with
                 | Some (VDataTable l rows) => Some (ArgTable l rows)
                 | Some _ => None
                 | None =>
                   match get_single n (KR RDocString) with
                   | Some (VDocString d) => Some (ArgDoc d)
                   | Some _ => None
                   | None => Some ArgNone
                   end
                 end in
      opt_crash arg (fun a =>
        TOk (VStep (mk_step idc (get_location sl None) kw kt text a)) (S idc)))))))
  | KR RDocString =>
    opt_crash (get_tokens n KDocStringSeparator) (fun seps =>
    match seps with
    | [] => TCrash
    | sep :: _ =>
      opt_crash (m_text sep) (fun mt =>
      opt_crash (m_keyword sep) (fun delim =>
      opt_crash (get_tokens n KOther) (fun lines =>
      opt_crash (texts_of lines) (fun texts =>
        let media := match mt with [] => None | _ => Some mt end in
        TOk (VDocString (mk_docstring (get_location sep None) (join [LF] texts) delim media)) idc))))
    end)
  | KR RDataTable =>
    tbind (get_table_rows n idc) (fun rows i =>
      match rows with
      | [] => TCrash
      | r0 :: _ => TOk (VDataTable (r_loc r0) rows) i
      end)
  | KR RBackground =>
    opt_crash (get_token n KBackgroundLine) (fun ot =>
    opt_crash ot (fun bl =>
    opt_crash (m_keyword bl) (fun kw =>
    opt_crash (m_text bl) (fun name =>
    opt_crash (get_description n) (fun desc =>
    opt_crash (get_steps n) (fun steps =>
      TOk (VBackground (mk_background idc (get_location bl None) kw name desc steps)) (S idc)))))))
  | KR RScenarioDefinition =>
    tbind (get_tags n idc) (fun tags i =>
      match get_single n (KR RScenario) with
      | Some (VNode sn) =>
        opt_crash (get_token sn KScenarioLine) (fun ot =>
        opt_crash ot (fun sl =>
        opt_crash (m_keyword sl) (fun kw =>
        opt_crash (m_text sl) (fun name =>
        opt_crash (get_description sn) (fun desc =>
        opt_crash (get_steps sn) (fun steps =>
        opt_crash (examples_of (get_items sn (KR RExamplesDefinition))) (fun exs =>
          TOk (VScenario (mk_scenario i tags (get_location sl None) kw name desc steps exs)) (S i))))))))
      | _ => TCrash
      end)
  | KR RExamplesDefinition =>
    tbind (get_tags n idc) (fun tags i =>
      match get_single n (KR RExamples) with
      | Some (VNode en) =>
        opt_crash (get_token en KExamplesLine) (fun ot =>
        opt_crash ot (fun el =>
        opt_crash (m_keyword el) (fun kw =>
        opt_crash (m_text el) (fun name =>
        opt_crash (get_description en) (fun desc =>
          let rows := match get_single en (KR RExamplesTable) with
                      | None => Some []
                      | Some (VRows rs) => Some rs
                      | Some _ => None
                      end in
          opt_crash rows (fun rs =>
            TOk (VExamples (mk_examples i tags (get_location el None) kw name desc
                                        (hd_error rs) (tl rs))) (S i)))))))
      | _ => TCrash
      end)
  | KR RExamplesTable =>
    tbind (get_table_rows n idc) (fun rows i => TOk (VRows rows) i)
  | KR RDescription =>
    opt_crash (get_tokens n KOther) (fun lines =>
    opt_crash (texts_of (drop_trailing_blank lines)) (fun texts =>
      TOk (VDesc (join [LF] texts)) idc))
  | KR RRule =>
    match get_single n (KR RRuleHeader) with
    | None => TOk VNone idc
    | Some (VNode hn) =>
      tbind (get_tags hn idc) (fun tags i =>
        opt_crash (get_token hn KRuleLine) (fun ot =>
        match ot with
        | None => TOk VNone i
        | Some rl =>
          opt_crash (m_keyword rl) (fun kw =>
          opt_crash (m_text rl) (fun name =>
          let bg := match get_single n (KR RBackground) with
                    | None => Some []
                    | Some (VBackground b) => Some [RCBackground b]
                    | Some _ => None
                    end in
          opt_crash bg (fun bgc =>
          opt_crash (scenarios_of (get_items n (KR RScenarioDefinition))) (fun scs =>
          opt_crash (get_description hn) (fun desc =>
            TOk (VRule (mk_grule i tags (get_location rl None) kw name desc
                                 (bgc ++ map RCScenario scs))) (S i))))))
        end))
    | Some _ => TCrash
    end
  | KR RFeature =>
    match get_single n (KR RFeatureHeader) with
    | None => TOk VNone idc
    | Some (VNode hn) =>
      tbind (get_tags hn idc) (fun tags i =>
        opt_crash (get_token hn KFeatureLine) (fun ot =>
        match ot with
        | None => TOk VNone i
        | Some fl =>
          opt_crash (m_keyword fl) (fun kw =>
          opt_crash (m_text fl) (fun name =>
          let bg := match get_single n (KR RBackground) with
                    | None => Some []
                    | Some (VBackground b) => Some [FCBackground b]
                    | Some _ => None
                    end in
          opt_crash bg (fun bgc =>
          opt_crash (scenarios_of (get_items n (KR RScenarioDefinition))) (fun scs =>
          opt_crash (rules_of (get_items n (KR RRule))) (fun rls =>
          opt_crash (get_description hn) (fun desc =>
            (* a Rule that transformed to None would be a {"rule": None} child *)
            if forallb (fun r => match r with Some _ => true | None => false end) rls then
              TOk (VFeature (mk_feature tags (get_location fl None) (m_dialect fl) kw name desc
                     (bgc ++ map FCScenario scs
                          ++ flat_map (fun r => match r with Some x => [FCRule x] | None => [] end) rls))) i
            else TCrash))))))
        end))
    | Some _ => TCrash
    end
  | KR RGherkinDocument =>
    match get_single n (KR RFeature) with
    | None | Some VNone => TOk (VDocument (mk_document None comments)) idc
    | Some (VFeature f) => TOk (VDocument (mk_document (Some f) comments)) idc
    | Some _ => TCrash
    end
  | _ => TOk (VNode n) idc
  end.

Inductive bout :=
  | BoOk (b : bstate)
  | BoRaise (e : perror) (b : bstate)
  | BoCrash.

Definition builder_start (r : rule) (b : bstate) : bout :=
  BoOk (mk_bstate (Node (KR r) [] :: b_stack b) (b_comments b) (b_idc b)).

(* end_rule ignores its argument: it pops and transforms whatever is on top *)
Definition builder_end (r : rule) (b : bstate) : bout :=
  match b_stack b with
  | [] => BoCrash
  | n :: stk =>
    match transform_node n (b_comments b) (b_idc b) with
    | TCrash => BoCrash
    | TRaise e i => BoRaise e (mk_bstate stk (b_comments b) i)
    | TOk v i =>
      match stk with
      | [] => BoCrash
      | cur :: stk' => BoOk (mk_bstate (node_add cur (node_rt n) v :: stk') (b_comments b) i)
      end
    end
  end.

Definition builder_build (t : token) (b : bstate) : bout :=
  match m_type t with
  | None => BoCrash
  | Some KComment =>
    match m_text t with
    | Some text => BoOk (mk_bstate (b_stack b) (b_comments b ++ [mk_comment (get_location t None) text]) (b_idc b))
    | None => BoCrash
    end
  | Some k =>
    match b_stack b with
    | [] => BoCrash
    | cur :: stk => BoOk (mk_bstate (node_add cur (KT k) (VTok t) :: stk) (b_comments b) (b_idc b))
    end
  end.

(* get_result *)
Definition builder_result (b : bstate) : option document :=
  match b_stack b with
  | cur :: _ =>
    match get_single cur (KR RGherkinDocument) with
    | Some (VDocument d) => Some d
    | _ => None
    end
  | [] => None
  end.
