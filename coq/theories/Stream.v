(* Model of python/gherkin/stream/gherkin_events.py (GherkinEvents.enum) and
   source_events.py.  No proofs in this file. *)
From Coq Require Import String.
From Coq Require Import List Bool Arith NArith.
Import ListNotations.
Require Import Kinds PyStr Line Matcher Ast Builder Compiler Pipeline Dialects.

Inductive envelope :=
  | EnvSource (uri data media : str)
  | EnvDocument (uri : str) (d : document)
  | EnvPickle (p : pickle)
  | EnvParseError (uri : str) (l : loc) (message : str).

(* stop_first is not one of GherkinEvents.Options: it is the stop_at_first_error attribute of the
   stream's Parser (events.parser.stop_at_first_error), which a caller may set *)
Record options := mk_options { print_source : bool; print_ast : bool; print_pickles : bool; stop_first : bool }.

Definition MEDIA_TYPE : str := s2l "text/x.cucumber.gherkin+plain".
Definition EN : str := s2l "en".

Definition create_errors (uri : str) (es : list perror) : list envelope :=
  map (fun e => EnvParseError uri (e_loc e) (e_msg e)) es.

(* GherkinEvents.enum for one source event; idc is the shared id generator's
   counter; None = an exception other than ParserError escaped *)
Definition enum_source (o : options) (idc : nat) (uri data : str) : option (list envelope * nat) :=
  match new_matcher dialects EN with
  | None => None
  | Some m0 =>
    match parse_source (stop_first o) m0 (new_builder idc) data with
    | POk d _ b _ =>
      let i := b_idc b in
      let head := (if print_source o then [EnvSource uri data MEDIA_TYPE] else [])
                  ++ (if print_ast o then [EnvDocument uri d] else []) in
      if print_pickles o then
        match compile uri d i with
        | Some (ps, i') => Some (head ++ map EnvPickle ps, i')
        | None => None
        end
      else Some (head, i)
    | PErrs es _ b _ => Some (create_errors uri es, b_idc b)
    | PErr1 e _ b _ => Some (create_errors uri [e], b_idc b)
    | PCrash | POutOfFuel => None
    end
  end.

(* several sources through one GherkinEvents instance *)
Fixpoint enum_sources (o : options) (idc : nat) (srcs : list (str * str)) : option (list envelope * nat) :=
  match srcs with
  | [] => Some ([], idc)
  | (uri, data) :: r =>
    match enum_source o idc uri data with
    | None => None
    | Some (es, i) =>
      match enum_sources o i r with
      | None => None
      | Some (es', i') => Some (es ++ es', i')
      end
    end
  end.
