(* Model of python/gherkin/pickles/compiler.py, written in the accumulator style
   of the code (the declarative specifications are in proofs/CompilerSpec.v).
   No proofs in this file. *)
From Coq Require Import String.
From Coq Require Import List Bool Arith NArith.
Import ListNotations.
Require Import PyStr Matcher Ast.

Local Open Scope N_scope.

Definition LT : N := 60.   (* < *)
Definition GT : N := 62.   (* > *)

(* _interpolate: for each header cell in order, replace "<header>" by the value
   of the same column, literally.  value_cells[n] on a shorter row is an
   IndexError: None. *)
Fixpoint interpolate (name : str) (vars vals : list cell) : option str :=
  match vars with
  | [] => Some name
  | h :: vars' =>
    match vals with
    | [] => None
    | v :: vals' => interpolate (replace_all (LT :: c_value h ++ [GT]) (c_value v) name) vars' vals'
    end
  end.

Definition pickle_type (last : ptype) (kt : ktype) : ptype :=
  match kt with
  | Conjunction => last
  | Unknown => PUnknown
  | Context => PContext
  | Action => PAction
  | Outcome => POutcome
  end.

Fixpoint map_opt {A B} (f : A -> option B) (l : list A) : option (list B) :=
  match l with
  | [] => Some []
  | x :: r => match f x, map_opt f r with Some y, Some ys => Some (y :: ys) | _, _ => None end
  end.

(* _create_pickle_arguments *)
Definition pickle_argument (s : step) (vars vals : list cell) : option parg :=
  match st_arg s with
  | ArgNone => Some PArgNone
  | ArgTable _ rows =>
    option_map PArgTable
      (map_opt (fun r => map_opt (fun c => interpolate (c_value c) vars vals) (r_cells r)) rows)
  | ArgDoc d =>
    match interpolate (ds_content d) vars vals with
    | None => None
    | Some content =>
      match ds_media d with
      | None => Some (PArgDoc content None)
      | Some mt => option_map (fun m => PArgDoc content (Some m)) (interpolate mt vars vals)
      end
    end
  end.

(* background / plain steps: _pickle_step; threads last_keyword_type and the id counter *)
Fixpoint plain_steps (steps : list step) (last : ptype) (idc : nat) : option (list pstep * ptype * nat) :=
  match steps with
  | [] => Some ([], last, idc)
  | s :: r =>
    let ty := pickle_type last (st_ktype s) in
    match pickle_argument s [] [] with
    | None => None
    | Some arg =>
      match plain_steps r ty (S idc) with
      | None => None
      | Some (ps, l, i) => Some (mk_pstep [st_id s] idc ty (st_text s) arg :: ps, l, i)
      end
    end
  end.

(* an outline's own steps for one example row *)
Fixpoint outline_steps (steps : list step) (vars vals : list cell) (row_id : nat)
         (last : ptype) (idc : nat) : option (list pstep * ptype * nat) :=
  match steps with
  | [] => Some ([], last, idc)
  | s :: r =>
    let ty := pickle_type last (st_ktype s) in
    match interpolate (st_text s) vars vals, pickle_argument s vars vals with
    | Some text, Some arg =>
      match outline_steps r vars vals row_id ty (S idc) with
      | None => None
      | Some (ps, l, i) => Some (mk_pstep [st_id s; row_id] idc ty text arg :: ps, l, i)
      end
    | _, _ => None
    end
  end.

Definition pickle_tags (ts : list tag) : list ptag := map (fun t => mk_ptag (tg_id t) (tg_name t)) ts.

(* _compile_scenario *)
Definition compile_scenario (uri : str) (inherited : list tag) (bg : list step) (sc : scenario)
           (language : str) (idc : nat) : option (list pickle * nat) :=
  let tags := inherited ++ sc_tags sc in
  let steps_r := match sc_steps sc with
                 | [] => Some ([], PUnknown, idc)
                 | _ => plain_steps (bg ++ sc_steps sc) PUnknown idc
                 end in
  match steps_r with
  | None => None
  | Some (steps, _, i) =>
    Some ([mk_pickle [sc_id sc] i (pickle_tags tags) (sc_name sc) language steps uri], S i)
  end.

(* one body row of one examples table *)
Definition compile_row (uri : str) (inherited : list tag) (bg : list step) (sc : scenario)
           (ex : examples) (vars : list cell) (values : row) (language : str) (idc : nat)
  : option (pickle * nat) :=
  let vals := r_cells values in
  let tags := inherited ++ sc_tags sc ++ ex_tags ex in
  let steps_r :=
    match sc_steps sc with
    | [] => Some ([], PUnknown, idc)
    | _ =>
      match plain_steps bg PUnknown idc with
      | None => None
      | Some (bs, last, i1) =>
        match outline_steps (sc_steps sc) vars vals (r_id values) last i1 with
        | None => None
        | Some (os, l, i2) => Some (bs ++ os, l, i2)
        end
      end
    end in
  match steps_r with
  | None => None
  | Some (steps, _, i) =>
    match interpolate (sc_name sc) vars vals with
    | None => None
    | Some name =>
      Some (mk_pickle [sc_id sc; r_id values] i (pickle_tags tags) name language steps uri, S i)
    end
  end.

Fixpoint compile_rows (uri : str) (inherited : list tag) (bg : list step) (sc : scenario)
         (ex : examples) (vars : list cell) (rows : list row) (language : str) (idc : nat)
  : option (list pickle * nat) :=
  match rows with
  | [] => Some ([], idc)
  | r :: rs =>
    match compile_row uri inherited bg sc ex vars r language idc with
    | None => None
    | Some (p, i) =>
      match compile_rows uri inherited bg sc ex vars rs language i with
      | None => None
      | Some (ps, i') => Some (p :: ps, i')
      end
    end
  end.

(* _compile_scenario_outline *)
Fixpoint compile_examples (uri : str) (inherited : list tag) (bg : list step) (sc : scenario)
         (exs : list examples) (language : str) (idc : nat) : option (list pickle * nat) :=
  match exs with
  | [] => Some ([], idc)
  | ex :: r =>
    match ex_header ex with
    | None => compile_examples uri inherited bg sc r language idc
    | Some h =>
      match compile_rows uri inherited bg sc ex (r_cells h) (ex_body ex) language idc with
      | None => None
      | Some (ps, i) =>
        match compile_examples uri inherited bg sc r language i with
        | None => None
        | Some (ps', i') => Some (ps ++ ps', i')
        end
      end
    end
  end.

Definition compile_scenario_def (uri : str) (inherited : list tag) (bg : list step) (sc : scenario)
           (language : str) (idc : nat) : option (list pickle * nat) :=
  match sc_examples sc with
  | [] => compile_scenario uri inherited bg sc language idc
  | _ => compile_examples uri inherited bg sc (sc_examples sc) language idc
  end.

(* _compile_rule: bg = the rule-level list (starts as a copy of the feature-level one) *)
Fixpoint compile_rule_children (uri : str) (tags : list tag) (bg : list step) (cs : list rchild)
         (language : str) (idc : nat) : option (list pickle * nat) :=
  match cs with
  | [] => Some ([], idc)
  | RCBackground b :: r => compile_rule_children uri tags (bg ++ bg_steps b) r language idc
  | RCScenario sc :: r =>
    match compile_scenario_def uri tags bg sc language idc with
    | None => None
    | Some (ps, i) =>
      match compile_rule_children uri tags bg r language i with
      | None => None
      | Some (ps', i') => Some (ps ++ ps', i')
      end
    end
  end.

Fixpoint compile_children (uri : str) (ftags : list tag) (bg : list step) (cs : list fchild)
         (language : str) (idc : nat) : option (list pickle * nat) :=
  match cs with
  | [] => Some ([], idc)
  | FCBackground b :: r => compile_children uri ftags (bg ++ bg_steps b) r language idc
  | FCRule ru :: r =>
    match compile_rule_children uri (ftags ++ ru_tags ru) bg (ru_children ru) language idc with
    | None => None
    | Some (ps, i) =>
      match compile_children uri ftags bg r language i with
      | None => None
      | Some (ps', i') => Some (ps ++ ps', i')
      end
    end
  | FCScenario sc :: r =>
    match compile_scenario_def uri ftags bg sc language idc with
    | None => None
    | Some (ps, i) =>
      match compile_children uri ftags bg r language i with
      | None => None
      | Some (ps', i') => Some (ps ++ ps', i')
      end
    end
  end.

(* Compiler.compile; None = an IndexError escaped (a body row shorter than its header) *)
Definition compile (uri : str) (d : document) (idc : nat) : option (list pickle * nat) :=
  match doc_feature d with
  | None => Some ([], idc)
  | Some f => compile_children uri (f_tags f) [] (f_children f) (f_language f) idc
  end.
