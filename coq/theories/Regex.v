(* Regular expressions over grammar items (token kinds and !-rules), Brzozowski
   derivatives with normalising smart constructors.  The reference semantics of
   gherkin.berp (RefSem.v) is built on these.  No proofs in this file. *)
From Coq Require Import List Bool Arith.
Import ListNotations.
Require Import Kinds.

Inductive re :=
  | Emp | Eps
  | Tk (k : kind)
  | Rl (r : rule)
  | Sq (a b : re) | Al (a b : re) | St (a : re).

Scheme Equality for re.

Lemma re_beq_eq a b : re_beq a b = true <-> a = b.
Proof. split; [apply internal_re_dec_bl | apply internal_re_dec_lb]. Qed.

Inductive item := IK (k : kind) | IR (r : rule).

Definition item_beq (a b : item) : bool :=
  match a, b with
  | IK x, IK y => kind_beq x y
  | IR x, IR y => rule_beq x y
  | _, _ => false
  end.

(* sequence: flatten to the right, drop Eps, absorb Emp *)
Fixpoint mkseq_fuel (f : nat) (a b : re) : re :=
  match a, b with
  | Emp, _ | _, Emp => Emp
  | Eps, _ => b
  | _, Eps => a
  | Sq x y, _ => match f with 0 => Sq a b | S f' => mkseq_fuel f' x (mkseq_fuel f' y b) end
  | _, _ => Sq a b
  end.
Definition mkseq := mkseq_fuel 64.

Fixpoint alts (r : re) : list re := match r with Al a b => alts a ++ alts b | _ => [r] end.
Fixpoint re_mem (x : re) (l : list re) : bool :=
  match l with [] => false | y :: t => re_beq x y || re_mem x t end.
Fixpoint dedup_alts (l seen : list re) : list re :=
  match l with
  | [] => []
  | x :: t => if re_beq x Emp || re_mem x seen then dedup_alts t seen else x :: dedup_alts t (x :: seen)
  end.
Fixpoint mkalts (l : list re) : re :=
  match l with [] => Emp | [x] => x | x :: t => Al x (mkalts t) end.
Definition mkalt (a b : re) : re := mkalts (dedup_alts (alts a ++ alts b) []).

Fixpoint nullable (r : re) : bool :=
  match r with
  | Emp | Tk _ | Rl _ => false
  | Eps | St _ => true
  | Sq a b => nullable a && nullable b
  | Al a b => nullable a || nullable b
  end.

Fixpoint deriv (r : re) (i : item) : re :=
  match r with
  | Emp | Eps => Emp
  | Tk k => if item_beq i (IK k) then Eps else Emp
  | Rl x => if item_beq i (IR x) then Eps else Emp
  | Al a b => mkalt (deriv a i) (deriv b i)
  | St a => mkseq (deriv a i) r
  | Sq a b => let d := mkseq (deriv a i) b in if nullable a then mkalt d (deriv b i) else d
  end.

(* rebuild with the smart constructors *)
Fixpoint normalize (r : re) : re :=
  match r with
  | Sq a b => mkseq (normalize a) (normalize b)
  | Al a b => mkalt (normalize a) (normalize b)
  | St a => St (normalize a)
  | _ => r
  end.

Definition nonemp (r : re) : bool := negb (re_beq r Emp).

(* replace every Rl x by the (recursively inlined) body of x *)
Fixpoint inline (fuel : nat) (body : rule -> re) (r : re) {struct fuel} : re :=
  match fuel with
  | 0 => Emp
  | S f =>
    (fix go (r : re) : re :=
       match r with
       | Rl x => inline f body (body x)
       | Sq a b => Sq (go a) (go b)
       | Al a b => Al (go a) (go b)
       | St a => St (go a)
       | _ => r
       end) r
  end.

(* no Rl left *)
Fixpoint rule_free (r : re) : bool :=
  match r with
  | Rl _ => false
  | Sq a b | Al a b => rule_free a && rule_free b
  | St a => rule_free a
  | _ => true
  end.

(* textbook semantics, used only for the sanity theorem in proofs/RegexSem.v *)
Inductive lang : re -> list item -> Prop :=
  | LEps : lang Eps []
  | LTk k : lang (Tk k) [IK k]
  | LRl x : lang (Rl x) [IR x]
  | LSq a b u v : lang a u -> lang b v -> lang (Sq a b) (u ++ v)
  | LAlL a b u : lang a u -> lang (Al a b) u
  | LAlR a b u : lang b u -> lang (Al a b) u
  | LStN a : lang (St a) []
  | LStS a u v : lang a u -> lang (St a) v -> lang (St a) (u ++ v).
