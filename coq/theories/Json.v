(* JSON view of model results, in the shapes the Python dictionaries have
   (reject_nones applied: absent optional keys are omitted).  Used by the
   correspondence check and by C17's well-formedness checker. *)
From Coq Require Import String.
From Coq Require Import List Bool Arith NArith.
Import ListNotations.
Require Import Kinds PyStr Line Matcher Ast Builder Compiler Pipeline Stream TokenFormatter.

Inductive json :=
  | JNull | JBool (b : bool) | JNum (n : nat) | JStr (s : str)
  | JArr (l : list json) | JObj (l : list (str * json)).

Definition jk (s : string) (v : json) : (str * json) := (s2l s, v).
Definition jid (n : nat) : json := JStr (nat_to_str n).
Definition jopt {A} (k : string) (f : A -> json) (o : option A) : list (str * json) :=
  match o with Some a => [jk k (f a)] | None => [] end.

Definition j_loc (l : loc) : json :=
  JObj (jk "line" (JNum (loc_line l)) :: jopt "column" JNum (loc_col l)).
Definition j_tag (t : tag) : json :=
  JObj [jk "id" (jid (tg_id t)); jk "location" (j_loc (tg_loc t)); jk "name" (JStr (tg_name t))].
Definition j_cell (c : cell) : json :=
  JObj [jk "location" (j_loc (c_loc c)); jk "value" (JStr (c_value c))].
Definition j_row (r : row) : json :=
  JObj [jk "id" (jid (r_id r)); jk "location" (j_loc (r_loc r)); jk "cells" (JArr (map j_cell (r_cells r)))].
Definition j_docstring (d : docstring) : json :=
  JObj ([jk "location" (j_loc (ds_loc d)); jk "content" (JStr (ds_content d));
         jk "delimiter" (JStr (ds_delim d))] ++ jopt "mediaType" JStr (ds_media d)).
Definition j_step (s : step) : json :=
  JObj ([jk "id" (jid (st_id s)); jk "location" (j_loc (st_loc s)); jk "keyword" (JStr (st_keyword s));
         jk "keywordType" (JStr (ktype_str (st_ktype s))); jk "text" (JStr (st_text s))]
        ++ match st_arg s with
           | ArgNone => []
           | ArgTable l rows => [jk "dataTable" (JObj [jk "location" (j_loc l); jk "rows" (JArr (map j_row rows))])]
           | ArgDoc d => [jk "docString" (j_docstring d)]
           end).
Definition j_background (b : background) : json :=
  JObj [jk "id" (jid (bg_id b)); jk "location" (j_loc (bg_loc b)); jk "keyword" (JStr (bg_keyword b));
        jk "name" (JStr (bg_name b)); jk "description" (JStr (bg_desc b));
        jk "steps" (JArr (map j_step (bg_steps b)))].
Definition j_examples (e : examples) : json :=
  JObj ([jk "id" (jid (ex_id e)); jk "tags" (JArr (map j_tag (ex_tags e))); jk "location" (j_loc (ex_loc e));
         jk "keyword" (JStr (ex_keyword e)); jk "name" (JStr (ex_name e));
         jk "description" (JStr (ex_desc e))]
        ++ jopt "tableHeader" j_row (ex_header e)
        ++ [jk "tableBody" (JArr (map j_row (ex_body e)))]).
Definition j_scenario (s : scenario) : json :=
  JObj [jk "id" (jid (sc_id s)); jk "tags" (JArr (map j_tag (sc_tags s))); jk "location" (j_loc (sc_loc s));
        jk "keyword" (JStr (sc_keyword s)); jk "name" (JStr (sc_name s));
        jk "description" (JStr (sc_desc s)); jk "steps" (JArr (map j_step (sc_steps s)));
        jk "examples" (JArr (map j_examples (sc_examples s)))].
Definition j_rchild (c : rchild) : json :=
  match c with
  | RCBackground b => JObj [jk "background" (j_background b)]
  | RCScenario s => JObj [jk "scenario" (j_scenario s)]
  end.
Definition j_rule (r : grule) : json :=
  JObj [jk "id" (jid (ru_id r)); jk "tags" (JArr (map j_tag (ru_tags r))); jk "location" (j_loc (ru_loc r));
        jk "keyword" (JStr (ru_keyword r)); jk "name" (JStr (ru_name r));
        jk "description" (JStr (ru_desc r)); jk "children" (JArr (map j_rchild (ru_children r)))].
Definition j_fchild (c : fchild) : json :=
  match c with
  | FCBackground b => JObj [jk "background" (j_background b)]
  | FCScenario s => JObj [jk "scenario" (j_scenario s)]
  | FCRule r => JObj [jk "rule" (j_rule r)]
  end.
Definition j_feature (f : feature) : json :=
  JObj [jk "tags" (JArr (map j_tag (f_tags f))); jk "location" (j_loc (f_loc f));
        jk "language" (JStr (f_language f)); jk "keyword" (JStr (f_keyword f));
        jk "name" (JStr (f_name f)); jk "description" (JStr (f_desc f));
        jk "children" (JArr (map j_fchild (f_children f)))].
Definition j_comment (c : comment) : json :=
  JObj [jk "location" (j_loc (cm_loc c)); jk "text" (JStr (cm_text c))].
Definition j_document (d : document) : json :=
  JObj (jopt "feature" j_feature (doc_feature d) ++ [jk "comments" (JArr (map j_comment (doc_comments d)))]).

Definition ptype_str (t : ptype) : str :=
  s2l match t with PUnknown => "Unknown" | PContext => "Context" | PAction => "Action" | POutcome => "Outcome" end.
Definition j_parg (a : parg) : list (str * json) :=
  match a with
  | PArgNone => []
  | PArgTable rows =>
    [jk "argument" (JObj [jk "dataTable" (JObj [jk "rows" (JArr (map (fun r =>
        JObj [jk "cells" (JArr (map (fun v => JObj [jk "value" (JStr v)]) r))]) rows))])])]
  | PArgDoc content media =>
    [jk "argument" (JObj [jk "docString" (JObj (jk "content" (JStr content) :: jopt "mediaType" JStr media))])]
  end.
Definition j_pstep (s : pstep) : json :=
  JObj ([jk "astNodeIds" (JArr (map jid (ps_nodes s))); jk "id" (jid (ps_id s));
         jk "type" (JStr (ptype_str (ps_type s))); jk "text" (JStr (ps_text s))] ++ j_parg (ps_arg s)).
Definition j_ptag (t : ptag) : json :=
  JObj [jk "astNodeId" (jid (pt_node t)); jk "name" (JStr (pt_name t))].
Definition j_pickle (p : pickle) : json :=
  JObj [jk "astNodeIds" (JArr (map jid (p_nodes p))); jk "id" (jid (p_id p));
        jk "tags" (JArr (map j_ptag (p_tags p))); jk "name" (JStr (p_name p));
        jk "language" (JStr (p_language p)); jk "steps" (JArr (map j_pstep (p_steps p)));
        jk "uri" (JStr (p_uri p))].

Definition ekind_str (k : ekind) : str :=
  s2l match k with
      | EUnexpectedToken => "UnexpectedTokenException" | EUnexpectedEOF => "UnexpectedEOFException"
      | ENoSuchLanguage => "NoSuchLanguageException" | ETag => "ParserException"
      | EAstBuilder => "AstBuilderException"
      end.
Definition j_error (e : perror) : json :=
  JObj [jk "type" (JStr (ekind_str (e_kind e))); jk "location" (j_loc (e_loc e)); jk "message" (JStr (e_msg e))].

Definition j_mstate (m : mstate) : json :=
  JObj [jk "default" (JStr (ms_default m)); jk "dialect" (JStr (ms_name m));
        jk "separator" (match ms_sep m with Some s => JStr s | None => JNull end);
        jk "indent" (JNum (ms_indent m))].

Definition j_presult (r : presult) : json :=
  match r with
  | POk d m b c => JObj [jk "ok" (j_document d); jk "matcher" (j_mstate m); jk "idc" (JNum (b_idc b)); jk "calls" (JNum c)]
  | PErrs es m b c => JObj [jk "errors" (JArr (map j_error es)); jk "matcher" (j_mstate m); jk "idc" (JNum (b_idc b)); jk "calls" (JNum c)]
  | PErr1 e m b c => JObj [jk "error" (j_error e); jk "matcher" (j_mstate m); jk "idc" (JNum (b_idc b)); jk "calls" (JNum c)]
  | PCrash => JObj [jk "crash" JNull]
  | POutOfFuel => JObj [jk "outoffuel" JNull]
  end.

Definition j_envelope (e : envelope) : json :=
  match e with
  | EnvSource uri data media =>
    JObj [jk "source" (JObj [jk "uri" (JStr uri); jk "data" (JStr data); jk "mediaType" (JStr media)])]
  | EnvDocument uri d =>
    JObj [jk "gherkinDocument" (match j_document d with
                                | JObj l => JObj (l ++ [jk "uri" (JStr uri)])
                                | j => j end)]
  | EnvPickle p => JObj [jk "pickle" (j_pickle p)]
  | EnvParseError uri l msg =>
    JObj [jk "parseError" (JObj [jk "source" (JObj [jk "uri" (JStr uri); jk "location" (j_loc l)]);
                                 jk "message" (JStr msg)])]
  end.

(* the token as TokenMatcher leaves it (unit-level correspondence of match_K) *)
Definition j_items (its : list (nat * str)) : json :=
  JArr (map (fun it => JObj [jk "column" (JNum (fst it)); jk "text" (JStr (snd it))]) its).
Definition j_token (t : token) : json :=
  JObj ([jk "location" (j_loc (tk_loc t)); jk "indent" (JNum (m_indent t)); jk "items" (j_items (m_items t));
         jk "dialect" (JStr (m_dialect t))]
        ++ jopt "type" (fun k => JStr (kind_name_str k)) (m_type t)
        ++ jopt "text" JStr (m_text t) ++ jopt "keyword" JStr (m_keyword t)
        ++ jopt "keywordType" (fun k => JStr (ktype_str k)) (m_ktype t)).
