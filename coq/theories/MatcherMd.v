(* Model of python/gherkin/token_matcher_markdown.py, line-level matching of
   keyword lines, steps, table rows and tag lines (C19).  match_Empty /
   match_Comment / match_DocStringSeparator of the Markdown matcher are outside
   the property (end-to-end Markdown parsing is documented as JavaScript-only)
   and are not modelled.  No proofs in this file. *)
From Coq Require Import String.
From Coq Require Import List Bool Arith NArith.
Import ListNotations.
Require Import Kinds PyStr Line Matcher.

Local Open Scope N_scope.

Definition STAR : N := 42.
Definition PLUS : N := 43.
Definition MINUS : N := 45.
Definition BACKTICK : N := 96.

Record mdstate := mk_mdstate { md_ms : mstate; md_feature_seen : bool }.   (* matched_feature_line *)

(* the first keyword, in list order, such that k ++ suffix is a prefix of s (regex alternation
   with backtracking into the following literal) *)
Fixpoint first_kw (ks : list str) (suffix s : str) : option str :=
  match ks with
  | [] => None
  | k :: ks' => if starts_with (k ++ suffix) s then Some k else first_kw ks' suffix s
  end.

(* the regex group dot-star: up to the first line feed *)
Fixpoint dot_star (s : str) : str :=
  match s with [] => [] | c :: r => if c =? LF then [] else c :: dot_star r end.

(* the header prefix group, one to six hashes and one whitespace: number of characters it consumes *)
Definition count_while (p : N -> bool) (s : str) : nat := length (take_while p s).
Definition header_prefix (s : str) : option nat :=
  let n := count_while (fun c => c =? HASH) s in
  if (1 <=? n)%nat && (n <=? 6)%nat then
    match skipn n s with
    | c :: _ => if is_space c then Some (S n) else None
    | [] => None
    end
  else None.

(* the bullet prefix group (blanks, one of star plus minus, blanks) followed by the keyword alternation:
   the blank run after the bullet is tried longest first, then shorter (backtracking) *)
Definition is_bullet (c : N) : bool := (c =? STAR) || (c =? PLUS) || (c =? MINUS).
Fixpoint try_blank_runs (fuel : nat) (ks : list str) (s : str) (n : nat) : option (nat * str) :=
  (* n = number of blanks taken after the bullet *)
  match first_kw ks [] (skipn n s) with
  | Some k => Some (n, k)
  | None => match fuel, n with
            | S f, S n' => try_blank_runs f ks s n'
            | _, _ => None
            end
  end.
Definition bullet_prefix (ks : list str) (s : str) : option (nat * str) :=
  let lead := count_while is_space s in
  match skipn lead s with
  | c :: r =>
    if is_bullet c then
      let run := count_while is_space r in
      match try_blank_runs run ks r run with
      | Some (n, k) => Some ((lead + 1 + n)%nat, k)
      | None => None
      end
    else None
  | [] => None
  end.

(* _match_title_line(prefix, keywords, suffix, token, type) on line l *)
Definition md_title (m : mstate) (t : token) (l : gline) (header : bool) (ks : list str) (suffix : str) (ty : kind)
  : option token :=
  let s := l_trimmed l in
  let hit := if header then
               match header_prefix s with
               | Some plen => option_map (fun k => (plen, k)) (first_kw ks suffix (skipn plen s))
               | None => None
               end
             else bullet_prefix ks s in
  match hit with
  | Some (plen, k) =>
    let rest := skipn (plen + length k + length suffix) s in
    Some (set_matched m t ty (Some (strip (dot_star rest))) (Some k) None (Some (l_indent l + plen)%nat) [])
  | None => None
  end.

(* the GFM separator pattern (optional colon, dashes, optional colon) on a cell text; the dollar also
   matches before a final line feed *)
Definition strip_final_lf (s : str) : str :=
  match rev s with c :: r => if c =? LF then rev r else s | [] => s end.
Definition is_gfm_sep_cell (s : str) : bool :=
  let s1 := strip_final_lf s in
  let s2 := match s1 with c :: r => if c =? COLON then r else s1 | [] => s1 end in
  let dashes := take_while (fun c => c =? MINUS) s2 in
  let s3 := skipn (length dashes) s2 in
  negb (Nat.eqb (length dashes) 0)
  && match s3 with [] => true | [c] => c =? COLON | _ => false end.

(* two to five whitespace characters then a pipe, on the whole physical line *)
Definition md_table_indent (text : str) : bool :=
  let n := count_while is_space text in
  (* the optional blanks are greedy but may give back: what matters is 2 <= n' <= 5 blanks then '|';
     the pipe is not a blank, so n' = n *)
  (2 <=? n)%nat && (n <=? 5)%nat && match skipn n text with c :: _ => c =? PIPE | [] => false end.

(* finditer over backtick, at-sign, one or more non-backticks, backtick:
   (start index of the opening backtick, text of group 1) *)
Fixpoint find_close (s : str) (acc : str) : option (str * str) :=   (* text up to the next backtick, rest after it *)
  match s with
  | [] => None
  | c :: r => if c =? BACKTICK then Some (rev acc, r) else find_close r (c :: acc)
  end.
Fixpoint md_tags_from (fuel : nat) (s : str) (pos : nat) : list (nat * str) :=
  match fuel with
  | O => []
  | S f =>
    match s with
    | [] => []
    | c :: r =>
      if c =? BACKTICK then
        match r with
        | d :: r' =>
          if d =? AT then
            match find_close r' [] with
            | Some (body, rest) =>
              match body with
              | [] => md_tags_from f r (S pos)              (* at least one character must follow the at-sign *)
              | _ => (pos, AT :: body) :: md_tags_from f rest (pos + length body + 3)%nat
              end
            | None => md_tags_from f r (S pos)
            end
          else md_tags_from f r (S pos)
        | [] => []
        end
      else md_tags_from f r (S pos)
    end
  end.

Inductive mdout :=
  | MdNo (t : token) (m : mdstate)             (* False; token and state as the method leaves them *)
  | MdYes (t : token) (m : mdstate).

Definition md_matcher (k : kind) (m : mdstate) (t : token) : option mdout :=
  match tk_line t with
  | None => None
  | Some l =>
    let ms := md_ms m in
    let d := ms_dialect ms in
    let title ks ty :=
      match md_title ms t l true ks [COLON] ty with
      | Some t' => MdYes t' m
      | None => MdNo t m
      end in
    match k with
    | KFeatureLine =>
      (* when matched_feature_line is set the token is first marked as matched with type None; every
         matched field is overwritten again below, so this leaves no trace *)
      let t0 := t in
      match md_title ms t0 l true (d_feature d) [COLON] KFeatureLine with
      | Some t' => Some (MdYes t' (mk_mdstate ms true))
      | None =>
        (* not a header: the line is still recorded as a FeatureLine with its text, and False is returned *)
        Some (MdNo (set_matched ms t0 KFeatureLine (Some (l_trimmed l)) None None None []) (mk_mdstate ms false))
      end
    | KRuleLine => Some (title (d_rule d) KRuleLine)
    | KScenarioLine =>
      Some (match md_title ms t l true (d_scenario d) [COLON] KScenarioLine with
            | Some t' => MdYes t' m
            | None => title (d_scenarioOutline d) KScenarioLine
            end)
    | KBackgroundLine => Some (title (d_background d) KBackgroundLine)
    | KExamplesLine => Some (title (d_examples d) KExamplesLine)
    | KStepLine =>
      Some (match md_title ms t l false (step_keywords d) [] KStepLine with
            | Some t' => MdYes t' m
            | None => MdNo t m
            end)
    | KTableRow =>
      Some (if md_table_indent (l_text l) then
              let cells := table_cells l in
              if existsb (fun c => is_gfm_sep_cell (snd c)) cells then MdNo t m
              else MdYes (set_matched ms t KTableRow None (Some [PIPE]) None None cells) m
            else MdNo t m)
    | KTagLine =>
      let s := l_trimmed l in
      let tags := map (fun p => ((l_indent l + fst p + 2)%nat, snd p)) (md_tags_from (S (length s)) s 0) in
      Some (match tags with
            | [] => MdNo t m
            | _ => MdYes (set_matched ms t KTagLine None None None None tags) m
            end)
    | _ => None
    end
  end.
