(* Generic model of the fixed (template) part of python/gherkin/parser.py:
   Parser.parse, read_token, add_error, handle_external_error, the match_K
   wrappers, build/start_rule/end_rule, the look-ahead skeleton and the shape of
   every generated match_token_at_N method, run over a transition table.

   Generic in the token type, the token matcher and the AST builder; it is
   instantiated with the real matcher/builder (Pipeline.v) and with the
   kind-level stub matcher (Stub.v).  No proofs in this file. *)
From Coq Require Import List Bool Arith.
Import ListNotations.
Require Import Kinds.

(* TokenMatcher.match_K: answer, the (mutated) token, the new matcher state;
   MRaise = a ParserException escaped from the matcher *)
Inductive mres (Tok MS Err : Type) :=
  | MR (ans : bool) (t : Tok) (m : MS)
  | MRaise (e : Err) (t : Tok) (m : MS).
Arguments MR {Tok MS Err}.
Arguments MRaise {Tok MS Err}.

(* AstBuilder.start_rule / end_rule / build *)
Inductive bres (BS Err : Type) := BOk (b : BS) | BRaise (e : Err) (b : BS) | BCrash.
Arguments BOk {BS Err}.
Arguments BRaise {BS Err}.
Arguments BCrash {BS Err}.

(* everything the interpreter is generic in *)
Record params (Tok MS BS Err : Type) := mk_params {
  is_eof : Tok -> bool;
  mk_eof : nat -> Tok;                         (* the scanner's EOF token for a line number *)
  matchf : kind -> MS -> Tok -> mres Tok MS Err;
  b_start : rule -> BS -> bres BS Err;
  b_end : rule -> BS -> bres BS Err;
  b_build : Tok -> BS -> bres BS Err;
  err_same_msg : Err -> Err -> bool;           (* str(error) equality, add_error's dedupe *)
  mk_unexpected : Tok -> list kind -> Err;     (* UnexpectedEOF/TokenException *)
  table : list st;
  lookaheads : list la;
  error_cap : nat;
  start_state : nat
}.
Arguments is_eof {Tok MS BS Err}.
Arguments mk_eof {Tok MS BS Err}.
Arguments matchf {Tok MS BS Err}.
Arguments b_start {Tok MS BS Err}.
Arguments b_end {Tok MS BS Err}.
Arguments b_build {Tok MS BS Err}.
Arguments err_same_msg {Tok MS BS Err}.
Arguments mk_unexpected {Tok MS BS Err}.
Arguments table {Tok MS BS Err}.
Arguments lookaheads {Tok MS BS Err}.
Arguments error_cap {Tok MS BS Err}.
Arguments start_state {Tok MS BS Err}.

Section Interp.
  Context {Tok MS BS Err : Type}.
  Variable P : params Tok MS BS Err.

  (* what the interpreter itself did, in order (ghost log; newest first) *)
  Inductive ev :=
    | EvS (r : rule) | EvE (r : rule)
    | EvB (t : Tok) (k : kind)                        (* token passed to build, matched as k *)
    | EvX (t : Tok) (s : nat).                        (* token reported unexpected in state s *)

  Record ctx := mkctx {
    queue : list Tok;          (* context.token_queue *)
    rest : list Tok;           (* lines the scanner has not produced yet *)
    lineno : nat;              (* scanner.line_number *)
    errs : list Err;           (* context.errors *)
    ms : MS;                   (* token matcher state *)
    bs : BS;                   (* builder state *)
    calls : nat;               (* number of TokenMatcher.match_* calls so far *)
    log : list ev              (* ghost *)
  }.

  Definition set_queue q c := mkctx q (rest c) (lineno c) (errs c) (ms c) (bs c) (calls c) (log c).
  Definition set_errs e c := mkctx (queue c) (rest c) (lineno c) e (ms c) (bs c) (calls c) (log c).
  Definition set_ms m c := mkctx (queue c) (rest c) (lineno c) (errs c) m (bs c) (calls c) (log c).
  Definition set_bs b c := mkctx (queue c) (rest c) (lineno c) (errs c) (ms c) b (calls c) (log c).
  Definition bump c := mkctx (queue c) (rest c) (lineno c) (errs c) (ms c) (bs c) (S (calls c)) (log c).
  Definition emit e c := mkctx (queue c) (rest c) (lineno c) (errs c) (ms c) (bs c) (calls c) (e :: log c).

  Inductive res (A : Type) :=
    | Ok (a : A) (c : ctx)
    | Raise1 (e : Err) (c : ctx)          (* a ParserException propagates (stop_at_first_error) *)
    | RaiseC (es : list Err) (c : ctx)    (* CompositeParserException *)
    | Crash (c : ctx)                     (* any other Python exception *)
    | OutOfFuel.
  Arguments Ok {A}. Arguments Raise1 {A}. Arguments RaiseC {A}. Arguments Crash {A}. Arguments OutOfFuel {A}.

  Definition bind {A B} (r : res A) (f : A -> ctx -> res B) : res B :=
    match r with
    | Ok a c => f a c
    | Raise1 e c => Raise1 e c
    | RaiseC es c => RaiseC es c
    | Crash c => Crash c
    | OutOfFuel => OutOfFuel
    end.

  (* Parser.read_token + TokenScanner.read *)
  Definition read (c : ctx) : Tok * ctx :=
    match queue c with
    | t :: q => (t, set_queue q c)
    | [] =>
      match rest c with
      | t :: r => (t, mkctx [] r (S (lineno c)) (errs c) (ms c) (bs c) (calls c) (log c))
      | [] => ((mk_eof P) (S (lineno c)), mkctx [] [] (S (lineno c)) (errs c) (ms c) (bs c) (calls c) (log c))
      end
    end.

  (* Parser.add_error *)
  Definition add_error (e : Err) (c : ctx) : res unit :=
    if existsb ((err_same_msg P) e) (errs c) then Ok tt c
    else let c' := set_errs (errs c ++ [e]) c in
         if (error_cap P) <? length (errs c') then RaiseC (errs c') c' else Ok tt c'.

  (* the generated wrapper Parser.match_K + handle_external_error *)
  Definition match_k (stop : bool) (k : kind) (t : Tok) (c : ctx) : res (bool * Tok) :=
    if negb (kind_beq k KEOF) && (is_eof P) t then Ok (false, t) c
    else
      let c := bump c in
      match (matchf P) k (ms c) t with
      | MR b t' m' => Ok (b, t') (set_ms m' c)
      | MRaise e t' m' =>
        let c' := set_ms m' c in
        if stop then Raise1 e c'
        else bind (add_error e c') (fun _ c'' => Ok (false, t') c'')
      end.

  (* `self.match_A(..) or self.match_B(..) or False` *)
  Fixpoint any_match (stop : bool) (ks : list kind) (t : Tok) (c : ctx) : res (bool * Tok) :=
    match ks with
    | [] => Ok (false, t) c
    | k :: ks' =>
      bind (match_k stop k t c) (fun r c' =>
        if fst r then Ok (true, snd r) c' else any_match stop ks' (snd r) c')
    end.

  (* body of lookahead_h: returns (match, tokens read) *)
  Fixpoint la_loop (fuel : nat) (stop : bool) (h : la) (c : ctx) (acc : list Tok)
    : res (bool * list Tok) :=
    match fuel with
    | 0 => OutOfFuel
    | S f =>
      let (t, c1) := read c in
      bind (any_match stop (la_expected h) t c1) (fun r c2 =>
        if fst r then Ok (true, acc ++ [snd r]) c2
        else bind (any_match stop (la_skip h) (snd r) c2) (fun r' c3 =>
          if fst r' then la_loop f stop h c3 (acc ++ [snd r'])
          else Ok (false, acc ++ [snd r']) c3))
    end.

  Definition find_la (h : nat) := find (fun x => Nat.eqb (la_id x) h) (lookaheads P).

  Definition lookahead (stop : bool) (h : nat) (c : ctx) : res bool :=
    match find_la h with
    | None => Crash c
    | Some x =>
      bind (la_loop (S (length (queue c) + length (rest c))) stop x c []) (fun r c1 =>
        Ok (fst r) (set_queue (queue c1 ++ snd r) c1))
    end.

  (* handle_ast_error around one builder call *)
  Definition b_call (stop : bool) (f : BS -> bres BS Err) (c : ctx) : res unit :=
    match f (bs c) with
    | BOk b' => Ok tt (set_bs b' c)
    | BRaise e b' => if stop then Raise1 e (set_bs b' c) else add_error e (set_bs b' c)
    | BCrash => Crash c
    end.

  Fixpoint exec (stop : bool) (t : Tok) (k : kind) (ps : list prod) (c : ctx) : res unit :=
    match ps with
    | [] => Ok tt c
    | p :: ps' =>
      bind (match p with
            | PS r => b_call stop ((b_start P) r) (emit (EvS r) c)
            | PE r => b_call stop ((b_end P) r) (emit (EvE r) c)
            | PB => b_call stop ((b_build P) t) (emit (EvB t k) c)
            end) (fun _ c' => exec stop t k ps' c')
    end.

  (* the `if self.match_K(...)` blocks of one state method, in order;
     None = no test fired (the context is returned all the same: a failed guard
     has already re-queued what it read) *)
  Fixpoint run_tests (stop : bool) (tests : list test) (t : Tok) (c : ctx)
    : res (option nat * Tok) :=
    match tests with
    | [] => Ok (None, t) c
    | x :: xs =>
      bind (match_k stop (t_kind x) t c) (fun r c1 =>
        let t1 := snd r in
        if fst r then
          match t_guard x with
          | None => bind (exec stop t1 (t_kind x) (t_prods x) c1) (fun _ c2 => Ok (Some (t_tgt x), t1) c2)
          | Some h =>
            bind (lookahead stop h c1) (fun b c2 =>
              if b then bind (exec stop t1 (t_kind x) (t_prods x) c2) (fun _ c3 => Ok (Some (t_tgt x), t1) c3)
              else run_tests stop xs t1 c2)
          end
        else run_tests stop xs t1 c1)
    end.

  Definition find_state (s : nat) := find (fun x => Nat.eqb (s_id x) s) (table P).

  (* Parser.match_token *)
  Definition match_token (stop : bool) (s : nat) (t : Tok) (c : ctx) : res nat :=
    match find_state s with
    | None => Crash c                                  (* RuntimeError("Unknown state") *)
    | Some x =>
      bind (run_tests stop (s_tests x) t c) (fun r c1 =>
        match fst r with
        | Some s' => Ok s' c1
        | None =>
          let e := (mk_unexpected P) (snd r) (s_expected x) in
          let c2 := emit (EvX (snd r) s) c1 in
          if stop then Raise1 e c2
          else bind (add_error e c2) (fun _ c3 => Ok (s_err x) c3)
        end)
    end.

  (* the `while True:` loop of Parser.parse *)
  Fixpoint loop (fuel : nat) (stop : bool) (s : nat) (c : ctx) : res nat :=
    match fuel with
    | 0 => OutOfFuel
    | S f =>
      let (t, c1) := read c in
      bind (match_token stop s t c1) (fun s' c2 =>
        if (is_eof P) t then Ok s' c2 else loop f stop s' c2)
    end.

  Definition init_ctx (toks : list Tok) (m : MS) (b : BS) : ctx :=
    mkctx [] toks 0 [] m b 0 [].

  (* Parser.parse after the resets; m and b are the reset matcher / builder *)
  Definition parse (stop : bool) (toks : list Tok) (m : MS) (b : BS) : res unit :=
    let c0 := init_ctx toks m b in
    bind (b_call stop ((b_start P) RGherkinDocument) (emit (EvS RGherkinDocument) c0)) (fun _ c1 =>
    bind (loop (S (S (length toks))) stop (start_state P) c1) (fun _ c2 =>
    bind (b_call stop ((b_end P) RGherkinDocument) (emit (EvE RGherkinDocument) c2)) (fun _ c3 =>
      match errs c3 with
      | [] => Ok tt c3
      | es => RaiseC es c3
      end))).

  Definition events (c : ctx) : list ev := rev (log c).
End Interp.

Arguments ctx : clear implicits.
Arguments res : clear implicits.
Arguments ev : clear implicits.
Arguments Ok {Tok MS BS Err A}.
Arguments Raise1 {Tok MS BS Err A}.
Arguments RaiseC {Tok MS BS Err A}.
Arguments Crash {Tok MS BS Err A}.
Arguments OutOfFuel {Tok MS BS Err A}.
Arguments EvS {Tok}.
Arguments EvE {Tok}.
Arguments EvB {Tok}.
Arguments EvX {Tok}.
