(* Model of python/gherkin/token_matcher.py (TokenMatcher), token.py and the
   parts of errors.py that build messages.  No proofs in this file. *)
From Coq Require Import String.
From Coq Require Import List Bool Arith NArith.
Import ListNotations.
Require Import Kinds PyStr Line.

Local Open Scope N_scope.

Inductive ktype := Unknown | Context | Action | Outcome | Conjunction.
Scheme Equality for ktype.

Record loc := mk_loc { loc_line : nat; loc_col : option nat }.

(* Token with the attributes _set_token_matched gives it *)
Record token := mk_token {
  tk_line : option gline;            (* None: the EOF token *)
  tk_loc : loc;
  m_type : option kind;
  m_text : option str;
  m_keyword : option str;
  m_ktype : option ktype;
  m_indent : nat;
  m_items : list (nat * str);
  m_dialect : str
}.

Definition raw_token (text : str) (n : nat) : token :=
  mk_token (Some (make_line text n)) (mk_loc n None) None None None None 0 [] [].
Definition eof_token (n : nat) : token :=
  mk_token None (mk_loc n None) None None None None 0 [] [].
Definition tok_is_eof (t : token) : bool := match tk_line t with None => true | Some _ => false end.

(* errors: every ParserException carries a location and a message *)
Inductive ekind := EUnexpectedToken | EUnexpectedEOF | ENoSuchLanguage | ETag | EAstBuilder.
Record perror := mk_perror { e_kind : ekind; e_loc : loc; e_msg : str }.   (* e_msg = str(error) *)

Definition loc_prefix (l : loc) : str :=
  s2l "(" ++ nat_to_str (loc_line l) ++ s2l ":"
  ++ nat_to_str (match loc_col l with Some c => c | None => 0%nat end) ++ s2l "): ".
Definition parser_exception (k : ekind) (message : str) (l : loc) : perror :=
  mk_perror k l (loc_prefix l ++ message).

Definition kind_str (k : kind) : str :=
  s2l match k with
      | KEOF => "#EOF" | KEmpty => "#Empty" | KComment => "#Comment" | KTagLine => "#TagLine"
      | KFeatureLine => "#FeatureLine" | KRuleLine => "#RuleLine"
      | KBackgroundLine => "#BackgroundLine" | KScenarioLine => "#ScenarioLine"
      | KExamplesLine => "#ExamplesLine" | KStepLine => "#StepLine"
      | KDocStringSeparator => "#DocStringSeparator" | KTableRow => "#TableRow"
      | KLanguage => "#Language" | KOther => "#Other"
      end.

(* Token.token_value() *)
Definition token_value (t : token) : str :=
  match tk_line t with None => s2l "EOF" | Some l => get_line_text l None end.

(* UnexpectedEOFException / UnexpectedTokenException *)
Definition unexpected (t : token) (expected : list kind) : perror :=
  let exp := join (s2l ", ") (map kind_str expected) in
  match tk_line t with
  | None => parser_exception EUnexpectedEOF (s2l "unexpected end of file, expected: " ++ exp) (tk_loc t)
  | Some l =>
    let message := s2l "expected: " ++ exp ++ s2l ", got '" ++ strip (token_value t) ++ s2l "'" in
    let location :=
      match loc_col (tk_loc t) with
      | Some (S _) => tk_loc t
      | _ => mk_loc (loc_line (tk_loc t)) (Some (l_indent l + 1)%nat)
      end in
    parser_exception EUnexpectedToken message location
  end.

Definition err_same_msg (a b : perror) : bool := str_eqb (e_msg a) (e_msg b).

(* ---- matcher state ---- *)
Record mstate := mk_mstate {
  ms_default : str;            (* _default_dialect_name *)
  ms_name : str;               (* dialect_name *)
  ms_dialect : dialect;        (* dialect (and keyword_types, a function of it) *)
  ms_sep : option str;         (* _active_doc_string_separator *)
  ms_indent : nat              (* _indent_to_remove *)
}.

Section WithDialects.
  Variable dialects : list dialect.

  Definition find_dialect (name : str) : option dialect :=
    find (fun d => str_eqb (d_code d) name) dialects.

  (* TokenMatcher(dialect_name); None = NoSuchLanguageException from the constructor *)
  Definition new_matcher (name : str) : option mstate :=
    match find_dialect name with
    | Some d => Some (mk_mstate name name d None 0)
    | None => None
    end.

  (* TokenMatcher.reset(); the default dialect exists because the constructor checked it *)
  Definition reset_matcher (m : mstate) : mstate :=
    if str_eqb (ms_name m) (ms_default m) then mk_mstate (ms_default m) (ms_name m) (ms_dialect m) None 0
    else match find_dialect (ms_default m) with
         | Some d => mk_mstate (ms_default m) (ms_default m) d None 0
         | None => mk_mstate (ms_default m) (ms_name m) (ms_dialect m) None 0   (* unreachable for wf states *)
         end.

  (* _set_token_matched *)
  Definition set_matched (m : mstate) (t : token) (ty : kind) (text : option str)
             (keyword : option str) (kt : option ktype) (indent : option nat)
             (items : list (nat * str)) : token :=
    let ind := match indent with
               | Some i => i
               | None => match tk_line t with Some l => l_indent l | None => 0%nat end
               end in
    mk_token (tk_line t) (mk_loc (loc_line (tk_loc t)) (Some (ind + 1)%nat))
             (Some ty) (option_map rstrip_crlf text) keyword kt ind items (ms_name m).

  Inductive mout :=
    | MNo                                  (* False, token untouched *)
    | MYes (t : token) (m : mstate)
    | MErr (e : perror) (t : token) (m : mstate).

  Fixpoint first_title_keyword (l : gline) (ks : list str) : option str :=
    match ks with
    | [] => None
    | k :: ks' => if startswith_title_keyword l k then Some k else first_title_keyword l ks'
    end.

  Definition match_title_line (m : mstate) (t : token) (l : gline) (ty : kind) (ks : list str) : mout :=
    match first_title_keyword l ks with
    | Some k =>
      let title := get_rest_trimmed l (length k + 1) in
      MYes (set_matched m t ty (Some title) (Some k) None None []) m
    | None => MNo
    end.

  Definition step_keywords (d : dialect) : list str :=
    d_given d ++ d_when d ++ d_then d ++ d_and d ++ d_but d.

  Definition count_in (k : str) (l : list str) : nat := length (filter (str_eqb k) l).
  (* keyword_types[keyword] *)
  Definition keyword_types (d : dialect) (k : str) : list ktype :=
    repeat Context (count_in k (d_given d)) ++ repeat Action (count_in k (d_when d))
    ++ repeat Outcome (count_in k (d_then d)) ++ repeat Conjunction (count_in k (d_and d ++ d_but d)).
  Definition keyword_type (d : dialect) (k : str) : ktype :=
    match keyword_types d k with [x] => x | _ => Unknown end.

  Fixpoint first_prefix (l : gline) (ks : list str) : option str :=
    match ks with
    | [] => None
    | k :: ks' => if line_startswith l k then Some k else first_prefix l ks'
    end.

  Definition DQ3 : str := s2l """""""".      (* three double quotes *)
  Definition BT3 : str := s2l "```".

  Definition match_docsep (m : mstate) (t : token) (l : gline) (sep : str) (is_open : bool) : mout :=
    if line_startswith l sep then
      if is_open then
        let ct := get_rest_trimmed l (length sep) in
        let m' := mk_mstate (ms_default m) (ms_name m) (ms_dialect m) (Some sep) (l_indent l) in
        MYes (set_matched m' t KDocStringSeparator (Some ct) (Some sep) None None []) m'
      else
        let m' := mk_mstate (ms_default m) (ms_name m) (ms_dialect m) None 0 in
        MYes (set_matched m' t KDocStringSeparator None (Some sep) None None []) m'
    else MNo.

  (* LANGUAGE_RE = ^\s*#\s*language\s*:\s*([a-zA-Z\-_]+)\s*$ applied with .match();
     `$` also matches before a final line feed *)
  Definition is_lang_char (c : N) : bool :=
    ((65 <=? c) && (c <=? 90)) || ((97 <=? c) && (c <=? 122)) || (c =? 45) || (c =? 95).
  Fixpoint take_while (p : N -> bool) (s : str) : str :=
    match s with [] => [] | c :: s' => if p c then c :: take_while p s' else [] end.
  (* after the name: \s*$  -- backtracking over \s* makes this: all the rest is
     whitespace (the optional final LF is itself whitespace) *)
  Definition language_header (s : str) : option str :=
    let s1 := drop_while is_space s in
    match s1 with
    | c :: s2 =>
      if c =? HASH then
        let s3 := drop_while is_space s2 in
        if starts_with (s2l "language") s3 then
          let s4 := drop_while is_space (skipn 8 s3) in
          match s4 with
          | c' :: s5 =>
            if c' =? COLON then
              let s6 := drop_while is_space s5 in
              let name := take_while is_lang_char s6 in
              match name with
              | [] => None
              | _ =>
                let s7 := skipn (length name) s6 in
                if forallb is_space s7 then Some name else None
              end
            else None
          | [] => None
          end
        else None
      else None
    | [] => None
    end.

  Definition unescape_docstring (m : mstate) (text : str) : str :=
    match ms_sep m with
    | Some sep =>
      if str_eqb sep DQ3 then replace_all (s2l "\""\""\""") DQ3 text
      else if str_eqb sep BT3 then replace_all (s2l "\`\`\`") BT3 text
      else text
    | None => text
    end.

  (* TokenMatcher.match_K(token); the generated Parser.match_K wrappers never pass
     an EOF token to a test other than match_EOF, but the functions are total *)
  Definition matcher (k : kind) (m : mstate) (t : token) : mout :=
    match k, tk_line t with
    | KEOF, None => MYes (set_matched m t KEOF None None None None []) m
    | KEOF, Some _ => MNo
    | _, None => MNo                       (* unreachable through the wrappers *)
    | KFeatureLine, Some l => match_title_line m t l KFeatureLine (d_feature (ms_dialect m))
    | KRuleLine, Some l => match_title_line m t l KRuleLine (d_rule (ms_dialect m))
    | KScenarioLine, Some l =>
      match match_title_line m t l KScenarioLine (d_scenario (ms_dialect m)) with
      | MNo => match_title_line m t l KScenarioLine (d_scenarioOutline (ms_dialect m))
      | r => r
      end
    | KBackgroundLine, Some l => match_title_line m t l KBackgroundLine (d_background (ms_dialect m))
    | KExamplesLine, Some l => match_title_line m t l KExamplesLine (d_examples (ms_dialect m))
    | KTableRow, Some l =>
      if line_startswith l [PIPE] then MYes (set_matched m t KTableRow None None None None (table_cells l)) m
      else MNo
    | KStepLine, Some l =>
      match first_prefix l (step_keywords (ms_dialect m)) with
      | Some k =>
        let title := get_rest_trimmed l (length k) in
        MYes (set_matched m t KStepLine (Some title) (Some k) (Some (keyword_type (ms_dialect m) k)) None []) m
      | None => MNo
      end
    | KComment, Some l =>
      if line_startswith l [HASH] then MYes (set_matched m t KComment (Some (l_text l)) None None (Some 0%nat) []) m
      else MNo
    | KEmpty, Some l =>
      if line_is_empty l then MYes (set_matched m t KEmpty None None None (Some 0%nat) []) m else MNo
    | KLanguage, Some l =>
      match language_header (get_line_text l None) with
      | None => MNo
      | Some name =>
        let t' := set_matched m t KLanguage (Some name) None None None [] in
        match find_dialect name with
        | Some d => MYes t' (mk_mstate (ms_default m) name d (ms_sep m) (ms_indent m))
        | None => MErr (parser_exception ENoSuchLanguage (s2l "Language not supported: " ++ name) (tk_loc t')) t' m
        end
      end
    | KTagLine, Some l =>
      if line_startswith l [AT] then
        match line_tags l with
        | TagsOk items => MYes (set_matched m t KTagLine None None None None items) m
        | TagsErr c => MErr (parser_exception ETag (s2l "A tag may not contain whitespace")
                                              (mk_loc (l_no l) (Some c))) t m
        end
      else MNo
    | KDocStringSeparator, Some l =>
      match ms_sep m with
      | None =>
        match match_docsep m t l DQ3 true with
        | MNo => match_docsep m t l BT3 true
        | r => r
        end
      | Some sep => match_docsep m t l sep false
      end
    | KOther, Some l =>
      let text := get_line_text l (Some (ms_indent m)) in
      MYes (set_matched m t KOther (Some (unescape_docstring m text)) None None (Some 0%nat) []) m
    end.
End WithDialects.
