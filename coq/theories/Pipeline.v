(* The real instance of the generic interpreter: Parser.parse over source text
   with the real TokenMatcher and AstBuilder models.  No proofs in this file. *)
From Coq Require Import List Bool Arith NArith.
Import ListNotations.
Require Import Kinds PyStr Line Matcher Ast Builder Automaton Table Dialects.

Definition p_matchf (k : kind) (m : mstate) (t : token) : mres token mstate perror :=
  match matcher dialects k m t with
  | MNo => MR false t m
  | MYes t' m' => MR true t' m'
  | MErr e t' m' => MRaise e t' m'
  end.

Definition lift_bout (o : bout) : bres bstate perror :=
  match o with
  | BoOk b => BOk b
  | BoRaise e b => BRaise e b
  | BoCrash => BCrash
  end.
Definition p_bstart (r : rule) (b : bstate) := lift_bout (builder_start r b).
Definition p_bend (r : rule) (b : bstate) := lift_bout (builder_end r b).
Definition p_bbuild (t : token) (b : bstate) := lift_bout (builder_build t b).

(* TokenScanner over a string: one token per readline() piece, numbered from 1 *)
Fixpoint number_lines (ls : list str) (n : nat) : list token :=
  match ls with
  | [] => []
  | l :: r => raw_token l n :: number_lines r (S n)
  end.
Definition scan (src : str) : list token := number_lines (py_lines src) 1.

Definition pctx := ctx token mstate bstate perror.
Definition pres := res token mstate bstate perror.

Definition pipeline_params (tbl : list st) : params token mstate bstate perror :=
  mk_params token mstate bstate perror tok_is_eof eof_token p_matchf p_bstart p_bend p_bbuild
            Matcher.err_same_msg unexpected tbl Table.lookaheads Table.error_cap Table.start_state.

Definition parse_tokens_with (tbl : list st) (stop : bool) (toks : list token) (m : mstate) (b : bstate) : pres unit :=
  parse (pipeline_params tbl) stop toks (reset_matcher dialects m) (reset_builder b).

Definition parse_tokens := parse_tokens_with Table.table.

(* what the caller of Parser.parse observes, plus the state left behind in the
   matcher and builder objects and the number of TokenMatcher.match_* calls *)
Inductive presult :=
  | POk (d : document) (m : mstate) (b : bstate) (calls : nat)
  | PErrs (es : list perror) (m : mstate) (b : bstate) (calls : nat)   (* CompositeParserException *)
  | PErr1 (e : perror) (m : mstate) (b : bstate) (calls : nat)         (* a ParserException (stop mode) *)
  | PCrash
  | POutOfFuel.

Definition parse_source (stop : bool) (m : mstate) (b : bstate) (src : str) : presult :=
  match parse_tokens stop (scan src) m b with
  | Ok _ c =>
    match builder_result (bs c) with
    | Some d => POk d (ms c) (bs c) (calls c)
    | None => PCrash
    end
  | Raise1 e c => PErr1 e (ms c) (bs c) (calls c)
  | RaiseC es c => PErrs es (ms c) (bs c) (calls c)
  | Crash _ => PCrash
  | OutOfFuel => POutOfFuel
  end.

(* tokens handed to the builder's build(), in order (TokenFormatterBuilder sees these) *)
Definition built_tokens (c : pctx) : list token :=
  flat_map (fun e => match e with EvB t _ => [t] | _ => [] end) (events c).

(* Parser(TokenFormatterBuilder()): a builder that only records tokens and never raises *)
Definition f_bstart (r : rule) (b : unit) : bres unit perror := BOk b.
Definition f_bbuild (t : token) (b : unit) : bres unit perror := BOk b.
Definition fmt_params : params token mstate unit perror :=
  mk_params token mstate unit perror tok_is_eof eof_token p_matchf f_bstart f_bstart f_bbuild
            Matcher.err_same_msg unexpected Table.table Table.lookaheads Table.error_cap Table.start_state.
Definition parse_tokens_fmt (stop : bool) (toks : list token) (m : mstate) : res token mstate unit perror unit :=
  parse fmt_params stop toks (reset_matcher dialects m) tt.
