(* Entry points of the executable model for the correspondence check: one
   function from a name and JSON arguments to a JSON result, so that the
   extracted program and the in-Coq evaluation run the same definitions.
   Decoders from JSON are unverified glue. *)
From Coq Require Import String.
From Coq Require Import List Bool Arith NArith.
Import ListNotations.
Require Import Kinds PyStr Line Matcher Ast Builder Compiler Automaton Pipeline Stream TokenFormatter Json
               Stub Table Dialects Regex RefSem MatcherMd.

Definition jget (k : string) (j : json) : option json :=
  match j with
  | JObj l => option_map snd (find (fun kv => str_eqb (fst kv) (s2l k)) l)
  | _ => None
  end.
Definition obind {A B} (o : option A) (f : A -> option B) : option B :=
  match o with Some a => f a | None => None end.
Notation "x <- e ;; k" := (obind e (fun x => k)) (at level 60, e at next level, right associativity).

Definition d_str (j : json) : option str := match j with JStr s => Some s | _ => None end.
Definition d_num (j : json) : option nat := match j with JNum n => Some n | _ => None end.
Definition d_bool (j : json) : option bool := match j with JBool b => Some b | _ => None end.
Definition d_arr {A} (f : json -> option A) (j : json) : option (list A) :=
  match j with JArr l => map_opt f l | _ => None end.
(* ids travel as decimal strings *)
Fixpoint digits_to_nat (s : str) (acc : nat) : option nat :=
  match s with
  | [] => Some acc
  | c :: r => if ((48 <=? c) && (c <=? 57))%N then digits_to_nat r (acc * 10 + N.to_nat (c - 48)) else None
  end.
Definition d_id (j : json) : option nat :=
  match j with JStr (c :: s) => digits_to_nat (c :: s) 0 | _ => None end.
Definition d_opt {A} (f : json -> option A) (o : option json) : option (option A) :=
  match o with None => Some None | Some j => option_map Some (f j) end.

Definition d_loc (j : json) : option loc :=
  l <- obind (jget "line" j) d_num ;;
  c <- d_opt d_num (jget "column" j) ;;
  Some (mk_loc l c).
Definition d_tag (j : json) : option tag :=
  i <- obind (jget "id" j) d_id ;; l <- obind (jget "location" j) d_loc ;;
  n <- obind (jget "name" j) d_str ;; Some (mk_tag i l n).
Definition d_cell (j : json) : option cell :=
  l <- obind (jget "location" j) d_loc ;; v <- obind (jget "value" j) d_str ;; Some (mk_cell l v).
Definition d_row (j : json) : option row :=
  i <- obind (jget "id" j) d_id ;; l <- obind (jget "location" j) d_loc ;;
  cs <- obind (jget "cells" j) (d_arr d_cell) ;; Some (mk_row i l cs).
Definition d_ktype (j : json) : option ktype :=
  s <- d_str j ;;
  if str_eqb s (s2l "Unknown") then Some Unknown else if str_eqb s (s2l "Context") then Some Context
  else if str_eqb s (s2l "Action") then Some Action else if str_eqb s (s2l "Outcome") then Some Outcome
  else if str_eqb s (s2l "Conjunction") then Some Conjunction else None.
Definition d_docstring (j : json) : option docstring :=
  l <- obind (jget "location" j) d_loc ;; c <- obind (jget "content" j) d_str ;;
  d <- obind (jget "delimiter" j) d_str ;; m <- d_opt d_str (jget "mediaType" j) ;;
  Some (mk_docstring l c d m).
Definition d_step (j : json) : option step :=
  i <- obind (jget "id" j) d_id ;; l <- obind (jget "location" j) d_loc ;;
  k <- obind (jget "keyword" j) d_str ;; kt <- obind (jget "keywordType" j) d_ktype ;;
  t <- obind (jget "text" j) d_str ;;
  a <- match jget "dataTable" j, jget "docString" j with
       | Some dt, _ => tl_ <- obind (jget "location" dt) d_loc ;;
                       rs <- obind (jget "rows" dt) (d_arr d_row) ;; Some (ArgTable tl_ rs)
       | None, Some ds => option_map ArgDoc (d_docstring ds)
       | None, None => Some ArgNone
       end ;;
  Some (mk_step i l k kt t a).
Definition d_background (j : json) : option background :=
  i <- obind (jget "id" j) d_id ;; l <- obind (jget "location" j) d_loc ;;
  k <- obind (jget "keyword" j) d_str ;; n <- obind (jget "name" j) d_str ;;
  d <- obind (jget "description" j) d_str ;; ss <- obind (jget "steps" j) (d_arr d_step) ;;
  Some (mk_background i l k n d ss).
Definition d_examples (j : json) : option examples :=
  i <- obind (jget "id" j) d_id ;; ts <- obind (jget "tags" j) (d_arr d_tag) ;;
  l <- obind (jget "location" j) d_loc ;; k <- obind (jget "keyword" j) d_str ;;
  n <- obind (jget "name" j) d_str ;; d <- obind (jget "description" j) d_str ;;
  h <- d_opt d_row (jget "tableHeader" j) ;; b <- obind (jget "tableBody" j) (d_arr d_row) ;;
  Some (mk_examples i ts l k n d h b).
Definition d_scenario (j : json) : option scenario :=
  i <- obind (jget "id" j) d_id ;; ts <- obind (jget "tags" j) (d_arr d_tag) ;;
  l <- obind (jget "location" j) d_loc ;; k <- obind (jget "keyword" j) d_str ;;
  n <- obind (jget "name" j) d_str ;; d <- obind (jget "description" j) d_str ;;
  ss <- obind (jget "steps" j) (d_arr d_step) ;; es <- obind (jget "examples" j) (d_arr d_examples) ;;
  Some (mk_scenario i ts l k n d ss es).
Definition d_rchild (j : json) : option rchild :=
  match jget "background" j, jget "scenario" j with
  | Some b, _ => option_map RCBackground (d_background b)
  | None, Some s => option_map RCScenario (d_scenario s)
  | None, None => None
  end.
Definition d_rule (j : json) : option grule :=
  i <- obind (jget "id" j) d_id ;; ts <- obind (jget "tags" j) (d_arr d_tag) ;;
  l <- obind (jget "location" j) d_loc ;; k <- obind (jget "keyword" j) d_str ;;
  n <- obind (jget "name" j) d_str ;; d <- obind (jget "description" j) d_str ;;
  cs <- obind (jget "children" j) (d_arr d_rchild) ;; Some (mk_grule i ts l k n d cs).
Definition d_fchild (j : json) : option fchild :=
  match jget "background" j, jget "rule" j, jget "scenario" j with
  | Some b, _, _ => option_map FCBackground (d_background b)
  | None, Some r, _ => option_map FCRule (d_rule r)
  | None, None, Some s => option_map FCScenario (d_scenario s)
  | None, None, None => None
  end.
Definition d_feature (j : json) : option feature :=
  ts <- obind (jget "tags" j) (d_arr d_tag) ;; l <- obind (jget "location" j) d_loc ;;
  lg <- obind (jget "language" j) d_str ;; k <- obind (jget "keyword" j) d_str ;;
  n <- obind (jget "name" j) d_str ;; d <- obind (jget "description" j) d_str ;;
  cs <- obind (jget "children" j) (d_arr d_fchild) ;; Some (mk_feature ts l lg k n d cs).
Definition d_document (j : json) : option document :=
  f <- d_opt d_feature (jget "feature" j) ;; Some (mk_document f []).

Definition d_kind (j : json) : option kind :=
  s <- d_str j ;; find (fun k => str_eqb (kind_name_str k) s) all_kinds.

Definition j_err (msg : string) : json := JObj [jk "model_error" (JStr (s2l msg))].

Definition d_mstate (j : json) : option mstate :=
  df <- obind (jget "default" j) d_str ;; nm <- obind (jget "dialect" j) d_str ;;
  d <- find_dialect dialects nm ;;
  sep <- match jget "separator" j with Some JNull | None => Some None | Some x => option_map Some (d_str x) end ;;
  ind <- obind (jget "indent" j) d_num ;;
  Some (mk_mstate df nm d sep ind).

(* a history of parses through one matcher and one builder (C15): each element is (stop, source) *)
Fixpoint parse_history (m : mstate) (b : bstate) (srcs : list (bool * str)) : list json :=
  match srcs with
  | [] => []
  | (stop, s) :: r =>
    let res := parse_source stop m b s in
    j_presult res ::
    match res with
    | POk _ m' b' _ | PErrs _ m' b' _ | PErr1 _ m' b' _ => parse_history m' b' r
    | _ => []
    end
  end.

Definition j_sev (e : sev) : json :=
  match e with
  | EvS r => JArr [JStr (s2l "S"); JNum (match find (fun p => rule_beq (snd p) r) (combine (seq 0 16) all_rules) with Some p => fst p | None => 99 end)]
  | EvE r => JArr [JStr (s2l "E"); JNum (match find (fun p => rule_beq (snd p) r) (combine (seq 0 16) all_rules) with Some p => fst p | None => 99 end)]
  | EvB t k => JArr [JStr (s2l "B"); JNum (snd t); JStr (kind_name_str k)]
  | EvX t s => JArr [JStr (s2l "X"); JNum (snd t); JNum s]
  end.

Definition j_stub_ctx (c : sctx) : list (str * json) :=
  [jk "events" (JArr (map j_sev (events c)));
   jk "queue" (JArr (map (fun t => JNum (snd t)) (queue c)));
   jk "lineno" (JNum (lineno c));
   jk "nerrs" (JNum (length (errs c)));
   jk "errors" (JArr (map (fun e => JArr [JNum (snd (fst e)); JArr (map (fun k => JStr (kind_name_str k)) (snd e))]) (errs c)));
   jk "calls" (JNum (calls c))].

Definition j_stub_res {A} (f : A -> json) (r : sres A) : json :=
  match r with
  | Ok a c => JObj (jk "ok" (f a) :: j_stub_ctx c)
  | Raise1 e c => JObj (jk "raise1" (JNum (snd (fst e))) :: j_stub_ctx c)
  | RaiseC es c => JObj (jk "raisec" (JNum (length es)) :: j_stub_ctx c)
  | Crash c => JObj (jk "crash" JNull :: j_stub_ctx c)
  | OutOfFuel => JObj [jk "outoffuel" JNull]
  end.

Definition dispatch (fname : str) (args : list json) : json :=
  if str_eqb fname (s2l "parse") then
    match args with
    | [JBool stop; JStr dn; JStr src] =>
      match new_matcher dialects dn with
      | Some m => j_presult (parse_source stop m (new_builder 0) src)
      | None => JObj [jk "nosuchlanguage" JNull]
      end
    | _ => j_err "parse: arguments"
    end
  else if str_eqb fname (s2l "parse_history") then
    match args with
    | [JStr dn; JArr hs] =>
      match new_matcher dialects dn,
            map_opt (fun h => match h with JArr [JBool s; JStr x] => Some (s, x) | _ => None end) hs with
      | Some m, Some l => JArr (parse_history m (new_builder 0) l)
      | _, _ => j_err "parse_history: arguments"
      end
    | _ => j_err "parse_history: arguments"
    end
  else if str_eqb fname (s2l "compile") then
    match args with
    | [JStr uri; doc; JNum idc] =>
      match d_document doc with
      | Some d =>
        match compile uri d idc with
        | Some (ps, i) => JObj [jk "pickles" (JArr (map j_pickle ps)); jk "idc" (JNum i)]
        | None => JObj [jk "crash" JNull]
        end
      | None => j_err "compile: document does not decode"
      end
    | _ => j_err "compile: arguments"
    end
  else if str_eqb fname (s2l "events") then
    match args with
    | [JBool a; JBool b; JBool c; JBool st; JArr srcs] =>
      match map_opt (fun h => match h with JArr [JStr u; JStr d] => Some (u, d) | _ => None end) srcs with
      | Some l =>
        match enum_sources (mk_options a b c st) 0 l with
        | Some (es, i) => JObj [jk "envelopes" (JArr (map j_envelope es)); jk "idc" (JNum i)]
        | None => JObj [jk "crash" JNull]
        end
      | None => j_err "events: arguments"
      end
    | _ => j_err "events: arguments"
    end
  else if str_eqb fname (s2l "tokens") then
    match args with
    | [JStr dn; JStr src] =>
      match new_matcher dialects dn with
      | Some m =>
        match parse_tokens_fmt false (scan src) m with
        | Ok _ c => JObj [jk "ok" (JStr (format_tokens (flat_map (fun e => match e with EvB t _ => [t] | _ => [] end) (events c))))]
        | RaiseC es _ => JObj [jk "errors" (JArr (map j_error es))]
        | Raise1 e _ => JObj [jk "error" (j_error e)]
        | Crash _ => JObj [jk "crash" JNull]
        | OutOfFuel => JObj [jk "outoffuel" JNull]
        end
      | None => JObj [jk "nosuchlanguage" JNull]
      end
    | _ => j_err "tokens: arguments"
    end
  else if str_eqb fname (s2l "table_cells") then
    match args with
    | [JStr line] => j_items (table_cells (make_line line 1))
    | _ => j_err "table_cells: arguments"
    end
  else if str_eqb fname (s2l "tags") then
    match args with
    | [JStr line] =>
      match line_tags (make_line line 1) with
      | TagsOk its => JObj [jk "ok" (j_items its)]
      | TagsErr c => JObj [jk "error" (JNum c)]
      end
    | _ => j_err "tags: arguments"
    end
  else if str_eqb fname (s2l "match") then
    match args with
    | [k; ms; JStr line; JNum n] =>
      match d_kind k, d_mstate ms with
      | Some k, Some m =>
        let t := match line with [] => eof_token n | _ => raw_token line n end in
        match matcher dialects k m t with
        | MNo => JObj [jk "ans" (JBool false)]
        | MYes t' m' => JObj [jk "ans" (JBool true); jk "token" (j_token t'); jk "matcher" (j_mstate m')]
        | MErr e t' m' => JObj [jk "raise" (j_error e); jk "token" (j_token t'); jk "matcher" (j_mstate m')]
        end
      | _, _ => j_err "match: kind or matcher state does not decode"
      end
    | _ => j_err "match: arguments"
    end
  else if str_eqb fname (s2l "interpolate") then
    match args with
    | [JStr name; JArr hs; JArr vs] =>
      match map_opt d_str hs, map_opt d_str vs with
      | Some h, Some v =>
        let mk := map (fun s => mk_cell (mk_loc 0 None) s) in
        match interpolate name (mk h) (mk v) with
        | Some s => JObj [jk "ok" (JStr s)]
        | None => JObj [jk "crash" JNull]
        end
      | _, _ => j_err "interpolate: arguments"
      end
    | _ => j_err "interpolate: arguments"
    end
  else if str_eqb fname (s2l "stub_run") then
    match args with
    | [JBool stop; JArr ks] =>
      match map_opt d_kind ks with
      | Some w => j_stub_res (fun _ => JNull) (run stop w)
      | None => j_err "stub_run: kinds"
      end
    | _ => j_err "stub_run: arguments"
    end
  else if str_eqb fname (s2l "stub_match_token") then
    (* Parser.match_token(state, token, context) on the stub: the token is line 1,
       the scanner still holds `rest` (lines 2..), the queue is empty *)
    match args with
    | [JBool stop; JNum s; k; JArr ks] =>
      match d_kind k, map_opt d_kind ks with
      | Some k, Some w =>
        let c0 : sctx := mkctx [] (combine w (seq 2 (length w))) 1 [] tt tt 0 [] in
        j_stub_res JNum (match_token (stub_params Table.table) stop s (k, 1) c0)
      | _, _ => j_err "stub_match_token: kinds"
      end
    | _ => j_err "stub_match_token: arguments"
    end
  else if str_eqb fname (s2l "match_md") then
    (* GherkinInMarkdownTokenMatcher.match_K on one line *)
    match args with
    | [k; ms; JBool seen; JStr line; JNum n] =>
      match d_kind k, d_mstate ms with
      | Some k, Some m =>
        match md_matcher k (mk_mdstate m seen) (raw_token line n) with
        | Some (MdNo t' m') => JObj [jk "ans" (JBool false); jk "token" (j_token t'); jk "seen" (JBool (md_feature_seen m'))]
        | Some (MdYes t' m') => JObj [jk "ans" (JBool true); jk "token" (j_token t'); jk "seen" (JBool (md_feature_seen m'))]
        | None => j_err "match_md: kind not modelled"
        end
      | _, _ => j_err "match_md: kind or matcher state does not decode"
      end
    | _ => j_err "match_md: arguments"
    end
  else if str_eqb fname (s2l "ref_accepts") then
    (* the reference semantics of the grammar (RefSem.v) on a kind sequence without EOF *)
    match args with
    | [JArr ks] =>
      match map_opt d_kind ks with
      | Some w => JBool (accepts_ref w)
      | None => j_err "ref_accepts: kinds"
      end
    | _ => j_err "ref_accepts: arguments"
    end
  else if str_eqb fname (s2l "valid_events") then
    (* builder events [["S", rule]|["E", rule]|["B", _, kind]] form a derivation of the grammar *)
    match args with
    | [JArr es] =>
      match map_opt (fun e => match e with
                              | JArr [JStr t; JNum r] =>
                                match nth_error all_rules r with
                                | Some x => if str_eqb t (s2l "S") then Some (AS x) else if str_eqb t (s2l "E") then Some (AE x) else None
                                | None => None
                                end
                              | JArr [JStr t; _; k] => if str_eqb t (s2l "B") then option_map AB (d_kind k) else None
                              | _ => None
                              end) es with
      | Some l => JBool (valid_events l)
      | None => j_err "valid_events: events"
      end
    | _ => j_err "valid_events: arguments"
    end
  else j_err "unknown function".
