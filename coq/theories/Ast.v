(* Typed shape of the dictionaries AstBuilder produces (parser_types.py) and of
   the pickles Compiler produces (pickles/compiler.py TypedDicts). *)
From Coq Require Import List NArith.
Import ListNotations.
Require Import PyStr Matcher.

Record tag := mk_tag { tg_id : nat; tg_loc : loc; tg_name : str }.
Record cell := mk_cell { c_loc : loc; c_value : str }.
Record row := mk_row { r_id : nat; r_loc : loc; r_cells : list cell }.
Record docstring := mk_docstring {
  ds_loc : loc; ds_content : str; ds_delim : str; ds_media : option str }.
Inductive steparg :=
  | ArgNone
  | ArgTable (l : loc) (rows : list row)
  | ArgDoc (d : docstring).
Record step := mk_step {
  st_id : nat; st_loc : loc; st_keyword : str; st_ktype : ktype;
  st_text : str; st_arg : steparg }.
Record background := mk_background {
  bg_id : nat; bg_loc : loc; bg_keyword : str; bg_name : str;
  bg_desc : str; bg_steps : list step }.
Record examples := mk_examples {
  ex_id : nat; ex_tags : list tag; ex_loc : loc; ex_keyword : str; ex_name : str;
  ex_desc : str; ex_header : option row; ex_body : list row }.
Record scenario := mk_scenario {
  sc_id : nat; sc_tags : list tag; sc_loc : loc; sc_keyword : str; sc_name : str;
  sc_desc : str; sc_steps : list step; sc_examples : list examples }.
Inductive rchild := RCBackground (b : background) | RCScenario (s : scenario).
Record grule := mk_grule {
  ru_id : nat; ru_tags : list tag; ru_loc : loc; ru_keyword : str; ru_name : str;
  ru_desc : str; ru_children : list rchild }.
Inductive fchild := FCBackground (b : background) | FCScenario (s : scenario) | FCRule (r : grule).
Record feature := mk_feature {
  f_tags : list tag; f_loc : loc; f_language : str; f_keyword : str; f_name : str;
  f_desc : str; f_children : list fchild }.
Record comment := mk_comment { cm_loc : loc; cm_text : str }.
Record document := mk_document { doc_feature : option feature; doc_comments : list comment }.

(* pickles *)
Inductive ptype := PUnknown | PContext | PAction | POutcome.
Record ptag := mk_ptag { pt_node : nat; pt_name : str }.
Inductive parg :=
  | PArgNone
  | PArgTable (rows : list (list str))
  | PArgDoc (content : str) (media : option str).
Record pstep := mk_pstep {
  ps_nodes : list nat; ps_id : nat; ps_type : ptype; ps_text : str; ps_arg : parg }.
Record pickle := mk_pickle {
  p_nodes : list nat; p_id : nat; p_tags : list ptag; p_name : str; p_language : str;
  p_steps : list pstep; p_uri : str }.
