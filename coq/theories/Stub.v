(* Kind-level instance of the generic interpreter: a token is a line kind with
   its line number; kind k answers yes to test k, every non-EOF kind also to
   #Other, #Language also to #Comment (a language header is a comment wherever
   a header is not expected).  Matcher and builder never raise. *)
From Coq Require Import List Bool Arith.
Import ListNotations.
Require Import Kinds Automaton Table.

Definition tok := (kind * nat)%type.
Definition answers (test : kind) (t : tok) : bool :=
  kind_beq (fst t) test
  || (kind_beq test KOther && negb (kind_beq (fst t) KEOF))
  || (kind_beq (fst t) KLanguage && kind_beq test KComment).

Definition serr := (tok * list kind)%type.
Definition s_is_eof (t : tok) : bool := kind_beq (fst t) KEOF.
Definition s_mk_eof (n : nat) : tok := (KEOF, n).
Definition s_matchf (k : kind) (m : unit) (t : tok) : mres tok unit serr := MR (answers k t) t m.
Definition s_bstart (r : rule) (b : unit) : bres unit serr := BOk b.
Definition s_bbuild (t : tok) (b : unit) : bres unit serr := BOk b.
Definition s_same (a b : serr) : bool :=
  kind_beq (fst (fst a)) (fst (fst b)) && Nat.eqb (snd (fst a)) (snd (fst b))
  && list_beq kind_beq (snd a) (snd b).
Definition s_unexpected (t : tok) (exp : list kind) : serr := (t, exp).

Definition number (w : list kind) : list tok := combine w (seq 1 (length w)).

Definition sres := res tok unit unit serr.
Definition sctx := ctx tok unit unit serr.

Definition stub_params (tbl : list st) : params tok unit unit serr :=
  mk_params tok unit unit serr s_is_eof s_mk_eof s_matchf s_bstart s_bstart s_bbuild
            s_same s_unexpected tbl Table.lookaheads Table.error_cap Table.start_state.

Definition run_on (tbl : list st) (stop : bool) (w : list kind) : sres unit :=
  parse (stub_params tbl) stop (number w) tt tt.

Definition run := run_on Table.table.

Definition accepts (w : list kind) : bool :=
  match run false w with Ok _ _ => true | _ => false end.

Definition sev := ev tok.
Definition run_events (stop : bool) (w : list kind) : option (list sev) :=
  match run stop w with
  | Ok _ c | Raise1 _ c | RaiseC _ c | Crash c => Some (events c)
  | OutOfFuel => None
  end.

(* tokens handed to build or reported unexpected, oldest first *)
Definition delivered_of (es : list sev) : list tok :=
  flat_map (fun e => match e with EvB t _ => [t] | EvX t _ => [t] | _ => [] end) es.
