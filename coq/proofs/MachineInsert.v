(* Inserting tokens that every look-ahead skips and that a state handles by staying where it is, leaving the matcher
   state alone and the builder state in the same class: the queue-free machine of Machine.v reaches related outcomes
   with and without them.  The pending tokens of the two runs are related position by position (by a relation the
   matcher, the builder and the error constructor respect -- for the application: "equal up to line numbers") once
   the flagged tokens of the first list are left out.  Generic; used for blank lines (C16). *)
From Coq Require Import List Bool Arith Lia.
Import ListNotations.
Require Import Kinds Automaton Machine MachineEq.

Section Insert.
  Context {Tok MS BS Err : Type}.
  Variable P : params Tok MS BS Err.
  Notation mr := (@Machine.mr MS Err).
  Notation mo := (@Machine.mo MS BS Err).

  Variable TRn : Tok -> Tok -> Prop.
  Variable BRl : BS -> BS -> Prop.
  Variable ERn : Err -> Err -> Prop.
  Variable bl : Tok -> Prop.            (* an inserted token *)
  Variable neutral : nat -> Prop.       (* a state that handles an inserted token by staying put *)

  Hypothesis H_eof : forall t t', TRn t t' -> is_eof P t = is_eof P t'.
  Hypothesis H_match : forall k m t t', TRn t t' ->
    match matchf P k m t, matchf P k m t' with
    | MR b t1 m1, MR b' t1' m1' => b = b' /\ TRn t1 t1' /\ m1 = m1'
    | MRaise e t1 m1, MRaise e' t1' m1' => ERn e e' /\ m1 = m1'
    | _, _ => False
    end.
  Definition bres_rel (o o' : bres BS Err) : Prop :=
    match o, o' with
    | BOk b, BOk b' => BRl b b'
    | BRaise e b, BRaise e' b' => ERn e e' /\ BRl b b'
    | BCrash, BCrash => True
    | _, _ => False
    end.
  Hypothesis H_start : forall r b b', BRl b b' -> bres_rel (b_start P r b) (b_start P r b').
  Hypothesis H_end : forall r b b', BRl b b' -> bres_rel (b_end P r b) (b_end P r b').
  Hypothesis H_build : forall t t' b b', TRn t t' -> BRl b b' -> bres_rel (b_build P t b) (b_build P t' b').
  Hypothesis H_unexp : forall t t' exp, TRn t t' -> ERn (mk_unexpected P t exp) (mk_unexpected P t' exp).

  (* an inserted token: not the end of file; every look-ahead skips it without touching the matcher state;
     a neutral state consumes it, stays where it is, keeps the matcher state and the class of the builder state *)
  (* an invariant of the matcher state *)
  Variable MQ : MS -> Prop.
  Hypothesis MQ_match : forall k m t, MQ m -> MQ (match matchf P k m t with MR _ _ m' | MRaise _ _ m' => m' end).
  Hypothesis B_noeof : forall z, bl z -> is_eof P z = false.
  Hypothesis B_la : forall h m z, In h (lookaheads P) -> bl z -> MQ m ->
    m_any P (la_expected h) z m = MrOk (false, z, m) /\ exists z', m_any P (la_skip h) z m = MrOk (true, z', m) /\ bl z'.
  (* an invariant of the builder state of the first run (for the application: its stack is not empty) *)
  Variable BI : BS -> Prop.
  Hypothesis BI_start : forall r b b1, BI b -> b_start P r b = BOk b1 -> BI b1.
  Hypothesis BI_end : forall r b b1, BI b -> b_end P r b = BOk b1 -> BI b1.
  Hypothesis BI_build : forall t b b1, BI b -> b_build P t b = BOk b1 -> BI b1.
  Hypothesis B_step : forall s z m b b' ups, neutral s -> bl z -> MQ m -> BI b -> BRl b b' ->
    exists b1, m_step P s z m b ups = MoOk (s, ups) m b1 /\ BRl b1 b'.

  (* ---- pending lists: the first with flags, the flagged tokens are the inserted ones ---- *)
  Fixpoint del (fl : list bool) (ups : list Tok) : list Tok :=
    match fl, ups with
    | f :: fl', t :: r => if f then del fl' r else t :: del fl' r
    | _, _ => []
    end.
  Fixpoint flagged_bl (fl : list bool) (ups : list Tok) : Prop :=
    match fl, ups with
    | f :: fl', t :: r => (f = true -> bl t) /\ flagged_bl fl' r
    | _, _ => True
    end.
  Definition aligned (fl : list bool) (ups ups' : list Tok) : Prop :=
    length fl = length ups /\ flagged_bl fl ups /\ Forall2 TRn (del fl ups) ups'.

  (* ---- matcher level ---- *)
  Definition mm_rel (o o' : mr (bool * Tok * MS)) : Prop :=
    match o, o' with
    | MrOk (b, t1, m1), MrOk (b', t1', m1') => b = b' /\ TRn t1 t1' /\ m1 = m1'
    | MrRaise e m1, MrRaise e' m1' => ERn e e' /\ m1 = m1'
    | MrCrash, MrCrash => True
    | _, _ => False
    end.
  Lemma m_match_rel k m t t' : TRn t t' -> mm_rel (m_match P k t m) (m_match P k t' m).
  Proof.
    intros R. unfold m_match. rewrite (H_eof t t' R). destruct (_ && _); [cbn; auto|].
    pose proof (H_match k m t t' R) as M. destruct (matchf P k m t), (matchf P k m t'); cbn [mm_rel]; tauto.
  Qed.
  Lemma m_any_rel ks : forall m t t', TRn t t' -> mm_rel (m_any P ks t m) (m_any P ks t' m).
  Proof.
    induction ks as [|k ks IH]; intros m t t' R; cbn [m_any mm_rel]; [auto|].
    pose proof (m_match_rel k m t t' R) as M.
    destruct (m_match P k t m) as [[[b t1] m1]|e m1|], (m_match P k t' m) as [[[b' t1'] m1']|e' m1'|]; cbn [mm_rel] in *; try contradiction; auto.
    destruct M as (<- & R1 & <-). destruct b; [cbn; auto | apply IH; exact R1].
  Qed.

  Lemma m_match_MQ k t m b t1 m1 : MQ m -> m_match P k t m = MrOk (b, t1, m1) -> MQ m1.
  Proof.
    intros Hq. unfold m_match. destruct (_ && _); [intros H; inversion H; subst; exact Hq|]. pose proof (MQ_match k m t Hq) as E.
    destruct (matchf P k m t); [|discriminate]. intros H. inversion H; subst. exact E.
  Qed.
  Lemma m_any_MQ ks : forall t m b t1 m1, MQ m -> m_any P ks t m = MrOk (b, t1, m1) -> MQ m1.
  Proof.
    induction ks as [|k ks IH]; intros t m b t1 m1 Hq; cbn [m_any]; [intros H; inversion H; subst; exact Hq|].
    destruct (m_match P k t m) as [[[b' t'] m']|e m'|] eqn:M; try discriminate.
    pose proof (m_match_MQ _ _ _ _ _ _ Hq M) as E. destruct b'; [intros H; inversion H; subst; exact E | apply IH; exact E].
  Qed.
  Lemma m_la_loop_MQ h : forall ups m b m' ups', MQ m -> m_la_loop P h ups m = MrOk (b, m', ups') -> MQ m'.
  Proof.
    induction ups as [|t r IH]; intros m b m' ups' Hq; cbn [m_la_loop]; [intros H; inversion H; subst; exact Hq|].
    destruct (m_any P (la_expected h) t m) as [[[b1 t1] m1]|e1 m1|] eqn:A1; try discriminate.
    pose proof (m_any_MQ _ _ _ _ _ _ Hq A1) as Q1. destruct b1; [intros H; inversion H; subst; exact Q1|].
    destruct (m_any P (la_skip h) t1 m1) as [[[b2 t2] m2]|e2 m2|] eqn:A2; try discriminate.
    pose proof (m_any_MQ _ _ _ _ _ _ Q1 A2) as Q2. destruct b2; [|intros H; inversion H; subst; exact Q2].
    destruct (m_la_loop P h r m2) as [[[b3 m3] r3]|e3 m3|] eqn:L; try discriminate. intros H. inversion H; subst. exact (IH _ _ _ _ Q2 L).
  Qed.
  Lemma m_la_MQ h ups m b m' ups' : MQ m -> m_la P h ups m = MrOk (b, m', ups') -> MQ m'.
  Proof. unfold m_la. destruct (find_la P h); [apply m_la_loop_MQ | discriminate]. Qed.

  Definition la_out_rel (fl : list bool) (o o' : mr (bool * MS * list Tok)) : Prop :=
    match o, o' with
    | MrOk (b, m1, r), MrOk (b', m1', r') => b = b' /\ m1 = m1' /\ aligned fl r r'
    | MrRaise e m1, MrRaise e' m1' => ERn e e' /\ m1 = m1'
    | MrCrash, MrCrash => True
    | _, _ => False
    end.

  Lemma la_ins h : In h (lookaheads P) -> forall fl ups ups' m, MQ m -> aligned fl ups ups' ->
    la_out_rel fl (m_la_loop P h ups m) (m_la_loop P h ups' m).
  Proof.
    intros Hh. induction fl as [|f fl IH]; intros ups ups' m Hq (L & Fb & A).
    - destruct ups; [|discriminate L]. cbn [del] in A. inversion A; subst. cbn. repeat split; constructor.
    - destruct ups as [|t r]; [discriminate L|]. cbn [length] in L. cbn [flagged_bl] in Fb. destruct Fb as [Fz Fb]. cbn [del] in A.
      destruct f.
      + (* an inserted token: skipped, the matcher state is the same *)
        destruct (B_la h m t Hh (Fz eq_refl) Hq) as (E1 & z' & E2 & Bz'). cbn [m_la_loop]. rewrite E1, E2.
        assert (Al : aligned fl r ups') by (split; [lia | split; assumption]).
        pose proof (IH r ups' m Hq Al) as R.
        destruct (m_la_loop P h r m) as [[[b m1] r1]|e m1|], (m_la_loop P h ups' m) as [[[b' m1'] r1']|e' m1'|]; cbn [la_out_rel] in *; try contradiction; auto.
        destruct R as (<- & <- & (L1 & F1 & A1)). split; [reflexivity|]. split; [reflexivity|].
        split; [cbn [length]; lia|]. split; [cbn [flagged_bl]; split; [intros _; exact Bz' | exact F1] | cbn [del]; exact A1].
      + destruct ups' as [|t' r']; [inversion A|]. inversion A as [|? ? ? ? Rt Ar]; subst. cbn [m_la_loop].
        assert (Al : aligned fl r r') by (split; [lia | split; assumption]).
        pose proof (m_any_rel (la_expected h) m t t' Rt) as M1.
        destruct (m_any P (la_expected h) t m) as [[[b1 t1] m1]|e1 m1|] eqn:X1, (m_any P (la_expected h) t' m) as [[[b1' t1'] m1']|e1' m1'|];
          cbn [mm_rel la_out_rel] in *; try contradiction; auto.
        destruct M1 as (<- & R1 & <-). destruct b1.
        * cbn [la_out_rel]. split; [reflexivity|]. split; [reflexivity|]. split; [cbn [length]; lia|].
          split; [cbn [flagged_bl]; split; [discriminate | exact Fb] | cbn [del]; constructor; assumption].
        * pose proof (m_any_rel (la_skip h) m1 t1 t1' R1) as M2. pose proof (m_any_MQ _ _ _ _ _ _ Hq X1) as Q1.
          destruct (m_any P (la_skip h) t1 m1) as [[[b2 t2] m2]|e2 m2|] eqn:X2, (m_any P (la_skip h) t1' m1) as [[[b2' t2'] m2']|e2' m2'|];
            cbn [mm_rel la_out_rel] in *; try contradiction; auto.
          destruct M2 as (<- & R2 & <-). destruct b2.
          -- pose proof (IH r r' m2 (m_any_MQ _ _ _ _ _ _ Q1 X2) Al) as R.
             destruct (m_la_loop P h r m2) as [[[b m3] r3]|e m3|], (m_la_loop P h r' m2) as [[[b' m3'] r3']|e' m3'|]; cbn [la_out_rel] in *; try contradiction; auto.
             destruct R as (<- & <- & (L1 & F1 & A1)). split; [reflexivity|]. split; [reflexivity|].
             split; [cbn [length]; lia|]. split; [cbn [flagged_bl]; split; [discriminate | exact F1] | cbn [del]; constructor; assumption].
          -- cbn [la_out_rel]. split; [reflexivity|]. split; [reflexivity|]. split; [cbn [length]; lia|].
             split; [cbn [flagged_bl]; split; [discriminate | exact Fb] | cbn [del]; constructor; assumption].
  Qed.

  Lemma m_la_ins h fl ups ups' m : MQ m -> aligned fl ups ups' -> la_out_rel fl (m_la P h ups m) (m_la P h ups' m).
  Proof.
    intros Hq A. unfold m_la. destruct (find_la P h) as [x|] eqn:F; [|exact I].
    apply la_ins; [unfold find_la in F; apply find_some in F; tauto | exact Hq | exact A].
  Qed.

  (* ---- builder calls ---- *)
  Definition ex_out_rel (o o' : mo unit) : Prop :=
    match o, o' with
    | MoOk _ m b, MoOk _ m' b' => m = m' /\ BRl b b'
    | MoRaise e m b, MoRaise e' m' b' => ERn e e' /\ m = m' /\ BRl b b'
    | MoCrash, MoCrash => True
    | _, _ => False
    end.
  Lemma m_exec_rel t t' : TRn t t' -> forall ps m b b', BRl b b' -> ex_out_rel (m_exec P t ps m b) (m_exec P t' ps m b').
  Proof.
    intros Rt. induction ps as [|p ps IH]; intros m b b' Rb; cbn [m_exec ex_out_rel]; [auto|].
    assert (G : bres_rel (match p with PS r => b_start P r b | PE r => b_end P r b | PB => b_build P t b end)
                         (match p with PS r => b_start P r b' | PE r => b_end P r b' | PB => b_build P t' b' end)).
    { destruct p; [apply H_start | apply H_end | apply H_build]; assumption. }
    destruct (match p with PS r => b_start P r b | PE r => b_end P r b | PB => b_build P t b end) as [b1|e b1|],
             (match p with PS r => b_start P r b' | PE r => b_end P r b' | PB => b_build P t' b' end) as [b1'|e' b1'|];
      cbn [bres_rel ex_out_rel] in *; try contradiction; auto. tauto.
  Qed.

  (* ---- one state ---- *)
  Definition st_out_rel (fl : list bool) (o o' : mo (nat * list Tok)) : Prop :=
    match o, o' with
    | MoOk (s, r) m b, MoOk (s', r') m' b' => s = s' /\ m = m' /\ BRl b b' /\ aligned fl r r'
    | MoRaise e m b, MoRaise e' m' b' => ERn e e' /\ m = m' /\ BRl b b'
    | MoCrash, MoCrash => True
    | _, _ => False
    end.

  Lemma m_tests_ins exp fl : forall tests t t' m b b' ups ups', MQ m -> TRn t t' -> BRl b b' -> aligned fl ups ups' ->
    st_out_rel fl (m_tests P tests exp t m b ups) (m_tests P tests exp t' m b' ups').
  Proof.
    induction tests as [|x xs IH]; intros t t' m b b' ups ups' Hq Rt Rb Al; cbn [m_tests st_out_rel].
    - split; [apply H_unexp; exact Rt | split; [reflexivity | exact Rb]].
    - pose proof (m_match_rel (t_kind x) m t t' Rt) as M.
      destruct (m_match P (t_kind x) t m) as [[[b1 t1] m1]|e1 m1|] eqn:A1, (m_match P (t_kind x) t' m) as [[[b1' t1'] m1']|e1' m1'|];
        cbn [mm_rel st_out_rel] in *; try contradiction; auto; [|tauto].
      destruct M as (<- & R1 & <-). pose proof (m_match_MQ _ _ _ _ _ _ Hq A1) as Q1. destruct b1; [|apply IH; assumption].
      destruct (t_guard x) as [h|].
      + pose proof (m_la_ins h fl ups ups' m1 Q1 Al) as L.
        destruct (m_la P h ups m1) as [[[bb m2] r2]|e2 m2|] eqn:A2, (m_la P h ups' m1) as [[[bb' m2'] r2']|e2' m2'|]; cbn [la_out_rel st_out_rel] in *; try contradiction; auto; [|tauto].
        destruct L as (<- & <- & Al2). pose proof (m_la_MQ _ _ _ _ _ _ Q1 A2) as Q2. destruct bb; [|apply IH; assumption].
        pose proof (m_exec_rel t1 t1' R1 (t_prods x) m2 b b' Rb) as X.
        destruct (m_exec P t1 (t_prods x) m2 b) as [[] m3 b3|e3 m3 b3|], (m_exec P t1' (t_prods x) m2 b') as [[] m3' b3'|e3' m3' b3'|];
          cbn [ex_out_rel st_out_rel] in *; try contradiction; auto; tauto.
      + pose proof (m_exec_rel t1 t1' R1 (t_prods x) m1 b b' Rb) as X.
        destruct (m_exec P t1 (t_prods x) m1 b) as [[] m3 b3|e3 m3 b3|], (m_exec P t1' (t_prods x) m1 b') as [[] m3' b3'|e3' m3' b3'|];
          cbn [ex_out_rel st_out_rel] in *; try contradiction; auto; tauto.
  Qed.

  Lemma m_step_ins s fl t t' m b b' ups ups' : MQ m -> TRn t t' -> BRl b b' -> aligned fl ups ups' ->
    st_out_rel fl (m_step P s t m b ups) (m_step P s t' m b' ups').
  Proof. intros. unfold m_step. destruct (find_state P s); [apply m_tests_ins; assumption | exact I]. Qed.

  (* ---- the loop: the states at which the flagged tokens are reached must be neutral ---- *)
  Fixpoint safe (n : nat) (s : nat) (m : MS) (b : BS) (fl : list bool) (ups : list Tok) : Prop :=
    match n with
    | 0 => True
    | S n' =>
      match fl, ups with
      | f :: fl', t :: r =>
        (f = true -> neutral s) /\
        match m_step P s t m b r with
        | MoOk (s', r') m' b' => if is_eof P t then True else safe n' s' m' b' fl' r'
        | _ => True
        end
      | _, _ => True
      end
    end.

  Definition lp_out_rel (o o' : mo nat) : Prop :=
    match o, o' with
    | MoOk s m b, MoOk s' m' b' => s = s' /\ m = m' /\ BRl b b'
    | MoRaise e m b, MoRaise e' m' b' => ERn e e' /\ m = m' /\ BRl b b'
    | MoCrash, MoCrash => True
    | _, _ => False
    end.

  Lemma m_exec_BI t : forall ps m b m' b', BI b -> m_exec P t ps m b = MoOk tt m' b' -> BI b'.
  Proof.
    induction ps as [|p ps IH]; intros m b m' b' Hb; cbn [m_exec]; [intros H; inversion H; subst; exact Hb|].
    destruct p; [destruct (b_start P r b) as [b1|e b1|] eqn:E | destruct (b_end P r b) as [b1|e b1|] eqn:E | destruct (b_build P t b) as [b1|e b1|] eqn:E];
      try discriminate; apply IH; eauto.
  Qed.
  Lemma m_tests_BI exp : forall tests t m b ups s' ups' m' b', BI b -> m_tests P tests exp t m b ups = MoOk (s', ups') m' b' -> BI b'.
  Proof.
    induction tests as [|x xs IH]; intros t m b ups s' ups' m' b' Hb; cbn [m_tests]; [discriminate|].
    destruct (m_match P (t_kind x) t m) as [[[b1 t1] m1]|e1 m1|]; try discriminate.
    destruct b1; [|apply IH; exact Hb].
    destruct (t_guard x) as [h|].
    - destruct (m_la P h ups m1) as [[[bb m2] ups2]|e2 m2|]; try discriminate. destruct bb; [|apply IH; exact Hb].
      destruct (m_exec P t1 (t_prods x) m2 b) as [[] m3 b3|e3 m3 b3|] eqn:X; try discriminate. intros H. inversion H; subst. exact (m_exec_BI _ _ _ _ _ _ Hb X).
    - destruct (m_exec P t1 (t_prods x) m1 b) as [[] m3 b3|e3 m3 b3|] eqn:X; try discriminate. intros H. inversion H; subst. exact (m_exec_BI _ _ _ _ _ _ Hb X).
  Qed.
  Lemma m_step_BI s t m b ups s' ups' m' b' : BI b -> m_step P s t m b ups = MoOk (s', ups') m' b' -> BI b'.
  Proof. unfold m_step. destruct (find_state P s); [apply m_tests_BI | discriminate]. Qed.

  Lemma m_exec_ms t : forall ps m b m' b', m_exec P t ps m b = MoOk tt m' b' -> m' = m.
  Proof.
    induction ps as [|p ps IH]; intros m b m' b'; cbn [m_exec]; [intros H; now inversion H|].
    destruct (match p with PS r => b_start P r b | PE r => b_end P r b | PB => b_build P t b end); try discriminate. apply IH.
  Qed.
  Lemma m_tests_MQ exp : forall tests t m b ups s' ups' m' b', MQ m -> m_tests P tests exp t m b ups = MoOk (s', ups') m' b' -> MQ m'.
  Proof.
    induction tests as [|x xs IH]; intros t m b ups s' ups' m' b' Hq; cbn [m_tests]; [discriminate|].
    destruct (m_match P (t_kind x) t m) as [[[b1 t1] m1]|e1 m1|] eqn:A1; try discriminate.
    pose proof (m_match_MQ _ _ _ _ _ _ Hq A1) as Q1. destruct b1; [|apply IH; exact Q1].
    destruct (t_guard x) as [h|].
    - destruct (m_la P h ups m1) as [[[bb m2] ups2]|e2 m2|] eqn:A2; try discriminate. pose proof (m_la_MQ _ _ _ _ _ _ Q1 A2) as Q2.
      destruct bb; [|apply IH; exact Q2].
      destruct (m_exec P t1 (t_prods x) m2 b) as [[] m3 b3|e3 m3 b3|] eqn:X; try discriminate. intros H. inversion H; subst. now rewrite (m_exec_ms _ _ _ _ _ _ X).
    - destruct (m_exec P t1 (t_prods x) m1 b) as [[] m3 b3|e3 m3 b3|] eqn:X; try discriminate. intros H. inversion H; subst. now rewrite (m_exec_ms _ _ _ _ _ _ X).
  Qed.
  Lemma m_step_MQ s t m b ups s' ups' m' b' : MQ m -> m_step P s t m b ups = MoOk (s', ups') m' b' -> MQ m'.
  Proof. unfold m_step. destruct (find_state P s); [apply m_tests_MQ | discriminate]. Qed.

  Lemma m_step_len s t m b ups s' ups' m' b' : m_step P s t m b ups = MoOk (s', ups') m' b' -> length ups' = length ups.
  Proof. unfold m_step. destruct (find_state P s); [apply m_tests_len | discriminate]. Qed.

  Lemma m_loop_ins : forall n n' s m b b' fl ups ups', MQ m -> BI b -> BRl b b' -> aligned fl ups ups' -> safe n s m b fl ups ->
    length ups <= n -> length ups' <= n' ->
    lp_out_rel (m_loop P n s m b ups) (m_loop P n' s m b' ups').
  Proof.
    induction n as [|n IH]; intros n' s m b b' fl ups ups' Hq Hb Rb (L & Fb & A) Sf Ln Ln'.
    - destruct ups; [|cbn in Ln; lia]. destruct fl; [|discriminate L]. cbn [del] in A. inversion A; subst.
      cbn [m_loop]. destruct n'; exact I.
    - destruct ups as [|t r].
      { destruct fl; [|discriminate L]. cbn [del] in A. inversion A; subst. cbn [m_loop]. destruct n'; exact I. }
      destruct fl as [|f fl]; [discriminate L|]. cbn [length] in L, Ln. cbn [flagged_bl] in Fb. destruct Fb as [Fz Fb]. cbn [del] in A.
      cbn [safe] in Sf. destruct Sf as [Sn Sf]. cbn [m_loop].
      destruct f.
      + (* an inserted token: consumed in a neutral state *)
        assert (Al : aligned fl r ups') by (split; [lia | split; assumption]).
        destruct (B_step s t m b b' r (Sn eq_refl) (Fz eq_refl) Hq Hb Rb) as (b1 & E & Rb1). rewrite E in Sf |- *.
        pose proof (m_step_BI _ _ _ _ _ _ _ _ _ Hb E) as Hb1.
        rewrite (B_noeof t (Fz eq_refl)) in Sf |- *.
        apply (IH n' s m b1 b' fl r ups'); auto. lia.
      + destruct ups' as [|t' r']; [inversion A|]. inversion A as [|? ? ? ? Rt Ar]; subst.
        destruct n' as [|n']; [cbn in Ln'; lia|]. cbn [m_loop]. cbn [length] in Ln'.
        assert (Al : aligned fl r r') by (split; [lia | split; assumption]).
        pose proof (m_step_ins s fl t t' m b b' r r' Hq Rt Rb Al) as St. rewrite <- (H_eof t t' Rt).
        destruct (m_step P s t m b r) as [[s1 r1] m1 b1|e1 m1 b1|] eqn:E1, (m_step P s t' m b' r') as [[s1' r1'] m1' b1'|e1' m1' b1'|] eqn:E2;
          cbn [st_out_rel lp_out_rel] in *; try contradiction; auto.
        destruct St as (<- & <- & Rb1 & Al1). destruct (is_eof P t) eqn:Et; [cbn; auto|].
        pose proof (m_step_len _ _ _ _ _ _ _ _ _ E1) as L1. pose proof (m_step_len _ _ _ _ _ _ _ _ _ E2) as L2.
        apply (IH n' s1 m1 b1 b1' fl r1 r1'); auto; try lia; [exact (m_step_MQ _ _ _ _ _ _ _ _ _ Hq E1) | exact (m_step_BI _ _ _ _ _ _ _ _ _ Hb E1)].
  Qed.

  (* ---- the whole run ---- *)
  Lemma del_app fl : forall l e, length fl = length l -> del (fl ++ [false]) (l ++ [e]) = del fl l ++ [e].
  Proof.
    induction fl as [|f fl IH]; intros l e L; destruct l as [|t r]; try discriminate L; [reflexivity|].
    cbn [app del]. cbn [length] in L. rewrite IH by lia. destruct f; reflexivity.
  Qed.
  Lemma flagged_app fl : forall l e, length fl = length l -> flagged_bl fl l -> flagged_bl (fl ++ [false]) (l ++ [e]).
  Proof.
    induction fl as [|f fl IH]; intros l e L F; destruct l as [|t r]; try discriminate L; cbn [app flagged_bl]; [split; [discriminate | exact I]|].
    cbn [length flagged_bl] in *. destruct F as [F1 F2]. split; [exact F1 | apply IH; [lia | exact F2]].
  Qed.
  Lemma aligned_app fl l l' e e' : aligned fl l l' -> TRn e e' -> aligned (fl ++ [false]) (l ++ [e]) (l' ++ [e']).
  Proof.
    intros (L & F & A) R. split; [rewrite !app_length; cbn; lia|]. split; [apply flagged_app; assumption|].
    rewrite del_app by exact L. apply Forall2_app; [exact A | constructor; [exact R | constructor]].
  Qed.

  Definition safe_run (toks : list Tok) (fl : list bool) (m : MS) (b : BS) : Prop :=
    forall b1, b_start P RGherkinDocument b = BOk b1 ->
    safe (S (S (length toks))) (start_state P) m b1 (fl ++ [false]) (toks ++ [mk_eof P (S (length toks))]).

  Theorem m_parse_ins toks toks' fl m b b' : MQ m -> BI b -> BRl b b' -> aligned fl toks toks' ->
    TRn (mk_eof P (S (length toks))) (mk_eof P (S (length toks'))) -> safe_run toks fl m b ->
    ex_out_rel (m_parse P toks m b) (m_parse P toks' m b').
  Proof.
    intros Hq Hb Rb Al Re Sf. unfold m_parse. pose proof (H_start RGherkinDocument b b' Rb) as S0.
    destruct (b_start P RGherkinDocument b) as [b1|e b1|] eqn:E1, (b_start P RGherkinDocument b') as [b1'|e' b1'|];
      cbn [bres_rel ex_out_rel] in *; try contradiction; auto; try tauto.
    pose proof (m_loop_ins (S (S (length toks))) (S (S (length toks'))) (start_state P) m b1 b1' (fl ++ [false])
                  (toks ++ [mk_eof P (S (length toks))]) (toks' ++ [mk_eof P (S (length toks'))])
                  Hq (BI_start _ _ _ Hb E1) S0 (aligned_app _ _ _ _ _ Al Re) (Sf b1 E1)
                  ltac:(rewrite app_length; cbn; lia) ltac:(rewrite app_length; cbn; lia)) as L.
    destruct (m_loop P (S (S (length toks))) (start_state P) m b1 _) as [s2 m2 b2|e2 m2 b2|],
             (m_loop P (S (S (length toks'))) (start_state P) m b1' _) as [s2' m2' b2'|e2' m2' b2'|];
      cbn [lp_out_rel ex_out_rel] in *; try contradiction; auto; try tauto.
    destruct L as (_ & <- & R2). pose proof (H_end RGherkinDocument b2 b2' R2) as S3.
    destruct (b_end P RGherkinDocument b2) as [b3|e3 b3|], (b_end P RGherkinDocument b2') as [b3'|e3' b3'|];
      cbn [bres_rel ex_out_rel] in *; try contradiction; auto; tauto.
  Qed.
End Insert.
