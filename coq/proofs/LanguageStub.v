(* C02 (language), last link: the kind-level interpreter (Parser.parse over the regenerated table,
   with its token queue and look-ahead methods) accepts a sequence of line kinds exactly when the
   deterministic guarded machine of LanguageLink does; with det_language and nfa_language_eq this
   makes the interpreter's accepted language the language of gherkin.berp. *)
From Coq Require Import List Bool Arith Lia.
Import ListNotations.
Require Import Kinds Automaton AutoFacts Delivery DeliveryInst Stub NFA Table TableFacts C02Lemmas LanguageLink.

Definition kf (t : tok) : kind := fst t.
Notation sW := (W sP s_sk (fun _ : unit => True)).
Notation sU := (U sP kind kf).
Notation sctx := (Automaton.ctx tok unit unit serr).

Lemma answers_fst e t : answers e t = ans e (fst t).
Proof. destruct t as [k n]. reflexivity. Qed.

Lemma s_match_k stop k t c : exists c', match_k sP stop k t c = Ok (ans k (fst t), t) c' /\ fq c c' /\ errs c' = errs c.
Proof.
  unfold match_k. destruct (negb (kind_beq k KEOF) && is_eof sP t) eqn:E.
  - exists c. split; [|split; [apply fq_refl | reflexivity]].
    destruct t as [kk n]. cbn in E. cbn [fst]. destruct k, kk; try discriminate E; reflexivity.
  - cbn. rewrite answers_fst. eexists. split; [reflexivity|]. split; [repeat split | reflexivity].
Qed.

Lemma s_any_match stop ks : forall t c, exists c', any_match sP stop ks t c = Ok (existsb (fun k => ans k (fst t)) ks, t) c' /\ fq c c' /\ errs c' = errs c.
Proof.
  induction ks as [|k ks IH]; intros t c; cbn [any_match existsb].
  - exists c. split; [reflexivity|]. split; [apply fq_refl | reflexivity].
  - destruct (s_match_k stop k t c) as (c1 & M & F1 & E1). rewrite M. cbn [bind fst snd].
    destruct (ans k (fst t)); cbn [orb].
    + exists c1. auto.
    + destruct (IH t c1) as (c2 & A & F2 & E2). exists c2. split; [exact A|]. split; [eapply fq_trans; eauto | congruence].
Qed.

Lemma s_mkeof n : is_eof sP (mk_eof sP n) = true. Proof. reflexivity. Qed.

Lemma skip_not_eof h t : In h Table.lookaheads -> existsb (fun k => ans k (fst t)) (la_skip h) = true -> is_eof sP t = false.
Proof.
  intros Hh E. destruct (la_ok_spec h Hh) as [Es _]. rewrite Es in E. destruct t as [k n]. cbn in *.
  destruct k; try reflexivity. discriminate E.
Qed.

Lemma s_la_loop stop h : In h Table.lookaheads -> forall fuel c acc, sW c -> sz c < fuel ->
  exists r c1, la_loop sP fuel stop h c acc = Ok r c1 /\ fst r = la_peek h (sU c) /\ errs c1 = errs c.
Proof.
  intros Hh. induction fuel as [|f IH]; intros c acc (Hq & Hr & Hi) Hf; [lia|].
  cbn [la_loop]. destruct (read sP c) as [t c0] eqn:R.
  destruct (read_spec sP kind kf s_sk s_mkeof c t c0 R Hq Hr) as (_ & _ & _ & E0 & Hq0 & Hr0 & HU & Hsz & _).
  destruct (s_any_match stop (la_expected h) t c0) as (c2 & A2 & F2 & E2). rewrite A2. cbn [bind fst snd].
  rewrite HU. cbn [la_peek]. change (kf t) with (fst t).
  destruct (existsb (fun k => ans k (fst t)) (la_expected h)) eqn:X.
  - eexists; eexists. split; [reflexivity|]. split; [reflexivity | congruence].
  - destruct (s_any_match stop (la_skip h) t c2) as (c3 & A3 & F3 & E3). rewrite A3. cbn [bind fst snd].
    destruct (existsb (fun k => ans k (fst t)) (la_skip h)) eqn:Y.
    + pose proof (skip_not_eof h t Hh Y) as Ne. rewrite Ne. specialize (Hsz Ne).
      assert (F03 : fq c0 c3) by (eapply fq_trans; eauto).
      assert (W3 : sW c3) by (apply (fq_W sP s_sk (fun _ => True) c0 c3 F03 Logic.I); exact (conj Hq0 (conj Hr0 Logic.I))).
      assert (S3 : sz c3 < f).
      { destruct F03 as (Q & Rr & _). unfold sz in *. rewrite Q, Rr. lia. }
      destruct (IH c3 (acc ++ [t]) W3 S3) as (r & c1 & L & B & E1).
      exists r, c1. split; [exact L|]. split; [|congruence].
      rewrite B. rewrite (U_fq sP kind kf c0 c3 F03). reflexivity.
    + eexists; eexists. split; [reflexivity|]. split; [reflexivity | congruence].
Qed.

Lemma s_lookahead stop hn h c : flook Table.lookaheads hn = Some h -> sW c ->
  exists c2, lookahead sP stop hn c = Ok (la_peek h (sU c)) c2 /\ sW c2 /\ sU c2 = sU c /\ errs c2 = errs c.
Proof.
  intros Fl Hw.
  assert (Hh : In h Table.lookaheads) by (unfold flook in Fl; apply find_some in Fl; tauto).
  pose proof (lookahead_spec sP kind kf s_sk (fun _ => True)
                (fun k m t => eq_refl) (fun k m t => eq_refl) (fun n => eq_refl) (fun k m t _ => Logic.I)
                s_sk_not_eof s_S1 s_S2 la_no_eof_table stop hn c Hw) as L.
  unfold lookahead in *. unfold find_la in *. change (Automaton.lookaheads sP) with Table.lookaheads in *.
  unfold flook in Fl. rewrite Fl in *.
  destruct (s_la_loop stop h Hh (S (length (queue c) + length (rest c))) c [] Hw) as (r & c1 & E & B & Er).
  { unfold sz. lia. }
  rewrite E in *. cbn [bind] in *. cbn [sat] in L. destruct L as (W2 & U2 & _).
  rewrite B. eexists. split; [reflexivity|]. split; [exact W2|]. split; [exact U2|]. cbn. exact Er.
Qed.

Lemma s_exec stop t k : forall ps c, exists c', exec sP stop t k ps c = Ok tt c' /\ fqm c c' /\ errs c' = errs c.
Proof.
  induction ps as [|p ps IH]; intros c; cbn [exec].
  - exists c. split; [reflexivity|]. split; [repeat split | reflexivity].
  - destruct p as [r|r|]; cbn [b_call b_start b_end b_build sP stub_params s_bstart s_bbuild bs emit bind];
      match goal with |- context [exec sP stop t k ps ?c1] => destruct (IH c1) as (c' & E & (F1 & F2 & F3 & F4) & Er) end;
      exists c'; (split; [exact E|]); (split; [repeat split; assumption | exact Er]).
Qed.

Lemma la_peek_eof h w : la_eof_free h = true -> la_peek h (w ++ [KEOF]) = la_peek h w.
Proof.
  intros F. apply andb_prop in F as [F1 F2]. apply negb_true_iff in F1. apply negb_true_iff in F2.
  induction w as [|k w IH]; cbn [app la_peek].
  - rewrite F1, F2. reflexivity.
  - rewrite IH. reflexivity.
Qed.

Definition guards_ok (tests : list test) : Prop :=
  forall y hn, In y tests -> t_guard y = Some hn -> exists h, flook Table.lookaheads hn = Some h /\ la_eof_free h = true.

Lemma s_run_tests stop : forall tests t c w', sW c -> sU c = w' ++ [KEOF] -> guards_ok tests ->
  exists c', run_tests sP stop tests t c = Ok (dsel Table.lookaheads tests (fst t) w', t) c' /\ sW c' /\ sU c' = sU c /\ errs c' = errs c.
Proof.
  induction tests as [|x xs IH]; intros t c w' Hw HU G; cbn [run_tests dsel].
  - exists c. auto.
  - assert (Gs : guards_ok xs) by (intros y hn Hy; apply G; now right).
    destruct (s_match_k stop (t_kind x) t c) as (c1 & M & F1 & E1). rewrite M. cbn [bind fst snd].
    pose proof (fq_W sP s_sk (fun _ => True) c c1 F1 Logic.I Hw) as W1.
    pose proof (U_fq sP kind kf c c1 F1) as U1.
    destruct (ans (t_kind x) (fst t)).
    + destruct (t_guard x) as [hn|] eqn:Gx.
      * destruct (G x hn (or_introl eq_refl) Gx) as (h & Fl & Ef). rewrite Fl.
        destruct (s_lookahead stop hn h c1 Fl W1) as (c2 & L & W2 & U2 & E2). rewrite L. cbn [bind].
        rewrite U1, HU, (la_peek_eof h w' Ef).
        destruct (la_peek h w').
        -- destruct (s_exec stop t (t_kind x) (t_prods x) c2) as (c3 & X & F3 & E3). rewrite X. cbn [bind].
           exists c3. split; [reflexivity|]. split; [exact (fqm_W sP s_sk (fun _ => True) c2 c3 F3 W2)|].
           split; [rewrite (fqm_U sP kind kf c2 c3 F3); congruence | congruence].
        -- destruct (IH t c2 w' W2) as (c3 & R & W3 & U3 & E3); [congruence | exact Gs|].
           exists c3. split; [exact R|]. split; [exact W3|]. split; congruence.
      * destruct (s_exec stop t (t_kind x) (t_prods x) c1) as (c3 & X & F3 & E3). rewrite X. cbn [bind].
        exists c3. split; [reflexivity|]. split; [exact (fqm_W sP s_sk (fun _ => True) c1 c3 F3 W1)|].
        split; [rewrite (fqm_U sP kind kf c1 c3 F3); congruence | congruence].
    + destruct (IH t c1 w' W1) as (c3 & R & W3 & U3 & E3); [congruence | exact Gs|].
      exists c3. split; [exact R|]. split; [exact W3|]. split; congruence.
Qed.

Lemma s_match_token s x t c w' : NFA.find_state Table.table s = Some x -> sW c -> sU c = w' ++ [KEOF] -> guards_ok (s_tests x) ->
  match dsel Table.lookaheads (s_tests x) (fst t) w' with
  | Some s' => exists c', match_token sP false s t c = Ok s' c' /\ sW c' /\ sU c' = sU c /\ errs c' = errs c
  | None => sat (match_token sP false s t c) (fun s' c' => sW c' /\ sU c' = sU c /\ errs c' <> [] /\ s' = s_err x) (fun _ => True) False
  end.
Proof.
  intros Fs Hw HU G. unfold match_token.
  change (Automaton.find_state sP s) with (NFA.find_state Table.table s). rewrite Fs.
  destruct (s_run_tests false (s_tests x) t c w' Hw HU G) as (c1 & R & W1 & U1 & E1). rewrite R. cbn [bind fst snd].
  destruct (dsel Table.lookaheads (s_tests x) (fst t) w') as [s'|].
  - exists c1. auto.
  - set (c2 := emit _ c1).
    assert (F2 : fqm c1 c2) by (repeat split).
    pose proof (fqm_W sP s_sk (fun _ => True) c1 c2 F2 W1) as W2.
    pose proof (fqm_U sP kind kf c1 c2 F2) as U2.
    unfold add_error. destruct (existsb _ (errs c2)) eqn:Ex; cbn [bind sat].
    + split; [exact W2|]. split; [congruence|]. split; [|reflexivity].
      intros N. rewrite N in Ex. discriminate Ex.
    + set (c3 := set_errs _ c2). assert (F3 : fqm c2 c3) by (repeat split).
      destruct (_ <? _); cbn [bind sat]; [exact Logic.I|].
      split; [exact (fqm_W sP s_sk (fun _ => True) c2 c3 F3 W2)|].
      split; [rewrite (fqm_U sP kind kf c2 c3 F3); congruence|]. split; [|reflexivity].
      subst c3. cbn [errs set_errs]. intros N. apply app_eq_nil in N as [_ N]. discriminate N.
Qed.

(* ---- table facts ---- *)
Lemma table_guards_ok x : In x Table.table -> guards_ok (s_tests x).
Proof.
  intros Hx y hn Hy Gy. pose proof table_exact as T. rewrite forallb_forall in T.
  pose proof (exact_tests_sound Table.table Table.lookaheads cert_fuel _ (T x Hx)) as Ex.
  apply in_split in Hy as (pre & post & E). specialize (Ex pre y post E). rewrite Gy in Ex.
  destruct Ex as (h & Fl & Ef & _). exists h. auto.
Qed.

Lemma dsel_in las tests k w' s' : dsel las tests k w' = Some s' ->
  exists y, In y tests /\ t_tgt y = s' /\ ans (t_kind y) k = true.
Proof.
  induction tests as [|y ys IH]; cbn [dsel]; [discriminate|].
  destruct (ans (t_kind y) k) eqn:A.
  - destruct (t_guard y) as [hn|].
    + destruct (flook las hn) as [h|]; [|discriminate]. destruct (la_peek h w').
      * intros E. inversion E. exists y. auto using in_eq.
      * intros E. destruct (IH E) as (z & Hz & Tz & Az). exists z. auto using in_cons.
    + intros E. inversion E. exists y. auto using in_eq.
  - intros E. destruct (IH E) as (z & Hz & Tz & Az). exists z. auto using in_cons.
Qed.

Lemma ans_eof_l k : ans KEOF k = true -> k = KEOF.
Proof. destruct k; cbn; intros H; try discriminate H; reflexivity. Qed.
Lemma ans_eof_r e : ans e KEOF = true -> e = KEOF.
Proof. destruct e; cbn; intros H; try discriminate H; reflexivity. Qed.

Lemma dsel_target x k w' s' : In x Table.table -> dsel Table.lookaheads (s_tests x) k w' = Some s' ->
  (k <> KEOF -> NFA.find_state Table.table s' <> None) /\ (k = KEOF -> is_end Table.table [s'] = true).
Proof.
  intros Hx D. destruct (dsel_in _ _ _ _ _ D) as (y & Hy & <- & A).
  pose proof (total_of_states_total sP states_total_ok x y Hx Hy) as T.
  change (Automaton.find_state sP (t_tgt y)) with (NFA.find_state Table.table (t_tgt y)) in T. split.
  - intros Nk N. apply T in N. rewrite N in A. apply ans_eof_l in A. contradiction.
  - intros ->. apply ans_eof_r in A. apply T in A. unfold is_end. cbn [existsb]. rewrite A. reflexivity.
Qed.

Lemma find_state_in_table s x : NFA.find_state Table.table s = Some x -> In x Table.table.
Proof. unfold NFA.find_state. intros H. apply find_some in H. tauto. Qed.

(* ---- the shape of the pending stream: lines, then the end of file ---- *)
Lemma upto_shape e : is_eof sP e = true -> forall l, exists w, map kf (upto sP (l ++ [e])) = w ++ [KEOF] /\ Forall (fun k => k <> KEOF) w.
Proof.
  intros He. assert (Ke : kf e = KEOF) by (destruct e as [k n]; cbn in *; destruct k; try discriminate He; reflexivity).
  induction l as [|t l (w & E & F)]; cbn [app upto].
  - rewrite He. exists []. cbn. rewrite Ke. auto.
  - destruct (is_eof sP t) eqn:Et.
    + exists []. cbn. split; [|constructor]. destruct t as [k n]; cbn in *; destruct k; try discriminate Et; reflexivity.
    + exists (kf t :: w). cbn [map app]. rewrite E. split; [reflexivity|]. constructor; [|exact F].
      intros X. destruct t as [k n]; cbn in *. subst k. discriminate Et.
Qed.

Lemma sU_shape (c : sctx) : exists w, sU c = w ++ [KEOF] /\ Forall (fun k => k <> KEOF) w.
Proof.
  unfold U, stream. rewrite app_assoc. apply upto_shape. reflexivity.
Qed.

Notation DACC := (dacc Table.table Table.lookaheads).

Lemma app_eof_cases (w : list kind) k u : Forall (fun k => k <> KEOF) w -> w ++ [KEOF] = k :: u ->
  (k = KEOF /\ w = [] /\ u = []) \/ (k <> KEOF /\ exists w1, w = k :: w1 /\ u = w1 ++ [KEOF]).
Proof.
  intros F E. destruct w as [|k0 w1]; cbn in E; inversion E; subst.
  - left. auto.
  - right. inversion F; subst. split; [assumption|]. exists w1. auto.
Qed.

Lemma s_loop : forall fuel s (c : sctx) w, sW c -> NFA.find_state Table.table s <> None ->
  sU c = w ++ [KEOF] -> Forall (fun k => k <> KEOF) w -> length w < fuel ->
  sat (loop sP fuel false s c)
      (fun _ c' => errs c' = [] <-> (errs c = [] /\ DACC s w = true))
      (fun _ => ~ (errs c = [] /\ DACC s w = true)) False.
Proof.
  induction fuel as [|f IH]; intros s c w (Hq & Hr & Hi) Fs HU Fw Hf; [lia|].
  cbn [loop]. destruct (read sP c) as [t c1] eqn:R.
  destruct (read_spec sP kind kf s_sk s_mkeof c t c1 R Hq Hr) as (_ & _ & _ & E1 & Hq1 & Hr1 & HU1 & _ & Hqq & Hq0 & Hre).
  assert (W1 : sW c1) by exact (conj Hq1 (conj Hr1 Logic.I)).
  destruct (NFA.find_state Table.table s) as [x|] eqn:Fx; [|congruence].
  pose proof (find_state_in_table s x Fx) as Hx.
  rewrite HU in HU1.
  (* the stream after the read *)
  assert (Sh : exists w1, sU c1 = w1 ++ [KEOF] /\ Forall (fun k => k <> KEOF) w1 /\
               ((is_eof sP t = true /\ kf t = KEOF /\ w = [] /\ w1 = []) \/ (is_eof sP t = false /\ kf t <> KEOF /\ w = kf t :: w1))).
  { destruct (app_eof_cases w _ _ Fw HU1) as [(K & Ew & Eu)|(K & w1 & Ew & Eu)].
    - assert (Et : is_eof sP t = true) by (destruct t as [k n]; cbn in *; subst k; reflexivity).
      exists []. split; [|split; [constructor|left; auto]].
      specialize (Hre Et).
      assert (Q1 : queue c1 = []).
      { destruct (queue c) as [|q qs] eqn:Q; [auto|].
        destruct (Hqq q qs eq_refl) as [-> Q1]. rewrite Q1.
        apply (nonsk_last sP s_sk c q qs Hq Q). intros Sk. apply s_sk_not_eof in Sk. congruence. }
      unfold U, stream. rewrite Q1, Hre. reflexivity.
    - assert (Et : is_eof sP t = false) by (destruct t as [k n]; cbn in *; destruct k; try reflexivity; congruence).
      rewrite Et in Eu. exists w1. split; [exact Eu|]. split; [subst w; now inversion Fw | right; auto]. }
  destruct Sh as (w1 & U1 & Fw1 & Cases).
  pose proof (s_match_token s x t c1 w1 Fx W1 U1 (table_guards_ok x Hx)) as M.
  assert (Dw : DACC s w = match dsel Table.lookaheads (s_tests x) (kf t) w1 with
                          | Some s' => if is_eof sP t then is_end Table.table [s'] else DACC s' w1
                          | None => false end).
  { destruct Cases as [(Et & K & -> & ->)|(Et & K & ->)]; rewrite Et; cbn [dacc]; unfold dstep;
      rewrite ?K, Fx; reflexivity. }
  change (fst t) with (kf t) in M.
  destruct (dsel Table.lookaheads (s_tests x) (kf t) w1) as [s'|] eqn:D.
  - destruct M as (c2 & Mt & W2 & U2 & E2). rewrite Mt. cbn [bind].
    destruct (dsel_target x (kf t) w1 s' Hx D) as [T1 T2].
    destruct Cases as [(Et & K & -> & ->)|(Et & K & ->)]; rewrite Et in *.
    + cbn [sat]. rewrite Dw, (T2 K), E2, E1. tauto.
    + eapply sat_weaken; [apply (IH s' c2 w1 W2 (T1 K)); [congruence | exact Fw1 | cbn in Hf; lia] | | | auto].
      * intros a c'. cbn beta. rewrite Dw, E2, E1. tauto.
      * intros c'. rewrite Dw, E2, E1. tauto.
  - apply sat_bind with (Q1 := fun s'' c2 => sW c2 /\ sU c2 = sU c1 /\ errs c2 <> [] /\ s'' = s_err x).
    + eapply sat_weaken; [exact M | auto | | auto].
      intros c2 _. rewrite Dw. intros [_ X]; discriminate X.
    + intros s'' c2 (W2 & U2 & N2 & ->). cbn beta.
      destruct Cases as [(Et & K & -> & ->)|(Et & K & ->)]; rewrite Et.
      * cbn [sat]. rewrite Dw. split; [intros X; contradiction | intros [_ X]; discriminate X].
      * eapply sat_weaken; [apply (IH (s_err x) c2 w1 W2); [|congruence | exact Fw1 | cbn in Hf; lia] | | | auto].
        -- exact (err_known_table sP eq_refl x Hx).
        -- intros a c'. cbn beta. rewrite Dw. intros [H1 H2]. split; [intros X; apply H1 in X; tauto | intros [_ X]; discriminate X].
        -- intros c' _. rewrite Dw. intros [_ X]; discriminate X.
Qed.

Lemma map_fst_number w : map kf (number w) = w.
Proof.
  unfold number. generalize 1. induction w as [|k w IH]; intros i; cbn; [reflexivity|]. now rewrite IH.
Qed.

Lemma upto_noeof e : forall l, Forall (fun t => is_eof sP t = false) l -> upto sP (l ++ [e]) = l ++ upto sP [e].
Proof. induction l as [|t l IH]; intros F; [reflexivity|]. inversion F; subst. cbn [app upto]. rewrite H1, IH; auto. Qed.

Theorem stub_accepts_dacc w : Forall (fun k => k <> KEOF) w -> Stub.accepts w = DACC Table.start_state w.
Proof.
  intros Fw. unfold accepts, run, run_on, parse.
  cbn [b_call b_start b_end sP stub_params s_bstart bs emit init_ctx bind set_bs].
  change (stub_params Table.table) with sP.
  match goal with |- context [loop sP _ false _ ?c] => set (c1 := c) end.
  assert (W1 : sW c1).
  { split; [|split; [|exact Logic.I]].
    - split; [constructor | intros t []].
    - exact (number_noeof w Fw). }
  assert (U1 : sU c1 = w ++ [KEOF]).
  { unfold U, stream, c1. cbn [queue rest set_bs emit init_ctx app]. rewrite (upto_noeof _ _ (number_noeof w Fw)).
    rewrite map_app, map_fst_number. reflexivity. }
  assert (Len : length (number w) = length w).
  { unfold number. pose proof (combine_length w (seq 1 (length w))) as H. rewrite seq_length, Nat.min_id in H. exact H. }
  pose proof (s_loop (S (S (length (number w)))) Table.start_state c1 w W1 stub_start U1 Fw ltac:(rewrite Len; lia)) as L.
  change (Automaton.start_state sP) with Table.start_state.
  destruct (loop sP (S (S (length (number w)))) false Table.start_state c1) as [s' c2|e c2|es c2|c2|]; cbn [sat bind] in *.
  - cbn [errs set_bs emit]. destruct L as [L1 L2]. destruct (errs c2) as [|e es].
    + destruct (L1 eq_refl) as [_ D]. now rewrite D.
    + destruct (DACC Table.start_state w); [|reflexivity]. discriminate (L2 (conj eq_refl eq_refl)).
  - destruct (DACC Table.start_state w); [|reflexivity]. exfalso. apply L. split; reflexivity.
  - destruct (DACC Table.start_state w); [|reflexivity]. exfalso. apply L. split; reflexivity.
  - destruct (DACC Table.start_state w); [|reflexivity]. exfalso. apply L. split; reflexivity.
  - destruct L.
Qed.

(* the interpreter's accepted language is the language of the grammar *)
Require Import Regex Grammar RefSem Bisim.
Theorem stub_language w : Forall (fun k => k <> KEOF) w -> Stub.accepts w = runR G (w ++ [KEOF]).
Proof.
  intros Fw. rewrite (stub_accepts_dacc w Fw), det_language. apply nfa_language_eq.
Qed.
