(* C13: when a line is a doc-string delimiter, exactly.  Outside a doc string: iff its trimmed text begins with three double
   quotes or three backticks (whatever follows is the media type).  Inside: iff it begins with the delimiter that opened
   the doc string -- whatever follows; the other delimiter, and the same delimiter after other text, are content. *)
From Coq Require Import String List Bool Arith NArith.
Import ListNotations.
Require Import Kinds PyStr Line Matcher Dialects.

Definition yes (o : mout) : bool := match o with MYes _ _ => true | _ => false end.

Theorem docsep_opening_exact m t l : tk_line t = Some l -> ms_sep m = None ->
  yes (matcher dialects KDocStringSeparator m t) = line_startswith l DQ3 || line_startswith l BT3.
Proof.
  intros L S. unfold matcher. rewrite L, S. unfold match_docsep.
  destruct (line_startswith l DQ3); [reflexivity|]. destruct (line_startswith l BT3); reflexivity.
Qed.

Theorem docsep_opening_result m t l : tk_line t = Some l -> ms_sep m = None ->
  forall t' m', matcher dialects KDocStringSeparator m t = MYes t' m' ->
  exists sep, (sep = DQ3 /\ line_startswith l DQ3 = true \/ sep = BT3 /\ line_startswith l DQ3 = false /\ line_startswith l BT3 = true)
    /\ ms_sep m' = Some sep /\ ms_indent m' = l_indent l /\ m_keyword t' = Some sep /\ m_text t' = Some (rstrip_crlf (get_rest_trimmed l (length sep))).
Proof.
  intros L S t' m'. unfold matcher. rewrite L, S. unfold match_docsep.
  destruct (line_startswith l DQ3) eqn:E1.
  - intros Hy. injection Hy as <- <-. exists DQ3. split; [left; split; reflexivity|]. repeat split; reflexivity.
  - destruct (line_startswith l BT3) eqn:E2; [|discriminate]. intros Hy. injection Hy as <- <-. exists BT3. split; [right; split; [reflexivity | split; reflexivity]|]. repeat split; reflexivity.
Qed.

Theorem docsep_closing_exact m t l sep : tk_line t = Some l -> ms_sep m = Some sep ->
  yes (matcher dialects KDocStringSeparator m t) = line_startswith l sep.
Proof.
  intros L S. unfold matcher. rewrite L, S. unfold match_docsep. destruct (line_startswith l sep); reflexivity.
Qed.

Theorem docsep_closing_result m t l sep : tk_line t = Some l -> ms_sep m = Some sep ->
  forall t' m', matcher dialects KDocStringSeparator m t = MYes t' m' -> ms_sep m' = None /\ ms_indent m' = 0%nat.
Proof.
  intros L S t' m'. unfold matcher. rewrite L, S. unfold match_docsep.
  destruct (line_startswith l sep); [intros Hy; injection Hy as <- <-; cbn; auto | discriminate].
Qed.
