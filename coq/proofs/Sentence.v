(* An accepted document is a sentence of gherkin.berp -- for the real pipeline (real matcher, real builder), not only
   for the kind-level stub of C02_language: reading every line as the kind under which the parser handed it to the
   builder, the sequence of kinds (the end of file included) is accepted by the reference recogniser of the grammar.
   PathReplay.path_replay: a normal return has walked a path of the transition table; here: every path of the table is
   a run of the table read as a nondeterministic automaton (NFA.v), whose language is the grammar's (Bisim). *)
From Coq Require Import List Bool Arith Lia.
Import ListNotations.
Require Import Kinds Stub NFA Automaton AutoFacts PathReplay Delivery.

Section Sentence.
  Context {Tok MS BS Err : Type}.
  Variable P : params Tok MS BS Err.
  Variable tokP : kind -> MS -> Tok -> MS -> Prop.

  Notation tbl := (table P).

  (* the kinds of the tests fired along a path *)
  Definition path_kinds (l : @path Tok) : list kind := map (fun ty => t_kind (snd ty)) l.

  (* side conditions on the table (decided by vm_compute for the regenerated table) *)
  Definition test_in_nfa : bool :=
    forallb (fun x => forallb (fun y => existsb (Nat.eqb (t_tgt y)) (targets tbl (s_id x) (t_kind y))) (s_tests x)) tbl.
  Definition eof_leaves : bool :=
    forallb (fun x => forallb (fun y => if kind_beq (t_kind y) KEOF
                                        then match NFA.find_state tbl (t_tgt y) with None => true | Some _ => false end
                                        else true) (s_tests x)) tbl.
  Hypothesis Hnfa : test_in_nfa = true.
  Hypothesis Hleave : eof_leaves = true.

  Lemma In_insert n a l : In n (insert a l) <-> n = a \/ In n l.
  Proof.
    induction l as [|m t IH]; cbn [insert]; [cbn; intuition|].
    destruct (a <? m); [cbn; intuition|]. destruct (a =? m) eqn:E; [apply Nat.eqb_eq in E; subst; cbn; intuition|].
    cbn [In]. rewrite IH. intuition.
  Qed.
  Lemma In_norm n l : In n (norm l) <-> In n l.
  Proof. induction l as [|a l IH]; [reflexivity|]. cbn [norm fold_right]. fold (norm l). rewrite In_insert, IH. cbn. intuition. Qed.

  Lemma stepN_nil k : stepN tbl [] k = [].
  Proof. reflexivity. Qed.
  Lemma fold_stepN_nil w : fold_left (stepN tbl) w [] = [].
  Proof. induction w as [|k w IH]; [reflexivity | exact IH]. Qed.
  Lemma runN_fold w : forall S, runN tbl S w = is_end tbl (fold_left (stepN tbl) w S).
  Proof.
    induction w as [|k w IH]; intros S; cbn [runN fold_left]; [reflexivity|].
    destruct (stepN tbl S k) as [|n S'] eqn:E; [rewrite fold_stepN_nil; reflexivity | apply IH].
  Qed.

  Lemma step_in S s x y : In s S -> In x tbl -> s_id x = s -> In y (s_tests x) -> In (t_tgt y) (stepN tbl S (t_kind y)).
  Proof.
    intros Hs Hx Hid Hy. unfold stepN. rewrite In_norm. apply in_flat_map. exists s. split; [exact Hs|].
    pose proof Hnfa as A. unfold test_in_nfa in A. rewrite forallb_forall in A. specialize (A x Hx). rewrite forallb_forall in A.
    specialize (A y Hy). rewrite Hid in A. apply existsb_exists in A as (n & Hn & E). apply Nat.eqb_eq in E. subst n. exact Hn.
  Qed.

  Lemma reach_states b1 m1 s b l m : reach P tokP b1 m1 s b l m ->
    In s (fold_left (stepN tbl) (path_kinds l) [start_state P]).
  Proof.
    induction 1 as [|s b l m x y t b' m' R IH Hx Hid Hy Ht Hb]; [left; reflexivity|].
    unfold path_kinds. rewrite map_app, fold_left_app. cbn [map fold_left snd]. exact (step_in _ s x y IH Hx Hid Hy).
  Qed.

  Lemma ends_is_end s S : ends P s -> In s S -> is_end tbl S = true.
  Proof.
    intros (x & y & Hx & Hy & K & E) Hs. unfold is_end. apply existsb_exists. exists s. split; [exact Hs|].
    pose proof Hleave as A. unfold eof_leaves in A. rewrite forallb_forall in A. specialize (A x Hx). rewrite forallb_forall in A.
    specialize (A y Hy). rewrite K in A. cbn [kind_beq] in A. rewrite E in A.
    change (NFA.find_state tbl s) with (find (fun x => Nat.eqb (s_id x) s) tbl) in *.
    destruct (find _ tbl); [discriminate A | reflexivity].
  Qed.

  Theorem reach_accepted b1 m1 s b l m : reach P tokP b1 m1 s b l m -> ends P s ->
    runN tbl [start_state P] (path_kinds l) = true.
  Proof. intros R E. rewrite runN_fold. exact (ends_is_end s _ E (reach_states _ _ _ _ _ _ R)). Qed.

  (* the kinds under which tokens were handed to build, read off the event log *)
  Definition built_kinds (evs : list (ev Tok)) : list kind :=
    flat_map (fun e => match e with EvB _ k => [k] | _ => [] end) evs.

  Hypothesis builds_once : forall x y, In x tbl -> In y (s_tests x) -> count_pb (t_prods y) = 1.

  Lemma built_step t y : built_kinds (step_events (t, y)) = repeat (t_kind y) (count_pb (t_prods y)).
  Proof.
    unfold step_events. cbn [fst snd]. induction (t_prods y) as [|p ps IH]; [reflexivity|].
    destruct p; cbn [map built_kinds flat_map ev_of_prod count_pb app repeat]; [exact IH | exact IH | f_equal; exact IH].
  Qed.

  Lemma reach_built b1 m1 s b l m : reach P tokP b1 m1 s b l m -> built_kinds (path_events l) = path_kinds l.
  Proof.
    induction 1 as [|s b l m x y t b' m' R IH Hx Hid Hy Ht Hb]; [reflexivity|].
    rewrite path_events_snoc. unfold built_kinds, path_kinds in *. rewrite flat_map_app, map_app, IH. f_equal.
    change (flat_map _ (step_events (t, y))) with (built_kinds (step_events (t, y))).
    rewrite built_step, (builds_once x y Hx Hy). reflexivity.
  Qed.
End Sentence.
