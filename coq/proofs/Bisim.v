(* C02 (language): the NFA view of the regenerated table accepts exactly the
   words of the reference semantics of the regenerated grammar.
   An unverified explorer computes the candidate relation R (vm_compute); the
   verified part is the boolean check `closed` and the lemma `closed_sound`. *)
From Coq Require Import List Bool Arith.
Import ListNotations.
Require Import Kinds Regex Grammar RefSem Stub NFA Table.

Definition pair := (list nat * re)%type.
Definition pair_beq (a b : pair) : bool :=
  (if list_eq_dec Nat.eq_dec (fst a) (fst b) then true else false) && re_beq (snd a) (snd b).
Definition pmem (p : pair) (R : list pair) := existsb (pair_beq p) R.

Section WithTable.
  Variable tbl : list st.
  Variable g : re.

  Definition succs (p : pair) : list pair :=
    flat_map (fun k => match stepN tbl (fst p) k, ref_step (snd p) k with
                       | ((_ :: _) as S'), Some r' => [(S', r')]
                       | _, _ => []
                       end) all_kinds.

  Fixpoint explore (fuel : nat) (todo : list pair) (R : list pair) : list pair :=
    match fuel with
    | 0 => R
    | S f =>
      match todo with
      | [] => R
      | p :: t => if pmem p R then explore f t R else explore f (succs p ++ t) (p :: R)
      end
    end.

  Definition closed (s0 : nat) (R : list pair) : bool :=
    pmem ([s0], g) R
    && forallb (fun p => forallb (fun k =>
         match stepN tbl (fst p) k, ref_step (snd p) k with
         | [], None => true
         | ((_ :: _) as S'), Some r' => pmem (S', r') R
         | _, _ => false
         end) all_kinds) R
    && forallb (fun p => Bool.eqb (is_end tbl (fst p)) (re_beq (snd p) Eps)) R.

  Lemma pmem_In p R : pmem p R = true -> exists q, In q R /\ pair_beq p q = true.
  Proof. unfold pmem. rewrite existsb_exists. intros [q [H1 H2]]. eauto. Qed.

  Lemma pair_beq_eq p q : pair_beq p q = true -> p = q.
  Proof.
    destruct p as [a b], q as [c d]. unfold pair_beq. simpl. intros H.
    apply andb_prop in H as [H1 H2].
    destruct (list_eq_dec Nat.eq_dec a c); try discriminate.
    apply re_beq_eq in H2. congruence.
  Qed.

  Lemma closed_sound s0 R0 : closed s0 R0 = true ->
    forall w S r, In (S, r) R0 -> runN tbl S w = runR r w.
  Proof.
    unfold closed. intros H. apply andb_prop in H as [H Hacc]. apply andb_prop in H as [_ Hstep].
    rewrite forallb_forall in Hstep, Hacc.
    induction w as [|k w IH]; intros S r Hin; simpl.
    - apply Hacc in Hin. simpl in Hin. apply Bool.eqb_prop in Hin. exact Hin.
    - specialize (Hstep _ Hin). rewrite forallb_forall in Hstep.
      specialize (Hstep k (all_kinds_complete k)). simpl in Hstep.
      destruct (stepN tbl S k) as [|n S'] eqn:E1; destruct (ref_step r k) as [r'|] eqn:E2;
        try discriminate; auto.
      apply pmem_In in Hstep as [q [Hq Hb]]. apply pair_beq_eq in Hb. subst q. apply IH. exact Hq.
  Qed.

  Lemma closed_language s0 R0 : closed s0 R0 = true -> forall w, runN tbl [s0] w = runR g w.
  Proof.
    intros H w. apply (closed_sound s0 R0 H).
    unfold closed in H. apply andb_prop in H as [H _]. apply andb_prop in H as [H _].
    apply pmem_In in H as [q [Hq Hb]]. apply pair_beq_eq in Hb. subst q. exact Hq.
  Qed.
End WithTable.

(* the certificate for the regenerated table and grammar *)
Definition R : list pair := Eval vm_compute in explore table 5000 [([start_state], G)] [].

Lemma R_closed : closed table G start_state R = true.
Proof. vm_compute. reflexivity. Qed.

Theorem nfa_language_eq : forall w, runN table [start_state] w = runR G w.
Proof. exact (closed_language table G start_state R R_closed). Qed.
