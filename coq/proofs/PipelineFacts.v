(* Invariants of the real pipeline instance: well-formed matcher states, the id
   counter only grows; consequences: parse depends on its matcher and builder
   arguments only through the configured default dialect and the id counter. *)
From Coq Require Import List Bool Arith NArith Lia.
Import ListNotations.
Require Import Kinds PyStr Line Matcher MatcherFacts Ast Builder Automaton AutoFacts InterpInv Pipeline Table Dialects.

Lemma str_eqb_eq a b : str_eqb a b = true <-> a = b.
Proof.
  revert b. induction a as [|x a IH]; destruct b as [|y b]; simpl; split; try discriminate; auto.
  - rewrite andb_true_iff, N.eqb_eq, IH. intros [-> ->]. reflexivity.
  - intros E. inversion E; subst. rewrite N.eqb_refl. simpl. now apply IH.
Qed.
Lemma str_eqb_refl a : str_eqb a a = true.
Proof. now apply str_eqb_eq. Qed.

(* ---- well-formed matcher states ---- *)
Section Wf.
  Variable ds : list dialect.
  Definition wf_ms_in (m : mstate) : Prop :=
    (exists d0, find_dialect ds (ms_default m) = Some d0)
    /\ find_dialect ds (ms_name m) = Some (ms_dialect m).

  Lemma new_matcher_wf_in name m : new_matcher ds name = Some m -> wf_ms_in m /\ ms_default m = name.
  Proof.
    unfold new_matcher. destruct (find_dialect ds name) as [d|] eqn:F; [|discriminate].
    intros E. inversion E; subst. unfold wf_ms_in. simpl. eauto.
  Qed.

  Lemma matcher_wf_in k m t : wf_ms_in m ->
    match matcher ds k m t with
    | MNo => True
    | MYes _ m' | MErr _ _ m' => wf_ms_in m' /\ ms_default m' = ms_default m
    end.
  Proof.
    intros [W1 W2]. unfold matcher.
    destruct k; destruct (tk_line t) as [l|] eqn:L; simpl; auto;
      unfold match_title_line, match_docsep; matcher_cases; simpl; auto; unfold wf_ms_in; simpl; auto.
  Qed.

  (* reset() of a well-formed state is the fresh state of its default dialect *)
  Lemma reset_matcher_wf_in m : wf_ms_in m ->
    exists d0, find_dialect ds (ms_default m) = Some d0
               /\ reset_matcher ds m = mk_mstate (ms_default m) (ms_default m) d0 None 0.
  Proof.
    intros [[d0 W1] W2]. exists d0. split; [exact W1|]. unfold reset_matcher.
    destruct (str_eqb (ms_name m) (ms_default m)) eqn:E.
    - apply str_eqb_eq in E. rewrite E in *. congruence.
    - rewrite W1. reflexivity.
  Qed.

  Lemma reset_matcher_wf_in' m : wf_ms_in m -> wf_ms_in (reset_matcher ds m) /\ ms_default (reset_matcher ds m) = ms_default m.
  Proof.
    intros W. destruct (reset_matcher_wf_in m W) as [d0 [F ->]]. unfold wf_ms_in. simpl. eauto.
  Qed.
End Wf.

Definition wf_ms := wf_ms_in dialects.
Definition new_matcher_wf := new_matcher_wf_in dialects.
Definition matcher_wf := matcher_wf_in dialects.
Definition reset_matcher_wf := reset_matcher_wf_in dialects.
Definition reset_matcher_wf' := reset_matcher_wf_in' dialects.

(* ---- the id counter only grows ---- *)
Lemma tags_of_items_mono t items : forall idc, idc <= snd (tags_of_items t items idc).
Proof.
  induction items as [|[c x] r IH]; intros idc; simpl; [lia|].
  specialize (IH (S idc)). destruct (tags_of_items t r (S idc)). simpl in *. lia.
Qed.
Lemma tags_of_tokens_mono ts : forall idc, idc <= snd (tags_of_tokens ts idc).
Proof.
  induction ts as [|t r IH]; intros idc; simpl; [lia|].
  pose proof (tags_of_items_mono t (m_items t) idc) as A. destruct (tags_of_items t (m_items t) idc) as [a i1].
  specialize (IH i1). destruct (tags_of_tokens r i1) as [b i2]. simpl in *. lia.
Qed.
Lemma rows_of_tokens_mono ts : forall idc, idc <= snd (rows_of_tokens ts idc).
Proof.
  induction ts as [|t r IH]; intros idc; simpl; [lia|].
  specialize (IH (S idc)). destruct (rows_of_tokens r (S idc)). simpl in *. lia.
Qed.

Definition tres_ge {A} (idc : nat) (r : tres A) : Prop :=
  match r with TOk _ i | TRaise _ i => idc <= i | TCrash => True end.

Lemma tbind_ge {A B} idc (r : tres A) (f : A -> nat -> tres B) :
  tres_ge idc r -> (forall a i, idc <= i -> tres_ge idc (f a i)) -> tres_ge idc (tbind r f).
Proof. destruct r; simpl; auto. Qed.
Lemma opt_crash_ge {A B} idc (o : option A) (f : A -> tres B) :
  (forall a, tres_ge idc (f a)) -> tres_ge idc (opt_crash o f).
Proof. destruct o; simpl; auto. Qed.

Lemma get_tags_ge n idc : tres_ge idc (get_tags n idc).
Proof.
  unfold get_tags. destruct (get_single n (KR RTags)) as [[]|]; simpl; auto.
  destruct (get_tokens n0 KTagLine) as [ts|]; simpl; auto.
  pose proof (tags_of_tokens_mono ts idc). destruct (tags_of_tokens ts idc). simpl in *. lia.
Qed.
Lemma get_table_rows_ge n idc : tres_ge idc (get_table_rows n idc).
Proof.
  unfold get_table_rows. destruct (get_tokens n KTableRow) as [ts|]; simpl; auto.
  pose proof (rows_of_tokens_mono ts idc). destruct (rows_of_tokens ts idc) as [rows i].
  destruct (first_ragged rows); simpl in *; lia.
Qed.

Ltac ge_step :=
  repeat first
    [ apply opt_crash_ge; intros ?
    | apply tbind_ge; [first [apply get_tags_ge | apply get_table_rows_ge] | intros ? ? ?]
    | match goal with
      | |- tres_ge _ (match ?x with _ => _ end) => destruct x
      | |- tres_ge _ (if ?x then _ else _) => destruct x
      end
    | (simpl; lia) ].

Lemma transform_node_ge n comments idc : tres_ge idc (transform_node n comments idc).
Proof.
  unfold transform_node. destruct (node_rt n) as [k|r|]; [simpl; lia| |simpl; lia].
  destruct r; ge_step.
  all: try (eapply tbind_ge; [apply get_tags_ge|]; intros; ge_step).
Qed.

Lemma builder_end_ge r b : match builder_end r b with BoOk b' | BoRaise _ b' => b_idc b <= b_idc b' | BoCrash => True end.
Proof.
  unfold builder_end. destruct (b_stack b) as [|n stk]; auto.
  pose proof (transform_node_ge n (b_comments b) (b_idc b)) as G.
  destruct (transform_node n (b_comments b) (b_idc b)); simpl in *; auto.
  destruct stk; simpl; auto.
Qed.
Lemma builder_start_ge r b : match builder_start r b with BoOk b' | BoRaise _ b' => b_idc b <= b_idc b' | BoCrash => True end.
Proof. simpl. lia. Qed.
Lemma builder_build_ge t b : match builder_build t b with BoOk b' | BoRaise _ b' => b_idc b <= b_idc b' | BoCrash => True end.
Proof.
  unfold builder_build. destruct (m_type t) as [k|]; auto.
  destruct k; try (destruct (b_stack b); simpl; auto; lia).
  destruct (m_text t); simpl; auto.
Qed.

(* ---- the combined invariant, through parse ---- *)
Definition Jp (dflt : str) (idc0 : nat) (c : pctx) : Prop :=
  wf_ms (ms c) /\ ms_default (ms c) = dflt /\ idc0 <= b_idc (bs c).

Lemma parse_tokens_inv stop toks m b :
  wf_ms m ->
  holds (Jp (ms_default m) (b_idc b)) (parse_tokens stop toks m b).
Proof.
  intros W. unfold parse_tokens, parse_tokens_with.
  apply parse_J.
  - intros c c' E1 E2 (A & B & C). unfold Jp. rewrite E1, E2. auto.
  - intros k t c (A & B & C). cbn [matchf pipeline_params]. unfold p_matchf.
    pose proof (matcher_wf k (ms c) t A) as M.
    destruct (matcher dialects k (ms c) t) as [|t' m'|e t' m']; unfold Jp, set_ms; cbn [ms bs]; auto;
      destruct M as [M1 M2]; (split; [exact M1 | split; [congruence | exact C]]).
  - intros r c (A & B & C). cbn [b_start pipeline_params]. unfold p_bstart, Jp, set_bs. cbn [lift_bout builder_start ms bs b_idc]. auto.
  - intros r c (A & B & C). cbn [b_end pipeline_params]. unfold p_bend.
    pose proof (builder_end_ge r (bs c)) as G.
    destruct (builder_end r (bs c)); unfold Jp, set_bs; cbn [lift_bout ms bs]; auto; (split; [exact A | split; [exact B | lia]]).
  - intros t c (A & B & C). cbn [b_build pipeline_params]. unfold p_bbuild.
    pose proof (builder_build_ge t (bs c)) as G.
    destruct (builder_build t (bs c)); unfold Jp, set_bs; cbn [lift_bout ms bs]; auto; (split; [exact A | split; [exact B | lia]]).
  - unfold Jp. cbn [ms bs init_ctx reset_builder b_idc]. destruct (reset_matcher_wf' m W) as [W' D]. auto.
Qed.

(* ---- C15: no hidden state ---- *)
(* parse_source reads its matcher only through reset(), its builder only through the id counter *)
Theorem parse_source_reset stop m1 m2 b1 b2 src :
  wf_ms m1 -> wf_ms m2 -> ms_default m1 = ms_default m2 -> b_idc b1 = b_idc b2 ->
  parse_source stop m1 b1 src = parse_source stop m2 b2 src.
Proof.
  intros W1 W2 D I. unfold parse_source, parse_tokens, parse_tokens_with.
  destruct (reset_matcher_wf m1 W1) as [d1 [F1 R1]]. destruct (reset_matcher_wf m2 W2) as [d2 [F2 R2]].
  rewrite R1, R2. rewrite D in *. assert (d1 = d2) by congruence. subst d2.
  unfold reset_builder. rewrite I. reflexivity.
Qed.

(* what a parse leaves behind is again well-formed, with the same default and a counter that did not go back *)
Definition after (r : presult) (dflt : str) (idc0 : nat) : Prop :=
  match r with
  | POk _ m b _ | PErrs _ m b _ | PErr1 _ m b _ => wf_ms m /\ ms_default m = dflt /\ idc0 <= b_idc b
  | PCrash | POutOfFuel => True
  end.

Theorem parse_source_after stop m b src : wf_ms m -> after (parse_source stop m b src) (ms_default m) (b_idc b).
Proof.
  intros W. pose proof (parse_tokens_inv stop (scan src) m b W) as H. unfold parse_source.
  unfold holds, sat in H.
  destruct (parse_tokens stop (scan src) m b); simpl; auto.
  destruct (builder_result (bs c)); simpl; auto.
Qed.

(* histories: one matcher and one builder reused for a sequence of documents ... *)
Definition state_after (r : presult) : option (mstate * bstate) :=
  match r with
  | POk _ m b _ | PErrs _ m b _ | PErr1 _ m b _ => Some (m, b)
  | PCrash | POutOfFuel => None
  end.

Fixpoint history (m : mstate) (b : bstate) (srcs : list (bool * str)) : list presult :=
  match srcs with
  | [] => []
  | (stop, s) :: r =>
    let res := parse_source stop m b s in
    res :: match state_after res with Some (m', b') => history m' b' r | None => [] end
  end.

(* ... against fresh instances for every document, sharing only the id counter *)
Fixpoint fresh_history (m0 : mstate) (idc : nat) (srcs : list (bool * str)) : list presult :=
  match srcs with
  | [] => []
  | (stop, s) :: r =>
    let res := parse_source stop m0 (new_builder idc) s in
    res :: match state_after res with Some (_, b') => fresh_history m0 (b_idc b') r | None => [] end
  end.

Theorem history_fresh m0 srcs : wf_ms m0 -> forall m b,
  wf_ms m -> ms_default m = ms_default m0 ->
  history m b srcs = fresh_history m0 (b_idc b) srcs.
Proof.
  intros W0. induction srcs as [|[stop s] r IH]; intros m b W D; simpl; [reflexivity|].
  rewrite (parse_source_reset stop m m0 b (new_builder (b_idc b)) s W W0 D eq_refl).
  f_equal.
  pose proof (parse_source_after stop m0 (new_builder (b_idc b)) s W0) as A.
  destruct (parse_source stop m0 (new_builder (b_idc b)) s); simpl in *; auto;
    destruct A as (A1 & A2 & A3); apply IH; auto.
Qed.

(* the counter never goes back along a history, whatever the documents *)
Theorem parse_source_counter stop m b src : wf_ms m ->
  match state_after (parse_source stop m b src) with Some (_, b') => b_idc b <= b_idc b' | None => True end.
Proof.
  intros W. pose proof (parse_source_after stop m b src W) as A.
  destruct (parse_source stop m b src); simpl in *; tauto.
Qed.
