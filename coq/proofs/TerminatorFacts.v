(* C16: the line terminator (none, LF, CRLF -- any run of CR / LF characters at the end of the physical
   line) is invisible to everything the token matcher computes from a line. *)
From Coq Require Import String List Bool Arith NArith Lia.
Import ListNotations.
Require Import Kinds PyStr Line Matcher ReplaceSpec LayoutFacts.

Local Open Scope N_scope.

Definition all_crlf (t : str) : Prop := forallb is_crlf t = true.
Definition nocrlf (p : str) : Prop := forallb (fun c => negb (is_crlf c)) p = true.

Lemma crlf_space c : is_crlf c = true -> is_space c = true.
Proof.
  unfold is_crlf. intros H. apply orb_prop in H as [H|H]; apply N.eqb_eq in H; subst c; reflexivity.
Qed.
Lemma all_crlf_spaces t : all_crlf t -> forallb is_space t = true.
Proof.
  unfold all_crlf. induction t as [|c t IH]; simpl; [reflexivity|]. intros H. apply andb_prop in H as [H1 H2].
  now rewrite (crlf_space c H1), IH.
Qed.
Lemma all_crlf_skipn k t : all_crlf t -> all_crlf (skipn k t).
Proof.
  unfold all_crlf. revert k. induction t as [|c t IH]; intros k H; [destruct k; exact H|].
  destruct k; [exact H|]. simpl in *. apply andb_prop in H as [_ H]. apply IH, H.
Qed.

(* ---- prefixes ---- *)
Lemma drop_while_app_all p a b : forallb p a = true -> drop_while p (a ++ b) = drop_while p b.
Proof. induction a as [|c a IH]; simpl; [reflexivity|]. intros H. apply andb_prop in H as [H1 H2]. now rewrite H1, IH. Qed.
Lemma drop_while_app_not p a b : forallb p a = false -> drop_while p (a ++ b) = drop_while p a ++ b.
Proof.
  induction a as [|c a IH]; simpl; [discriminate|]. destruct (p c) eqn:E; simpl; [exact IH | reflexivity].
Qed.
Lemma drop_while_all p a : forallb p a = true -> drop_while p a = [].
Proof. induction a as [|c a IH]; simpl; [reflexivity|]. intros H. apply andb_prop in H as [H1 H2]. now rewrite H1, IH. Qed.
Lemma drop_while_not_nil p a : forallb p a = false -> drop_while p a <> [].
Proof. induction a as [|c a IH]; simpl; [discriminate|]. destruct (p c) eqn:E; simpl; [exact IH | discriminate]. Qed.

Lemma lstrip_tail c tl : all_crlf tl ->
  lstrip (c ++ tl) = if forallb is_space c then [] else lstrip c ++ tl.
Proof.
  intros H. unfold lstrip. destruct (forallb is_space c) eqn:B.
  - rewrite (drop_while_app_all _ _ _ B). apply drop_while_all, all_crlf_spaces, H.
  - apply drop_while_app_not, B.
Qed.

Lemma sw_tail p : nocrlf p -> forall x tl, all_crlf tl -> starts_with p (x ++ tl) = starts_with p x.
Proof.
  unfold nocrlf, all_crlf. induction p as [|a p IH]; intros Hp x tl Ht; [reflexivity|].
  simpl in Hp. apply andb_prop in Hp as [Ha Hp]. destruct x as [|b x]; simpl.
  - destruct tl as [|y tl]; [reflexivity|]. simpl in Ht. apply andb_prop in Ht as [Hy _].
    destruct (a =? y) eqn:E; [|reflexivity]. apply N.eqb_eq in E. subst y. rewrite Hy in Ha. discriminate Ha.
  - rewrite (IH Hp x tl Ht). reflexivity.
Qed.

(* ---- suffixes ---- *)
Lemma rstrip_app_spaces a t : forallb is_space t = true -> rstrip (a ++ t) = rstrip a.
Proof. intros H. unfold rstrip. apply rdrop_while_app_all, H. Qed.
Lemma strip_app_spaces a t : forallb is_space t = true -> strip (a ++ t) = strip a.
Proof.
  intros H. unfold strip, lstrip. destruct (forallb is_space a) eqn:B.
  - rewrite (drop_while_app_all _ _ _ B), (drop_while_all _ _ H), (drop_while_all _ _ B). reflexivity.
  - rewrite (drop_while_app_not _ _ _ B). apply rstrip_app_spaces, H.
Qed.
Lemma skipn_app_tail {A} k (w t : list A) : skipn k (w ++ t) = skipn k w ++ skipn (k - length w) t.
Proof. apply skipn_app. Qed.
Lemma strip_skipn_tail k w tl : all_crlf tl -> strip (skipn k (w ++ tl)) = strip (skipn k w).
Proof. intros H. rewrite skipn_app_tail. apply strip_app_spaces, all_crlf_spaces, all_crlf_skipn, H. Qed.
Lemma rstrip_crlf_tail a tl : all_crlf tl -> rstrip_crlf (a ++ tl) = rstrip_crlf a.
Proof. intros H. unfold rstrip_crlf. apply rdrop_while_app_all, H. Qed.

(* ---- str.replace ---- *)
Lemma Repl_tail p v : p <> [] -> nocrlf p -> forall tl, all_crlf tl -> Repl p v tl tl.
Proof.
  intros Hp Np. induction tl as [|c t IH]; intros H; [constructor|].
  unfold all_crlf in H. simpl in H. apply andb_prop in H as [Hc Ht]. constructor; [|apply IH, Ht].
  destruct p as [|a p]; [congruence|]. unfold nocrlf in Np. simpl in Np. apply andb_prop in Np as [Na _]. simpl.
  destruct (a =? c) eqn:E; [|reflexivity]. apply N.eqb_eq in E. subst c. rewrite Hc in Na. discriminate Na.
Qed.
Lemma Repl_app_tail p v : p <> [] -> nocrlf p -> forall a r, Repl p v a r -> forall tl, all_crlf tl -> Repl p v (a ++ tl) (r ++ tl).
Proof.
  intros Hp Np a r H. induction H as [|b r H IH|c s r E H IH]; intros tl Ht.
  - apply Repl_tail; assumption.
  - rewrite <- !app_assoc. constructor. apply IH, Ht.
  - cbn [app]. constructor; [|apply IH, Ht]. change (c :: s ++ tl) with ((c :: s) ++ tl). rewrite (sw_tail p Np _ _ Ht). exact E.
Qed.
Lemma replace_all_tail p v a tl : p <> [] -> nocrlf p -> all_crlf tl -> replace_all p v (a ++ tl) = replace_all p v a ++ tl.
Proof.
  intros Hp Np Ht. apply replace_all_unique; [exact Hp|]. apply Repl_app_tail; auto. apply replace_all_Repl, Hp.
Qed.

Local Close Scope N_scope.

(* ---- what a line shows of itself: with any terminator, what the bare text shows ---- *)
Section Line.
  Variable c : str.
  Variable n : nat.
  Variable tl : str.
  Hypothesis Ht : all_crlf tl.
  Let l := make_line (c ++ tl) n.
  Let l0 := make_line c n.
  Definition is_blank_text (s : str) : bool := forallb is_space s.

  Lemma trimmed_tail : l_trimmed l = if is_blank_text c then [] else l_trimmed l0 ++ tl.
  Proof. unfold l, l0, make_line. cbn [l_trimmed]. apply lstrip_tail, Ht. Qed.
  Lemma trimmed0_blank : is_blank_text c = true -> l_trimmed l0 = [].
  Proof. intros B. unfold l0, make_line. cbn [l_trimmed]. apply drop_while_all, B. Qed.
  Lemma trimmed0_nonblank : is_blank_text c = false -> l_trimmed l0 <> [].
  Proof. intros B. unfold l0, make_line. cbn [l_trimmed]. apply drop_while_not_nil, B. Qed.
  Lemma lstrip_length s : length (lstrip s) <= length s.
  Proof. unfold lstrip. induction s as [|x s IH]; simpl; [lia|]. destruct (is_space x); simpl; lia. Qed.
  Lemma indent_tail : is_blank_text c = false -> l_indent l = l_indent l0.
  Proof.
    intros B. unfold l, l0, make_line. cbn [l_indent]. rewrite (lstrip_tail c tl Ht). unfold is_blank_text in B. rewrite B.
    rewrite !app_length. pose proof (lstrip_length c). lia.
  Qed.
  Lemma lno_tail : l_no l = l_no l0. Proof. reflexivity. Qed.

  Lemma empty_tail : line_is_empty l = line_is_empty l0.
  Proof.
    unfold line_is_empty. rewrite trimmed_tail. destruct (is_blank_text c) eqn:B.
    - now rewrite (trimmed0_blank B).
    - pose proof (trimmed0_nonblank B). destruct (l_trimmed l0); [congruence | reflexivity].
  Qed.
  Lemma startswith_tail p : nocrlf p -> line_startswith l p = line_startswith l0 p.
  Proof.
    intros Np. unfold line_startswith. rewrite trimmed_tail. destruct (is_blank_text c) eqn:B.
    - now rewrite (trimmed0_blank B).
    - apply sw_tail; assumption.
  Qed.
  Lemma nocrlf_app a b : nocrlf a -> nocrlf b -> nocrlf (a ++ b).
  Proof. unfold nocrlf. intros A B. rewrite forallb_app, A, B. reflexivity. Qed.
  Lemma title_tail k : nocrlf k -> startswith_title_keyword l k = startswith_title_keyword l0 k.
  Proof.
    intros Nk. unfold startswith_title_keyword. change (starts_with (k ++ [COLON]) (l_trimmed l)) with (line_startswith l (k ++ [COLON])).
    rewrite startswith_tail; [reflexivity | apply nocrlf_app; [exact Nk | reflexivity]].
  Qed.
  Lemma rest_tail k : get_rest_trimmed l k = get_rest_trimmed l0 k.
  Proof.
    unfold get_rest_trimmed. rewrite trimmed_tail. destruct (is_blank_text c) eqn:B.
    - now rewrite (trimmed0_blank B).
    - apply strip_skipn_tail, Ht.
  Qed.
  Lemma strip_trimmed_tail : strip (l_trimmed l) = strip (l_trimmed l0).
  Proof.
    rewrite trimmed_tail. destruct (is_blank_text c) eqn:B.
    - now rewrite (trimmed0_blank B).
    - apply strip_app_spaces, all_crlf_spaces, Ht.
  Qed.
  Lemma strip_nil_blank : is_blank_text c = true -> strip (l_trimmed l0) = [].
  Proof. intros B. now rewrite (trimmed0_blank B). Qed.
  Lemma table_cells_tail : table_cells l = table_cells l0.
  Proof.
    unfold table_cells. rewrite strip_trimmed_tail. destruct (is_blank_text c) eqn:B.
    - rewrite (strip_nil_blank B). reflexivity.
    - rewrite (indent_tail B). reflexivity.
  Qed.
  Lemma line_tags_tail : line_tags l = line_tags l0.
  Proof.
    unfold line_tags. rewrite strip_trimmed_tail. destruct (is_blank_text c) eqn:B.
    - rewrite (strip_nil_blank B). reflexivity.
    - rewrite (indent_tail B). reflexivity.
  Qed.
  Lemma text_tail : rstrip_crlf (l_text l) = rstrip_crlf (l_text l0).
  Proof. unfold l, l0, make_line. cbn [l_text]. apply rstrip_crlf_tail, Ht. Qed.
End Line.

(* ---- the language header pattern ---- *)
Lemma take_while_tail a tl : all_crlf tl -> take_while is_lang_char (a ++ tl) = take_while is_lang_char a.
Proof.
  intros H. induction a as [|x a IH]; simpl.
  - destruct tl as [|y t]; [reflexivity|]. unfold all_crlf in H. simpl in H. apply andb_prop in H as [Hy _]. simpl.
    unfold is_crlf in Hy. apply orb_prop in Hy as [E|E]; apply N.eqb_eq in E; subst y; reflexivity.
  - destruct (is_lang_char x); [now rewrite IH | reflexivity].
Qed.
Lemma take_while_length p a : length (take_while p a) <= length a.
Proof. induction a as [|x a IH]; simpl; [lia|]. destruct (p x); simpl; lia. Qed.
Lemma dw_tail a tl : all_crlf tl -> drop_while is_space (a ++ tl) = if forallb is_space a then [] else drop_while is_space a ++ tl.
Proof. exact (lstrip_tail a tl). Qed.

Lemma language_header_tail w tl : all_crlf tl -> language_header (w ++ tl) = language_header w.
Proof.
  intros Ht. unfold language_header. rewrite (dw_tail w tl Ht).
  destruct (forallb is_space w) eqn:B1; [now rewrite (drop_while_all _ _ B1)|].
  pose proof (drop_while_not_nil _ _ B1) as N1. destruct (drop_while is_space w) as [|x s2]; [congruence|]. cbn [app].
  destruct (N.eqb x HASH); [|reflexivity].
  rewrite (dw_tail s2 tl Ht). destruct (forallb is_space s2) eqn:B2; [now rewrite (drop_while_all _ _ B2)|].
  rewrite (sw_tail (s2l "language") eq_refl _ _ Ht).
  destruct (starts_with (s2l "language") (drop_while is_space s2)) eqn:S; [|reflexivity].
  apply starts_with_spec in S as [b Hb]. rewrite Hb. rewrite <- app_assoc.
  change 8 with (length (s2l "language")). rewrite !skipn_app_exact.
  rewrite (dw_tail b tl Ht). destruct (forallb is_space b) eqn:B3; [now rewrite (drop_while_all _ _ B3)|].
  pose proof (drop_while_not_nil _ _ B3) as N3. destruct (drop_while is_space b) as [|y s5]; [congruence|]. cbn [app].
  destruct (N.eqb y COLON); [|reflexivity].
  rewrite (dw_tail s5 tl Ht). destruct (forallb is_space s5) eqn:B4; [now rewrite (drop_while_all _ _ B4)|].
  rewrite (take_while_tail _ _ Ht).
  destruct (take_while is_lang_char (drop_while is_space s5)) as [|z name] eqn:Tn; [reflexivity|].
  rewrite skipn_app_tail.
  pose proof (take_while_length is_lang_char (drop_while is_space s5)) as Ln. rewrite Tn in Ln.
  replace (length (z :: name) - length (drop_while is_space s5)) with 0 by lia. cbn [skipn].
  rewrite forallb_app, (all_crlf_spaces tl Ht), andb_true_r. reflexivity.
Qed.

(* ---- free text (descriptions, doc-string content) ---- *)
Lemma unescape_tail m a t : all_crlf t -> unescape_docstring m (a ++ t) = unescape_docstring m a ++ t.
Proof.
  intros Ht. unfold unescape_docstring. destruct (ms_sep m) as [sep|]; [|reflexivity].
  destruct (str_eqb sep DQ3); [apply replace_all_tail; [discriminate | reflexivity | exact Ht]|].
  destruct (str_eqb sep BT3); [apply replace_all_tail; [discriminate | reflexivity | exact Ht] | reflexivity].
Qed.
Lemma unescape_nil m : unescape_docstring m [] = [].
Proof. unfold unescape_docstring. destruct (ms_sep m); [|reflexivity]. destruct (str_eqb _ _); [reflexivity|]. destruct (str_eqb _ _); reflexivity. Qed.

Section Other.
  Variable c : str.
  Variable n : nat.
  Variable tl : str.
  Hypothesis Ht : all_crlf tl.
  Let l := make_line (c ++ tl) n.
  Let l0 := make_line c n.

  Lemma other_text_tail m i :
    rstrip_crlf (unescape_docstring m (get_line_text l (Some i))) = rstrip_crlf (unescape_docstring m (get_line_text l0 (Some i))).
  Proof.
    assert (G : forall a t, all_crlf t -> rstrip_crlf (unescape_docstring m (a ++ t)) = rstrip_crlf (unescape_docstring m a)).
    { intros a t H. rewrite (unescape_tail m a t H). apply rstrip_crlf_tail, H. }
    unfold l, l0, get_line_text. destruct (is_blank_text c) eqn:B.
    - (* a blank line: everything that could remain is terminator *)
      assert (I0 : l_indent (make_line c n) = length c).
      { unfold make_line. cbn [l_indent]. unfold lstrip. rewrite (drop_while_all _ _ B). cbn. lia. }
      assert (I1 : l_indent (make_line (c ++ tl) n) = length c + length tl).
      { unfold make_line. cbn [l_indent]. rewrite (lstrip_tail c tl Ht). unfold is_blank_text in B. rewrite B. rewrite app_length. cbn. lia. }
      rewrite (trimmed_tail c n tl Ht), B, (trimmed0_blank c n B), I0, I1.
      unfold make_line. cbn [l_text]. rewrite skipn_app_tail.
      destruct (length c + length tl <? i) eqn:E1; destruct (length c <? i) eqn:E2.
      + reflexivity.
      + apply Nat.ltb_lt in E1. apply Nat.ltb_ge in E2. lia.
      + apply Nat.ltb_lt in E2. rewrite (skipn_all2 c) by lia. cbn [app].
        rewrite <- (app_nil_l (skipn (i - length c) tl)). rewrite G by (apply all_crlf_skipn, Ht). reflexivity.
      + apply G, all_crlf_skipn, Ht.
    - rewrite (indent_tail c n tl Ht B), (trimmed_tail c n tl Ht), B.
      destruct (l_indent (make_line c n) <? i).
      + apply G, Ht.
      + unfold make_line. cbn [l_text]. rewrite skipn_app_tail. apply G, all_crlf_skipn, Ht.
  Qed.
End Other.

(* ---- the matcher ---- *)
Require Import BuilderErase PipelineFacts Dialects.

Definition with_line (l : gline) (t : token) : token :=
  mk_token (Some l) (tk_loc t) (m_type t) (m_text t) (m_keyword t) (m_ktype t) (m_indent t) (m_items t) (m_dialect t).

Definition eff_ind (t : token) (ind : option nat) : nat :=
  match ind with Some i => i | None => match tk_line t with Some l => l_indent l | None => 0 end end.
Lemma sm_eq m t t' ty text text' kw kt ind ind' items :
  tk_loc t = tk_loc t' -> option_map rstrip_crlf text = option_map rstrip_crlf text' -> eff_ind t ind = eff_ind t' ind' ->
  terase (set_matched m t ty text kw kt ind items) = terase (set_matched m t' ty text' kw kt ind' items).
Proof.
  intros L T I. unfold set_matched, terase. cbn [tk_loc m_type m_text m_keyword m_ktype m_indent m_items m_dialect].
  unfold eff_ind in I. rewrite L, T, I. reflexivity.
Qed.

(* side-condition on the dialect table: no keyword is empty or contains a CR or LF *)
Definition kw_plain (k : str) : bool := match k with [] => false | _ => forallb (fun c => negb (is_crlf c)) k end.
Definition dialect_kw_plain (d : dialect) : bool :=
  forallb kw_plain (d_feature d ++ d_rule d ++ d_background d ++ d_scenario d ++ d_scenarioOutline d ++ d_examples d ++ step_keywords d).
Lemma dialects_kw_plain : forallb dialect_kw_plain dialects = true.
Proof. vm_compute. reflexivity. Qed.

Definition MI (m : mstate) : Prop := wf_ms m /\ match ms_sep m with Some s => nocrlf s /\ s <> [] | None => True end.

Lemma wf_dialect_in' m : wf_ms m -> In (ms_dialect m) dialects.
Proof. intros [_ W]. unfold find_dialect in W. apply find_some in W. tauto. Qed.

Lemma kw_plain_spec k : kw_plain k = true -> nocrlf k /\ k <> [].
Proof. destruct k as [|a k]; [discriminate|]. intros H. split; [exact H | discriminate]. Qed.

Lemma kws_plain m k : MI m ->
  In k (d_feature (ms_dialect m) ++ d_rule (ms_dialect m) ++ d_background (ms_dialect m) ++ d_scenario (ms_dialect m)
        ++ d_scenarioOutline (ms_dialect m) ++ d_examples (ms_dialect m) ++ step_keywords (ms_dialect m)) -> nocrlf k /\ k <> [].
Proof.
  intros [W _] Hk. pose proof dialects_kw_plain as A. rewrite forallb_forall in A.
  specialize (A _ (wf_dialect_in' m W)). unfold dialect_kw_plain in A. rewrite forallb_forall in A. apply kw_plain_spec, A, Hk.
Qed.

Section MatcherTail.
  Variable c : str.
  Variable n : nat.
  Variable tl : str.
  Hypothesis Ht : all_crlf tl.
  Let l := make_line (c ++ tl) n.
  Let l0 := make_line c n.

  Lemma nb_sw p : p <> [] -> line_startswith l0 p = true -> is_blank_text c = false.
  Proof.
    intros Np H. destruct (is_blank_text c) eqn:B; [|reflexivity]. unfold line_startswith, l0 in H.
    rewrite (trimmed0_blank c n B) in H. destruct p; [congruence | discriminate H].
  Qed.
  Lemma nb_title k : startswith_title_keyword l0 k = true -> is_blank_text c = false.
  Proof. intros H. apply (nb_sw (k ++ [COLON])); [destruct k; discriminate | exact H]. Qed.

  Lemma ftk_tail ks : (forall k, In k ks -> nocrlf k) -> first_title_keyword l ks = first_title_keyword l0 ks.
  Proof.
    induction ks as [|k ks IH]; intros H; cbn [first_title_keyword]; [reflexivity|].
    unfold l, l0. rewrite (title_tail c n tl Ht k (H k (or_introl eq_refl))).
    destruct (startswith_title_keyword (make_line c n) k); [reflexivity|]. apply IH. intros k' Hk'. apply H. now right.
  Qed.
  Lemma ftk_nonblank ks k : first_title_keyword l0 ks = Some k -> is_blank_text c = false.
  Proof.
    induction ks as [|k0 ks IH]; cbn [first_title_keyword]; [discriminate|].
    destruct (startswith_title_keyword l0 k0) eqn:E; [intros _; exact (nb_title k0 E) | exact IH].
  Qed.
  Lemma fp_tail ks : (forall k, In k ks -> nocrlf k) -> first_prefix l ks = first_prefix l0 ks.
  Proof.
    induction ks as [|k ks IH]; intros H; cbn [first_prefix]; [reflexivity|].
    unfold l, l0. rewrite (startswith_tail c n tl Ht k (H k (or_introl eq_refl))).
    destruct (line_startswith (make_line c n) k); [reflexivity|]. apply IH. intros k' Hk'. apply H. now right.
  Qed.
  Lemma fp_nonblank ks k : (forall k, In k ks -> k <> []) -> first_prefix l0 ks = Some k -> is_blank_text c = false.
  Proof.
    induction ks as [|k0 ks IH]; intros H; cbn [first_prefix]; [discriminate|].
    destruct (line_startswith l0 k0) eqn:E; [intros _; exact (nb_sw k0 (H k0 (or_introl eq_refl)) E)|].
    apply IH. intros k' Hk'. apply H. now right.
  Qed.
End MatcherTail.

Definition mout_rel (t : token) (l0 : gline) (o o0 : mout) : Prop :=
  match o, o0 with
  | MNo, MNo => True
  | MYes t1 m1, MYes t0 m0 => m1 = m0 /\ MI m1 /\ terase t1 = terase t0 /\ tk_line t1 = tk_line t /\ tk_line t0 = Some l0
  | MErr e t1 m1, MErr e0 t0 m0 => e = e0 /\ m1 = m0 /\ MI m1 /\ terase t1 = terase t0 /\ tk_line t1 = tk_line t /\ tk_line t0 = Some l0
  | _, _ => False
  end.

Section MatcherMain.
  Variable c : str.
  Variable n : nat.
  Variable tl : str.
  Hypothesis Ht : all_crlf tl.
  Notation l := (make_line (c ++ tl) n).
  Notation l0 := (make_line c n).
  Variable m : mstate.
  Hypothesis Hm : MI m.
  Variable t : token.
  Hypothesis Hl : tk_line t = Some l.
  Notation t0 := (with_line l0 t).

  Lemma yes_rel ty text text' kw kt ind ind' items m1 :
    MI m1 -> option_map rstrip_crlf text = option_map rstrip_crlf text' -> eff_ind t ind = eff_ind t0 ind' ->
    mout_rel t l0 (MYes (set_matched m1 t ty text kw kt ind items) m1) (MYes (set_matched m1 t0 ty text' kw kt ind' items) m1).
  Proof.
    intros M1 T I. cbn [mout_rel]. split; [reflexivity|]. split; [exact M1|]. split; [apply sm_eq; [reflexivity | exact T | exact I]|].
    split; reflexivity.
  Qed.
  Lemma ind_none : is_blank_text c = false -> eff_ind t None = eff_ind t0 None.
  Proof. intros B. unfold eff_ind. rewrite Hl. cbn [tk_line with_line]. apply (indent_tail c n tl Ht B). Qed.

  Lemma title_rel ty ks : (forall k, In k ks -> nocrlf k) ->
    mout_rel t l0 (match_title_line m t l ty ks) (match_title_line m t0 l0 ty ks).
  Proof.
    intros Hk. unfold match_title_line. rewrite (ftk_tail c n tl Ht ks Hk).
    destruct (first_title_keyword l0 ks) as [k|] eqn:F; [|exact I].
    apply yes_rel; [exact Hm | now rewrite (rest_tail c n tl Ht) | apply ind_none, (ftk_nonblank c n ks k F)].
  Qed.

  Lemma docsep_rel sep b : nocrlf sep -> sep <> [] ->
    mout_rel t l0 (match_docsep m t l sep b) (match_docsep m t0 l0 sep b).
  Proof.
    intros Ns Ne. unfold match_docsep. rewrite (startswith_tail c n tl Ht sep Ns).
    destruct (line_startswith l0 sep) eqn:S; [|exact I].
    pose proof (nb_sw c n sep Ne S) as B. destruct b.
    - rewrite (indent_tail c n tl Ht B), (rest_tail c n tl Ht).
      apply yes_rel; [split; [apply Hm | exact (conj Ns Ne)] | reflexivity | apply ind_none, B].
    - apply yes_rel; [split; [apply Hm | exact Logic.I] | reflexivity | apply ind_none, B].
  Qed.
End MatcherMain.

Section MatcherAll.
  Variable c : str.
  Variable n : nat.
  Variable tl : str.
  Hypothesis Ht : all_crlf tl.
  Notation l := (make_line (c ++ tl) n).
  Notation l0 := (make_line c n).
  Variable m : mstate.
  Hypothesis Hm : MI m.
  Variable t : token.
  Hypothesis Hl : tk_line t = Some l.
  Notation t0 := (with_line l0 t).

  Local Ltac kws := intros k Hk; apply (kws_plain m k Hm); repeat (apply in_or_app; (left; exact Hk) || right); try exact Hk.

  Theorem matcher_tail k : mout_rel t l0 (matcher dialects k m t) (matcher dialects k m t0).
  Proof.
    unfold matcher. rewrite Hl. cbn [tk_line with_line].
    destruct k.
    - (* EOF *) exact I.
    - (* Empty *) rewrite (empty_tail c n tl Ht). destruct (line_is_empty l0); [|exact I].
      apply yes_rel; [exact Hm | reflexivity | reflexivity].
    - (* Comment *) rewrite (startswith_tail c n tl Ht [HASH] eq_refl). destruct (line_startswith l0 [HASH]); [|exact I].
      apply yes_rel; [exact Hm | cbn [option_map]; f_equal; apply (text_tail c n tl Ht) | reflexivity].
    - (* TagLine *) rewrite (startswith_tail c n tl Ht [AT] eq_refl). destruct (line_startswith l0 [AT]) eqn:S; [|exact I].
      pose proof (nb_sw c n [AT] ltac:(discriminate) S) as B.
      rewrite (line_tags_tail c n tl Ht). destruct (line_tags l0) as [items|col].
      + apply yes_rel; [exact Hm | reflexivity | apply (ind_none c n tl Ht t Hl B)].
      + cbn [mout_rel]. split; [reflexivity|]. split; [reflexivity|]. split; [exact Hm|]. split; [reflexivity|]. split; [reflexivity | reflexivity].
    - (* FeatureLine *) apply title_rel; auto. intros k Hk. apply (kws_plain m k Hm). apply in_or_app. now left.
    - (* RuleLine *) apply title_rel; auto. intros k Hk. apply (kws_plain m k Hm). apply in_or_app. right. apply in_or_app. now left.
    - (* BackgroundLine *) apply title_rel; auto. intros k Hk. apply (kws_plain m k Hm). do 2 (apply in_or_app; right). apply in_or_app. now left.
    - (* ScenarioLine *)
      assert (K1 : forall k, In k (d_scenario (ms_dialect m)) -> nocrlf k).
      { intros k Hk. apply (kws_plain m k Hm). do 3 (apply in_or_app; right). apply in_or_app. now left. }
      assert (K2 : forall k, In k (d_scenarioOutline (ms_dialect m)) -> nocrlf k).
      { intros k Hk. apply (kws_plain m k Hm). do 4 (apply in_or_app; right). apply in_or_app. now left. }
      pose proof (title_rel c n tl Ht m Hm t Hl KScenarioLine _ K1) as R1.
      pose proof (title_rel c n tl Ht m Hm t Hl KScenarioLine _ K2) as R2.
      destruct (match_title_line m t l KScenarioLine (d_scenario (ms_dialect m))) as [|ta ma|ea ta ma],
               (match_title_line m t0 l0 KScenarioLine (d_scenario (ms_dialect m))) as [|tb mb|eb tb mb]; try contradiction; auto.
    - (* ExamplesLine *) apply title_rel; auto. intros k Hk. apply (kws_plain m k Hm). do 5 (apply in_or_app; right). apply in_or_app. now left.
    - (* StepLine *)
      assert (K : forall k, In k (step_keywords (ms_dialect m)) -> nocrlf k /\ k <> []).
      { intros k Hk. apply (kws_plain m k Hm). do 6 (apply in_or_app; right). exact Hk. }
      rewrite (fp_tail c n tl Ht _ (fun k Hk => proj1 (K k Hk))).
      destruct (first_prefix l0 (step_keywords (ms_dialect m))) as [k|] eqn:F; [|exact I].
      pose proof (fp_nonblank c n _ k (fun k Hk => proj2 (K k Hk)) F) as B.
      apply yes_rel; [exact Hm | now rewrite (rest_tail c n tl Ht) | apply (ind_none c n tl Ht t Hl B)].
    - (* DocStringSeparator *)
      destruct (ms_sep m) as [sep|] eqn:Sp.
      + pose proof Hm as [_ Ns]. rewrite Sp in Ns. destruct Ns as [Ns Ne]. apply docsep_rel; auto.
      + pose proof (docsep_rel c n tl Ht m Hm t Hl DQ3 true eq_refl ltac:(discriminate)) as R1.
        pose proof (docsep_rel c n tl Ht m Hm t Hl BT3 true eq_refl ltac:(discriminate)) as R2.
        destruct (match_docsep m t l DQ3 true) as [|ta ma|ea ta ma], (match_docsep m t0 l0 DQ3 true) as [|tb mb|eb tb mb]; try contradiction; auto.
    - (* TableRow *) rewrite (startswith_tail c n tl Ht [PIPE] eq_refl). destruct (line_startswith l0 [PIPE]) eqn:S; [|exact I].
      pose proof (nb_sw c n [PIPE] ltac:(discriminate) S) as B. rewrite (table_cells_tail c n tl Ht).
      apply yes_rel; [exact Hm | reflexivity | apply (ind_none c n tl Ht t Hl B)].
    - (* Language *)
      assert (E : language_header (get_line_text l None) = language_header (get_line_text l0 None)).
      { cbn [get_line_text]. rewrite (trimmed_tail c n tl Ht). destruct (is_blank_text c) eqn:B.
        - now rewrite (trimmed0_blank c n B).
        - apply language_header_tail, Ht. }
      rewrite E. destruct (language_header (get_line_text l0 None)) as [name|] eqn:Lh; [|exact I].
      assert (B : is_blank_text c = false).
      { destruct (is_blank_text c) eqn:B; [|reflexivity]. cbn [get_line_text] in Lh. rewrite (trimmed0_blank c n B) in Lh. discriminate Lh. }
      pose proof (ind_none c n tl Ht t Hl B) as In0.
      assert (Te : terase (set_matched m t KLanguage (Some name) None None None []) = terase (set_matched m t0 KLanguage (Some name) None None None []))
        by (apply sm_eq; [reflexivity | reflexivity | exact In0]).
      destruct (find_dialect dialects name) as [d|] eqn:Fd.
      + cbn [mout_rel]. split; [reflexivity|]. split; [|split; [exact Te | split; reflexivity]].
        destruct Hm as [[D0 _] Sp]. split; [split; [exact D0 | exact Fd] | exact Sp].
      + cbn [mout_rel]. split; [|split; [reflexivity | split; [exact Hm | split; [exact Te | split; reflexivity]]]].
        f_equal. unfold set_matched. cbn [tk_loc]. unfold eff_ind in In0. rewrite Hl in *. cbn [tk_line with_line] in *. rewrite In0. reflexivity.
    - (* Other *)
      apply yes_rel; [exact Hm | cbn [option_map]; f_equal; apply (other_text_tail c n tl Ht) | reflexivity].
  Qed.
End MatcherAll.
