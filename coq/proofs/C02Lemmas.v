(* C02: instantiation of the general nesting lemma to the two instances of the
   interpreter (kind-level stub, real pipeline) over the regenerated table. *)
From Coq Require Import List Bool Arith Lia.
Import ListNotations.
Require Import Kinds Regex Grammar RefSem Automaton AutoFacts NestingDefs NestingCert Nesting TableFacts
               Stub Table PyStr Line Matcher MatcherFacts Builder Pipeline Dialects.

Lemma find_in_find_state {Tok MS BS Err} (P : params Tok MS BS Err) s :
  find_in (Automaton.table P) s = find_state P s.
Proof. reflexivity. Qed.

(* states_total, read as the hypothesis of Nesting *)
Lemma total_of_states_total {Tok MS BS Err} (P : params Tok MS BS Err) :
  states_total (Automaton.table P) = true ->
  forall x y, In x (Automaton.table P) -> In y (s_tests x) ->
    (find_state P (t_tgt y) = None <-> t_kind y = KEOF).
Proof.
  intros H x y Hx Hy. unfold states_total in H. apply andb_prop in H as [H _].
  rewrite forallb_forall in H. specialize (H x Hx). apply andb_prop in H as [H _].
  rewrite forallb_forall in H. specialize (H y Hy).
  change (find_in (Automaton.table P) (t_tgt y)) with (find_state P (t_tgt y)) in H.
  destruct (find_state P (t_tgt y)).
  - apply negb_true_iff in H. split; [discriminate|]. intros E. rewrite E in H. discriminate.
  - apply kind_beq_eq in H. split; auto.
Qed.

(* ---- stub instance ---- *)
Definition sP := stub_params Table.table.

Lemma stub_eof k m t : is_eof sP (mtok (matchf sP k m t)) = is_eof sP t.
Proof. reflexivity. Qed.

Lemma stub_start : find_state sP (Automaton.start_state sP) <> None.
Proof. vm_compute. discriminate. Qed.

Lemma stub_nesting stop w c :
  Stub.run stop w = Ok tt c -> valid_events (abs c) = true.
Proof.
  intros H. unfold Stub.run, run_on in H.
  eapply (nesting_sound sP alpha alpha_consistent (total_of_states_total sP states_total_ok) stub_eof stub_start); eauto.
Qed.

(* ---- real pipeline ---- *)
Definition rP := pipeline_params Table.table.

Lemma pipe_eof k m t : is_eof rP (mtok (matchf rP k m t)) = is_eof rP t.
Proof.
  simpl. unfold p_matchf. pose proof (matcher_line dialects k m t) as H.
  destruct (matcher dialects k m t); simpl; auto; unfold tok_is_eof; now rewrite H.
Qed.

Lemma pipe_start : find_state rP (Automaton.start_state rP) <> None.
Proof. vm_compute. discriminate. Qed.

Lemma pipeline_nesting stop toks m b c :
  parse_tokens stop toks m b = Ok tt c -> valid_events (abs c) = true.
Proof.
  intros H. unfold parse_tokens, parse_tokens_with in H.
  eapply (nesting_sound rP alpha alpha_consistent (total_of_states_total rP states_total_ok) pipe_eof pipe_start); eauto.
Qed.
