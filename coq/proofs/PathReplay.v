(* A parse that returns normally has driven the builder along a path of the transition table:
   the builder state it ends in is the result of replaying, test by test, the productions of the
   tests on some path from the start state to the target of an #EOF test, every builder call having
   returned normally.  Generic in the interpreter's parameters; any certificate over the table
   (node shapes, nesting, id order) can then be lifted to the builder by induction over `reach`
   alone, without going through the interpreter again. *)
From Coq Require Import List Bool Arith Lia.
Import ListNotations.
Require Import Kinds Automaton AutoFacts.

Section PathReplay.
  Context {Tok MS BS Err : Type}.
  Variable P : params Tok MS BS Err.
  Notation ctx := (ctx Tok MS BS Err).
  Notation res := (res Tok MS BS Err).

  (* the matcher: an invariant of its state kept by successful matches; failed and raising matches, and
     successful matches of the `quiet` kinds (everything a look-ahead or a guarded test can match), leave the
     state as it is; what a successful match tells about state before, token and state after *)
  Variable MI : MS -> Prop.
  Hypothesis HI : forall k m t t' m', MI m -> matchf P k m t = MR true t' m' -> MI m'.
  Variable quiet : kind -> bool.
  Hypothesis Hfail : forall k m t t' m', matchf P k m t = MR false t' m' -> m' = m.
  Hypothesis Hraise : forall k m t e t' m', matchf P k m t = MRaise e t' m' -> m' = m.
  Hypothesis Hquiet : forall k m t t' m', quiet k = true -> matchf P k m t = MR true t' m' -> m' = m.
  Hypothesis Hla : forall h k, In h (lookaheads P) -> In k (la_expected h ++ la_skip h) -> quiet k = true.
  Hypothesis Hguard : forall x y, In x (table P) -> In y (s_tests x) -> t_guard y <> None -> quiet (t_kind y) = true.
  Variable tokP : kind -> MS -> Tok -> MS -> Prop.
  Hypothesis Hmatch : forall k m t t' m', MI m -> matchf P k m t = MR true t' m' -> tokP k m t' m'.
  Definition mtok' (r : mres Tok MS Err) : Tok := match r with MR _ t _ | MRaise _ t _ => t end.
  Hypothesis Heof : forall k m t, is_eof P (mtok' (matchf P k m t)) = is_eof P t.

  Definition bop (t : Tok) (p : prod) (b : BS) : option BS :=
    match (match p with PS r => b_start P r b | PE r => b_end P r b | PB => b_build P t b end) with
    | BOk b' => Some b'
    | _ => None
    end.
  Fixpoint bops (t : Tok) (ps : list prod) (b : BS) : option BS :=
    match ps with
    | [] => Some b
    | p :: r => match bop t p b with Some b' => bops t r b' | None => None end
    end.

  (* the path taken so far: matched token and test fired, oldest first; the last index is the matcher state *)
  Definition path := list (Tok * test).
  Inductive reach (b1 : BS) (m1 : MS) : nat -> BS -> path -> MS -> Prop :=
    | reach_start : reach b1 m1 (start_state P) b1 [] m1
    | reach_step s b l m x y t b' m' : reach b1 m1 s b l m -> In x (table P) -> s_id x = s -> In y (s_tests x) ->
        tokP (t_kind y) m t m' -> bops t (t_prods y) b = Some b' -> reach b1 m1 (t_tgt y) b' (l ++ [(t, y)]) m'.

  (* the builder events of a path *)
  Definition step_events (ty : Tok * test) : list (ev Tok) :=
    map (ev_of_prod (fst ty) (t_kind (snd ty))) (t_prods (snd ty)).
  Definition path_events (l : path) : list (ev Tok) := flat_map step_events l.
  Lemma path_events_snoc l ty : path_events (l ++ [ty]) = path_events l ++ step_events ty.
  Proof. unfold path_events. rewrite flat_map_app. cbn. now rewrite app_nil_r. Qed.

  Definition ends (s : nat) : Prop :=
    exists x y, In x (table P) /\ In y (s_tests x) /\ t_kind y = KEOF /\ t_tgt y = s.

  (* frame: builder state, log and matcher state untouched, a non-empty error list stays non-empty *)
  Definition fb (c0 c : ctx) : Prop :=
    bs c = bs c0 /\ log c = log c0 /\ (errs c0 <> [] -> errs c <> []) /\ ms c = ms c0.
  Lemma fb_refl c : fb c c. Proof. repeat split; auto. Qed.
  Lemma fb_same c0 c c' : fb c0 c -> bs c' = bs c -> log c' = log c -> errs c' = errs c -> ms c' = ms c -> fb c0 c'.
  Proof. intros (H1 & H2 & H3 & H4) B L E M. split; [congruence | split; [congruence | split; [rewrite E; auto | congruence]]]. Qed.
  Ltac fbs := cbv beta in *; match goal with H : fb _ _ |- fb _ _ => solve [eapply fb_same; [exact H | reflexivity | reflexivity | reflexivity | reflexivity]] end.

  Lemma add_error_fb c0 e c : fb c0 c ->
    sat (add_error P e c) (fun _ c' => fb c0 c' /\ errs c' <> []) (fun _ => True) True.
  Proof.
    intros H. unfold add_error. destruct (existsb _ _) eqn:E; simpl.
    - split; [exact H | eapply existsb_nonempty; eauto].
    - assert (N : errs c ++ [e] <> []) by (destruct (errs c); discriminate).
      assert (G : fb c0 (set_errs (errs c ++ [e]) c)) by (destruct H as (H1 & H2 & H3 & H4); split; [|split; [|split]]; simpl; auto).
      destruct (_ <? _); simpl; auto.
  Qed.

  Lemma read_fb c0 c : fb c0 c -> fb c0 (snd (read P c)).
  Proof. intros H. unfold read. destruct (queue c); [destruct (rest c)|]; simpl; fbs. Qed.

  (* one match: a failed (or raising, in collecting mode) match keeps the frame; a successful one exposes
     the matcher's own equation *)
  Lemma match_k_fb c0 stop k t c : fb c0 c ->
    sat (match_k P stop k t c)
        (fun r c' => is_eof P (snd r) = is_eof P t /\
           if fst r
           then bs c' = bs c0 /\ log c' = log c0 /\ (errs c0 <> [] -> errs c' <> [])
                /\ (is_eof P t = true -> k = KEOF) /\ matchf P k (ms c0) t = MR true (snd r) (ms c')
           else fb c0 c')
        (fun _ => True) True.
  Proof.
    intros H. unfold match_k.
    destruct (negb (kind_beq k KEOF) && is_eof P t) eqn:G; simpl.
    { split; [reflexivity | exact H]. }
    assert (K : is_eof P t = true -> k = KEOF).
    { intros E. rewrite E, andb_true_r in G. apply negb_false_iff in G. now apply kind_beq_eq. }
    pose proof (Heof k (ms c) t) as He. pose proof (Hfail k (ms c) t) as Hf. pose proof (Hraise k (ms c) t) as Hr.
    destruct H as (H1 & H2 & H3 & H4).
    destruct (matchf P k (ms c) t) as [b t' m'|e t' m'] eqn:M; simpl in *.
    - split; [exact He|]. destruct b.
      + rewrite <- H4. repeat split; auto.
      + rewrite (Hf _ _ eq_refl). repeat split; auto.
    - destruct stop; simpl; auto. rewrite (Hr _ _ _ eq_refl).
      eapply sat_bind; [apply (add_error_fb c0); repeat split; simpl; auto|].
      intros [] c' [G' _]. simpl. split; [exact He | exact G'].
  Qed.

  Lemma any_match_fb c0 stop ks : Forall (fun k => quiet k = true) ks -> forall t c, fb c0 c ->
    sat (any_match P stop ks t c) (fun _ c' => fb c0 c') (fun _ => True) True.
  Proof.
    induction ks as [|k ks IH]; intros Q t c H; simpl; [exact H|]. inversion Q as [|k0 ks0 Qk Qs]; subst.
    eapply sat_bind; [apply match_k_fb; exact H|]. intros [b t'] c' [_ G]. simpl in *.
    destruct b; simpl.
    - destruct G as (B & L & E & _ & M). pose proof (Hquiet _ _ _ _ _ Qk M) as Eq. repeat split; auto.
    - apply IH; auto.
  Qed.

  Lemma la_loop_fb c0 stop h : Forall (fun k => quiet k = true) (la_expected h ++ la_skip h) -> forall fuel c acc, fb c0 c ->
    sat (la_loop P fuel stop h c acc) (fun _ c' => fb c0 c') (fun _ => True) True.
  Proof.
    intros Q. apply Forall_app in Q as [Q1 Q2].
    induction fuel as [|f IH]; intros c acc H; simpl; [exact I|].
    pose proof (read_fb c0 c H) as R. destruct (read P c) as [t c1]. simpl in R.
    eapply sat_bind; [apply any_match_fb; [exact Q1 | exact R]|].
    intros [b t'] c2 H2. simpl. destruct b; simpl; [exact H2|].
    eapply sat_bind; [apply any_match_fb; [exact Q2 | exact H2]|].
    intros [b' t''] c3 H3. simpl. destruct b'; simpl; [|exact H3].
    apply IH. exact H3.
  Qed.

  Lemma lookahead_fb c0 stop h c : fb c0 c ->
    sat (lookahead P stop h c) (fun _ c' => fb c0 c') (fun _ => True) True.
  Proof.
    intros H. unfold lookahead. destruct (find_la P h) as [x|] eqn:F; [|exact I].
    assert (Hx : In x (lookaheads P)) by (unfold find_la in F; apply find_some in F; tauto).
    eapply sat_bind; [apply la_loop_fb; [apply Forall_forall; intros k Hk; eapply Hla; eauto | exact H]|]. intros r c1 G. simpl. fbs.
  Qed.

  (* one builder call: either it returned normally, or an error has been recorded *)
  Lemma b_call_replay stop f c :
    sat (b_call P stop f c)
        (fun _ c' => (errs c' <> [] \/ f (bs c) = BOk (bs c')) /\ log c' = log c /\ (errs c <> [] -> errs c' <> []) /\ ms c' = ms c)
        (fun _ => True) True.
  Proof.
    unfold b_call. destruct (f (bs c)) as [b'|e b'|]; simpl; [split; [now right | auto] | | exact I].
    destruct stop; simpl; [exact I|].
    unfold add_error. destruct (existsb _ _) eqn:E; simpl.
    - split; [left; eapply existsb_nonempty; eauto | auto].
    - assert (N : errs c ++ [e] <> []) by (destruct (errs c); discriminate).
      destruct (_ <? _); simpl; auto.
  Qed.

  Lemma exec_replay stop t k : forall ps c,
    sat (exec P stop t k ps c)
        (fun _ c' => (errs c' <> [] \/ bops t ps (bs c) = Some (bs c'))
                     /\ log c' = rev (map (ev_of_prod t k) ps) ++ log c /\ (errs c <> [] -> errs c' <> []) /\ ms c' = ms c)
        (fun _ => True) True.
  Proof.
    induction ps as [|p ps IH]; intros c; simpl; [split; [now right | auto]|].
    eapply sat_bind with (Q1 := fun _ c' => (errs c' <> [] \/ bop t p (bs c) = Some (bs c'))
                                            /\ log c' = ev_of_prod t k p :: log c /\ (errs c <> [] -> errs c' <> []) /\ ms c' = ms c).
    - unfold bop. destruct p; simpl;
        (eapply sat_weaken; [eapply b_call_replay | | auto | auto]; simpl; intros _ c' ([H|H] & L & M & Ms); (split; [|split; [exact L | split; [exact M | exact Ms]]]);
         [now left | right; rewrite H; reflexivity]).
    - intros _ c' (H1 & L1 & H2 & M1).
      eapply sat_weaken; [apply IH | | auto | auto]. simpl.
      intros _ c'' (H3 & L3 & H4 & M3). split; [|split; [|split; [auto | congruence]]].
      + destruct H1 as [H1|H1]; [left; auto|]. destruct H3 as [H3|H3]; [now left|]. right. rewrite H1. exact H3.
      + rewrite L3, L1, <- app_assoc. reflexivity.
  Qed.

  Section State.
    Variable b1 : BS.
    Variable m1 : MS.
    Variable log0 : list (ev Tok).
    Definition InvR (s : nat) (c : ctx) : Prop :=
      errs c <> [] \/ (MI (ms c) /\ exists l, reach b1 m1 s (bs c) l (ms c) /\ log c = rev (path_events l) ++ log0).

    Lemma InvR_fb s c c' : fb c c' -> InvR s c -> InvR s c'.
    Proof. intros (B & L & M & Ms) [H|(Ic & l & R & Hl)]; [left; auto | right; rewrite Ms, B, L; split; [auto|]; exists l; auto]. Qed.

    Lemma run_tests_reach stop x c0 e : In x (table P) -> InvR (s_id x) c0 ->
      forall tests t c, incl tests (s_tests x) -> fb c0 c -> is_eof P t = e ->
      sat (run_tests P stop tests t c)
          (fun r c' => match fst r with
                       | Some s' => InvR s' c' /\ (e = true -> ends s')
                       | None => fb c0 c'
                       end /\ (errs c0 <> [] -> errs c' <> []))
          (fun _ => True) True.
    Proof.
      intros Hx HI0.
      induction tests as [|y ys IH]; intros t c Hincl Hfb He; simpl.
      { split; [exact Hfb | apply Hfb]. }
      assert (Hy : In y (s_tests x)) by (apply Hincl; now left).
      assert (Hys : incl ys (s_tests x)) by (intros z Hz; apply Hincl; now right).
      eapply sat_bind; [apply match_k_fb; exact Hfb|].
      intros [b t1] c1 (He1 & Hk). simpl in *.
      destruct b; [|apply IH; auto; congruence].
      destruct Hk as (B1 & L1 & E1 & Hke & Mk).
      (* the test fires from a context whose builder, log and matcher state are those after the match *)
      assert (Taken : forall c2, bs c2 = bs c1 -> log c2 = log c1 -> ms c2 = ms c1 -> (errs c0 <> [] -> errs c2 <> []) ->
        sat (bind (exec P stop t1 (t_kind y) (t_prods y) c2) (fun _ c3 => Ok (Some (t_tgt y), t1) c3))
            (fun r c' => match fst r with
                         | Some s' => InvR s' c' /\ (e = true -> ends s')
                         | None => fb c0 c'
                         end /\ (errs c0 <> [] -> errs c' <> []))
            (fun _ => True) True).
      { intros c2 B2 L2 M2 E2.
        eapply sat_bind; [apply exec_replay|]. intros _ c3 (Hr & Hl & Hm & Hms). simpl.
        split; [split|].
        - destruct Hr as [Hr|Hr]; [now left|].
          destruct HI0 as [HI0|(Ic0 & l & HR & HL)]; [left; apply Hm, E2, HI0|].
          right. rewrite Hms, M2. split; [eapply HI; eauto|]. exists (l ++ [(t1, y)]). split.
          + eapply reach_step; eauto. rewrite B2, B1 in Hr. exact Hr.
          + rewrite Hl, L2, L1, HL, path_events_snoc, rev_app_distr, <- app_assoc. reflexivity.
        - intros Et. subst e. exists x, y. repeat split; auto.
        - intros N. apply Hm. apply E2. exact N. }
      destruct (t_guard y) as [h|] eqn:G.
      - assert (Qk : quiet (t_kind y) = true) by (apply (Hguard x y Hx Hy); rewrite G; discriminate).
        pose proof (Hquiet _ _ _ _ _ Qk Mk) as Eq.
        assert (Hfb1 : fb c0 c1) by (repeat split; auto).
        eapply sat_bind; [apply lookahead_fb; exact Hfb1|]. intros g c2 (B2 & L2 & E2 & M2). simpl.
        destruct g.
        + apply Taken; congruence || auto.
        + apply IH; auto; [repeat split; auto | congruence].
      - apply Taken; auto.
    Qed.

    Lemma find_state_in' s x : find_state P s = Some x -> In x (table P) /\ s_id x = s.
    Proof. unfold find_state. intros H. apply find_some in H as [H1 H2]. apply Nat.eqb_eq in H2. auto. Qed.

    Lemma match_token_reach stop s t c : InvR s c ->
      sat (match_token P stop s t c)
          (fun s' c' => InvR s' c' /\ (is_eof P t = true -> ends s' \/ errs c' <> [])
                        /\ (errs c <> [] -> errs c' <> []))
          (fun _ => True) True.
    Proof.
      intros HI0. unfold match_token.
      destruct (find_state P s) as [x|] eqn:F; [|exact I].
      destruct (find_state_in' _ _ F) as [Hx Hid]. subst s.
      eapply sat_bind.
      { eapply (run_tests_reach stop x c (is_eof P t)); eauto. apply incl_refl. apply fb_refl. }
      intros [o t'] c1 [H1 H2]. simpl in *. destruct o as [s'|].
      - destruct H1 as [I1 E1]. repeat split; auto.
      - destruct stop; simpl; auto.
        eapply sat_bind; [apply (add_error_fb (emit (EvX t' (s_id x)) c1)); apply fb_refl|].
        intros [] c3 [_ Hne]. simpl. repeat split.
        + now left.
        + intros _. now right.
        + intros _. exact Hne.
    Qed.

    Lemma loop_reach stop : forall fuel s c, InvR s c ->
      sat (loop P fuel stop s c)
          (fun s' c' => InvR s' c' /\ (ends s' \/ errs c' <> []) /\ (errs c <> [] -> errs c' <> []))
          (fun _ => True) True.
    Proof.
      induction fuel as [|f IH]; intros s c HI0; simpl; [exact I|].
      pose proof (read_fb c c (fb_refl c)) as R. destruct (read P c) as [t c1]. simpl in R.
      assert (HI1 : InvR s c1) by (eapply InvR_fb; eauto).
      destruct R as (_ & _ & R & _).
      eapply sat_bind; [apply match_token_reach; eauto|].
      intros s' c2 (I2 & E2 & M2). simpl.
      destruct (is_eof P t) eqn:Et.
      - simpl. repeat split; auto.
      - eapply sat_weaken; [apply IH; auto | | auto | auto]. simpl. intros s'' c'' (A & B & C). repeat split; auto.
    Qed.
  End State.

  (* a normal return: the start of the document, a path to the target of an #EOF test, the end of the document;
     the interpreter's event log is exactly the events of that path *)
  Theorem path_replay stop toks m b c : MI m -> parse P stop toks m b = Ok tt c ->
    exists b1 s b2 l m2, b_start P RGherkinDocument b = BOk b1 /\ reach b1 m s b2 l m2 /\ ends s
                      /\ b_end P RGherkinDocument b2 = BOk (bs c)
                      /\ events c = EvS RGherkinDocument :: path_events l ++ [EvE RGherkinDocument].
  Proof.
    unfold parse. intros Im H.
    set (c0 := emit (EvS RGherkinDocument) (init_ctx toks m b)) in *.
    pose proof (b_call_replay stop (b_start P RGherkinDocument) c0) as S1.
    destruct (b_call P stop (b_start P RGherkinDocument) c0) as [[] c1| | | |]; cbn [bind] in H; try discriminate.
    simpl in S1. destruct S1 as (S1 & L1 & _ & Ms1).
    assert (I1 : InvR (bs c1) m [EvS RGherkinDocument] (start_state P) c1).
    { destruct S1 as [S1|S1]; [now left | right; rewrite Ms1; split; [exact Im|]; exists []; split; [constructor | exact L1]]. }
    pose proof (loop_reach (bs c1) m [EvS RGherkinDocument] stop (S (S (length toks))) _ _ I1) as L.
    destruct (loop P (S (S (length toks))) stop (start_state P) c1) as [s' c2| | | |]; cbn [bind] in H; try discriminate.
    simpl in L. destruct L as (I2 & Hfin & M2).
    set (c2' := emit (EvE RGherkinDocument) c2) in *.
    pose proof (b_call_replay stop (b_end P RGherkinDocument) c2') as S3.
    destruct (b_call P stop (b_end P RGherkinDocument) c2') as [[] c3| | | |]; cbn [bind] in H; try discriminate.
    simpl in S3. destruct (errs c3) eqn:Ee; [|discriminate]. inversion H; subst c3. clear H.
    destruct S3 as (S3 & L3 & M3 & _).
    assert (N2 : errs c2 = []).
    { destruct (errs c2) eqn:E2; auto. exfalso. apply M3; [discriminate | reflexivity]. }
    assert (N1 : errs c1 = []).
    { destruct (errs c1) eqn:E1; auto. exfalso. rewrite N2 in M2. apply M2; [discriminate | reflexivity]. }
    destruct S1 as [S1|S1]; [rewrite N1 in S1; congruence|].
    destruct I2 as [I2|(_ & l & I2 & Hl)]; [congruence|].
    destruct Hfin as [Hfin|Hfin]; [|congruence].
    destruct S3 as [S3|S3]; [congruence|].
    exists (bs c1), s', (bs c2), l, (ms c2). repeat split; auto.
    unfold events. rewrite L3. unfold c2'. cbn [log emit]. rewrite Hl. cbn [rev]. rewrite rev_app_distr, rev_involutive. reflexivity.
  Qed.
End PathReplay.
