(* C02 (nesting): abstract interpretation of a transition table over rule
   stacks: definitions.  `alpha` (one stack of open rules with residual bodies
   per state) is computed by an unverified explorer; `stack_consistent` checks
   every transition against it. *)
From Coq Require Import List Bool Arith.
Import ListNotations.
Require Import Kinds Regex Grammar RefSem.

Definition frame_beq (a b : frame) : bool := rule_beq (fst a) (fst b) && re_beq (snd a) (snd b).
Definition stack_beq := list_beq frame_beq.

Lemma list_beq_eq {A} (eqb : A -> A -> bool) :
  (forall x y, eqb x y = true -> x = y) -> forall a b, list_beq eqb a b = true -> a = b.
Proof.
  intros H. induction a as [|x a IH]; destruct b as [|y b]; simpl; try discriminate; auto.
  intros E. apply andb_prop in E as [E1 E2]. f_equal; auto.
Qed.
Lemma stack_beq_eq a b : stack_beq a b = true -> a = b.
Proof.
  apply list_beq_eq. intros [x r] [y r']. unfold frame_beq. simpl. intros E.
  apply andb_prop in E as [E1 E2]. apply rule_beq_eq in E1. apply re_beq_eq in E2. congruence.
Qed.

Definition prod_aev (k : kind) (p : prod) : aev :=
  match p with PS r => AS r | PE r => AE r | PB => AB k end.
Definition apply_test (stk : list frame) (x : test) : option (list frame) :=
  apply_aevs stk (map (prod_aev (t_kind x)) (t_prods x)).

Definition amap := list (nat * list frame).
Fixpoint alookup (s : nat) (a : amap) : option (list frame) :=
  match a with
  | [] => None
  | (n, stk) :: t => if Nat.eqb n s then Some stk else alookup s t
  end.

Section WithTable.
  Variable tbl : list st.
  Definition find_st (s : nat) := find (fun x => Nat.eqb (s_id x) s) tbl.

  Fixpoint explore_alpha (fuel : nat) (todo : list (nat * list frame)) (a : amap) : amap :=
    match fuel with
    | 0 => a
    | S f =>
      match todo with
      | [] => a
      | (s, stk) :: t =>
        match alookup s a with
        | Some _ => explore_alpha f t a
        | None =>
          let next := match find_st s with
                      | None => []
                      | Some x => flat_map (fun y => match apply_test stk y with
                                                     | Some stk' => [(t_tgt y, stk')]
                                                     | None => []
                                                     end) (s_tests x)
                      end in
          explore_alpha f (next ++ t) ((s, stk) :: a)
        end
      end
    end.

  (* every state of the table has a stack; every transition maps the stack of
     its source to the stack of its target; the error tail stays put *)
  Definition stack_consistent (s0 : nat) (a : amap) : bool :=
    match alookup s0 a, apply_aev [] (AS RGherkinDocument) with
    | Some stk0, Some stk0' => stack_beq stk0 stk0'
    | _, _ => false
    end
    && forallb (fun x =>
         match alookup (s_id x) a with
         | None => false
         | Some stk =>
           Nat.eqb (s_err x) (s_id x)
           && forallb (fun y =>
                match apply_test stk y with
                | None => false
                | Some stk' =>
                  match find_st (t_tgt y) with
                  | Some _ => match alookup (t_tgt y) a with
                              | Some stk'' => stack_beq stk' stk''
                              | None => false
                              end
                  | None =>
                    (* the end state: exactly the finished document is left *)
                    match apply_aev stk' (AE RGherkinDocument) with
                    | Some [] => true | _ => false end
                  end
                end) (s_tests x)
         end) tbl.
End WithTable.

