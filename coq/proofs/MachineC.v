(* The queue-free machine of Machine.v in error-collecting mode (the default of Parser.parse): errors raised by the
   matcher or the builder, and unexpected tokens, are appended to a list (unless a message-equal error is already
   there), the run goes on -- an unexpected token sends it to the state's recovery target -- and stops when the list
   grows beyond the cap.  MachineCEq.v proves that Parser.parse with stop_at_first_error = False computes this. *)
From Coq Require Import List Bool Arith.
Import ListNotations.
Require Import Kinds Automaton.

Section MachineC.
  Context {Tok MS BS Err : Type}.
  Variable P : params Tok MS BS Err.

  (* Parser.add_error: the new list, or the list that broke the cap *)
  Definition c_add (es : list Err) (e : Err) : list Err + list Err :=
    if existsb (err_same_msg P e) es then inl es
    else let es' := es ++ [e] in if error_cap P <? length es' then inr es' else inl es'.

  Inductive cr (A : Type) := CrOk (a : A) (es : list Err) | CrCap (es : list Err) (m : MS) | CrCrash.
  Arguments CrOk {A}. Arguments CrCap {A}. Arguments CrCrash {A}.

  Definition c_match (k : kind) (t : Tok) (m : MS) (es : list Err) : cr (bool * Tok * MS) :=
    if negb (kind_beq k KEOF) && is_eof P t then CrOk (false, t, m) es
    else match matchf P k m t with
         | MR b t' m' => CrOk (b, t', m') es
         | MRaise e t' m' =>
           match c_add es e with
           | inl es' => CrOk (false, t', m') es'
           | inr es' => CrCap es' m'
           end
         end.

  Fixpoint c_any (ks : list kind) (t : Tok) (m : MS) (es : list Err) : cr (bool * Tok * MS) :=
    match ks with
    | [] => CrOk (false, t, m) es
    | k :: ks' =>
      match c_match k t m es with
      | CrOk (true, t1, m1) es1 => CrOk (true, t1, m1) es1
      | CrOk (false, t1, m1) es1 => c_any ks' t1 m1 es1
      | CrCap es1 m1 => CrCap es1 m1
      | CrCrash => CrCrash
      end
    end.

  Fixpoint c_la_loop (h : la) (ups : list Tok) (m : MS) (es : list Err) : cr (bool * MS * list Tok) :=
    match ups with
    | [] => CrOk (false, m, []) es
    | t :: r =>
      match c_any (la_expected h) t m es with
      | CrOk (true, t1, m1) es1 => CrOk (true, m1, t1 :: r) es1
      | CrOk (false, t1, m1) es1 =>
        match c_any (la_skip h) t1 m1 es1 with
        | CrOk (true, t2, m2) es2 =>
          match c_la_loop h r m2 es2 with
          | CrOk (b, m3, r') es3 => CrOk (b, m3, t2 :: r') es3
          | CrCap es3 m3 => CrCap es3 m3
          | CrCrash => CrCrash
          end
        | CrOk (false, t2, m2) es2 => CrOk (false, m2, t2 :: r) es2
        | CrCap es2 m2 => CrCap es2 m2
        | CrCrash => CrCrash
        end
      | CrCap es1 m1 => CrCap es1 m1
      | CrCrash => CrCrash
      end
    end.
  Definition c_la (h : nat) (ups : list Tok) (m : MS) (es : list Err) : cr (bool * MS * list Tok) :=
    match find_la P h with
    | None => CrCrash
    | Some x => c_la_loop x ups m es
    end.

  Inductive co (A : Type) := CoOk (a : A) (m : MS) (b : BS) (es : list Err) | CoCap (es : list Err) (m : MS) (b : BS) | CoCrash.
  Arguments CoOk {A}. Arguments CoCap {A}. Arguments CoCrash {A}.

  Fixpoint c_exec (t : Tok) (ps : list prod) (m : MS) (b : BS) (es : list Err) : co unit :=
    match ps with
    | [] => CoOk tt m b es
    | p :: ps' =>
      match (match p with PS r => b_start P r b | PE r => b_end P r b | PB => b_build P t b end) with
      | BOk b' => c_exec t ps' m b' es
      | BRaise e b' =>
        match c_add es e with
        | inl es' => c_exec t ps' m b' es'
        | inr es' => CoCap es' m b'
        end
      | BCrash => CoCrash
      end
    end.

  (* the tests of one state; None: no test fired (the token comes back as the failed matches left it) *)
  Fixpoint c_tests (tests : list test) (t : Tok) (m : MS) (b : BS) (es : list Err) (ups : list Tok)
    : co (option nat * Tok * list Tok) :=
    match tests with
    | [] => CoOk (None, t, ups) m b es
    | x :: xs =>
      match c_match (t_kind x) t m es with
      | CrOk (true, t1, m1) es1 =>
        match t_guard x with
        | None =>
          match c_exec t1 (t_prods x) m1 b es1 with
          | CoOk _ m2 b2 es2 => CoOk (Some (t_tgt x), t1, ups) m2 b2 es2
          | CoCap es2 m2 b2 => CoCap es2 m2 b2
          | CoCrash => CoCrash
          end
        | Some h =>
          match c_la h ups m1 es1 with
          | CrOk (true, m2, ups') es2 =>
            match c_exec t1 (t_prods x) m2 b es2 with
            | CoOk _ m3 b3 es3 => CoOk (Some (t_tgt x), t1, ups') m3 b3 es3
            | CoCap es3 m3 b3 => CoCap es3 m3 b3
            | CoCrash => CoCrash
            end
          | CrOk (false, m2, ups') es2 => c_tests xs t1 m2 b es2 ups'
          | CrCap es2 m2 => CoCap es2 m2 b
          | CrCrash => CoCrash
          end
        end
      | CrOk (false, t1, m1) es1 => c_tests xs t1 m1 b es1 ups
      | CrCap es1 m1 => CoCap es1 m1 b
      | CrCrash => CoCrash
      end
    end.

  (* Parser.match_token: an unexpected token is recorded and the run goes on from the state's recovery target *)
  Definition c_step (s : nat) (t : Tok) (m : MS) (b : BS) (es : list Err) (ups : list Tok) : co (nat * list Tok) :=
    match find_state P s with
    | None => CoCrash
    | Some x =>
      match c_tests (s_tests x) t m b es ups with
      | CoOk (Some s', _, ups') m' b' es' => CoOk (s', ups') m' b' es'
      | CoOk (None, t1, ups') m' b' es' =>
        match c_add es' (mk_unexpected P t1 (s_expected x)) with
        | inl es2 => CoOk (s_err x, ups') m' b' es2
        | inr es2 => CoCap es2 m' b'
        end
      | CoCap es' m' b' => CoCap es' m' b'
      | CoCrash => CoCrash
      end
    end.

  Fixpoint c_loop (n : nat) (s : nat) (m : MS) (b : BS) (es : list Err) (ups : list Tok) : co nat :=
    match n with
    | 0 => CoCrash
    | S n' =>
      match ups with
      | [] => CoCrash
      | t :: r =>
        match c_step s t m b es r with
        | CoOk (s', r') m' b' es' => if is_eof P t then CoOk s' m' b' es' else c_loop n' s' m' b' es' r'
        | CoCap es' m' b' => CoCap es' m' b'
        | CoCrash => CoCrash
        end
      end
    end.

  (* one builder call outside the loop (start / end of the document) *)
  Definition c_call (f : BS -> bres BS Err) (m : MS) (b : BS) (es : list Err) : co unit :=
    match f b with
    | BOk b' => CoOk tt m b' es
    | BRaise e b' => match c_add es e with inl es' => CoOk tt m b' es' | inr es' => CoCap es' m b' end
    | BCrash => CoCrash
    end.

  (* outcome of the whole run: accepted (no error), or rejected with the list of errors *)
  Inductive cout := CAccept (m : MS) (b : BS) | CReject (es : list Err) (m : MS) (b : BS) | CCrash.

  Definition c_parse (toks : list Tok) (m : MS) (b : BS) : cout :=
    match c_call (b_start P RGherkinDocument) m b [] with
    | CoOk _ m1 b1 es1 =>
      match c_loop (S (S (length toks))) (start_state P) m1 b1 es1 (toks ++ [mk_eof P (S (length toks))]) with
      | CoOk _ m2 b2 es2 =>
        match c_call (b_end P RGherkinDocument) m2 b2 es2 with
        | CoOk _ m3 b3 [] => CAccept m3 b3
        | CoOk _ m3 b3 es3 => CReject es3 m3 b3
        | CoCap es3 m3 b3 => CReject es3 m3 b3
        | CoCrash => CCrash
        end
      | CoCap es2 m2 b2 => CReject es2 m2 b2
      | CoCrash => CCrash
      end
    | CoCap es1 m1 b1 => CReject es1 m1 b1
    | CoCrash => CCrash
    end.
End MachineC.

Arguments CrOk {MS Err A}. Arguments CrCap {MS Err A}. Arguments CrCrash {MS Err A}.
Arguments CoOk {MS BS Err A}. Arguments CoCap {MS BS Err A}. Arguments CoCrash {MS BS Err A}.
Arguments CAccept {MS BS Err}. Arguments CReject {MS BS Err}. Arguments CCrash {MS BS Err}.
