(* C03_conservation and C02_accepted_is_sentence about the same reading of the source: one list of (kind, line) pairs
   that covers the lines of the source in order, each line matched by the matcher as its kind, whose elements and
   comments are exactly the AST's, and whose kinds -- the end of file last -- form a sentence of gherkin.berp. *)
From Coq Require Import List Bool Arith Lia.
Import ListNotations.
Require Import Kinds Regex Grammar RefSem PyStr Line Matcher Ast Builder BuilderSafe AstIds Automaton AutoFacts Pipeline PipelineFacts Dialects
               Table TableFacts Bisim PathReplay Delivery DeliveryInst DenseMain ConserveDefs ConserveMain Sentence SentenceInst.

Lemma reach_kts_kinds b1 m1 s b l m : reach rP tok_step b1 m1 s b l m -> map fst (path_kts l) = path_kinds l.
Proof.
  induction 1 as [|s b l m x y t b' m' R IH Hx Hid Hy Ht Hb]; [reflexivity|].
  unfold path_kts, path_kinds in *. rewrite flat_map_app, !map_app, IH. f_equal.
  cbn [flat_map map]. rewrite app_nil_r. unfold step_kts. cbn [fst snd]. rewrite (builds_once_table x y Hx Hy). reflexivity.
Qed.

Theorem source_conservation_sentence stop m b src d m1 b1 n : wf_ms m -> parse_source stop m b src = POk d m1 b1 n ->
  exists kts : list (kind * token),
    map (fun kt => tkey (snd kt)) kts = source_keys src
    /\ Forall (fun kt => tok_made (fst kt) (snd kt)) kts
    /\ runR G (map fst kts) = true
    /\ doc_elems d = flat_map kt_elems kts
    /\ doc_comments d = flat_map kt_comments kts.
Proof.
  intros W. unfold parse_source. pose proof (source_delivery stop m b src W) as Dl. unfold parse_tokens, parse_tokens_with in *.
  destruct (parse rP stop (scan src) (reset_matcher dialects m) (reset_builder b)) as [[] c|e c|es c|c|] eqn:P; try discriminate.
  destruct (builder_result (bs c)) as [d0|] eqn:Br; [|discriminate]. intros H. inversion H; subst. clear H.
  destruct (path_replay rP wf_ms wf_ms_kept quiet_p p_fail p_raise p_quiet p_la p_guard tok_step pipe_step pipe_eof' _ _ _ _ _ (proj1 (reset_matcher_wf' m W)) P) as (b2 & s & b3 & l & m2 & Hs & R & He & Hend & Hev).
  destruct (reach_cinv b2 _ (start_cinv _ _ _ (reset_sep m) Hs) s b3 l m2 R) as [(rec & Hl & S & Ce & Cc & _) Ft].
  destruct (ends_doc3 s He) as (f & Hf & Hr). rewrite Hf in Hl. inversion Hl; subst rec.
  exists (path_kts l). split; [|split; [exact Ft | split; [|exact (final_conserve _ _ _ _ _ S Hr Ce Cc Hend Br)]]].
  - rewrite <- Dl. unfold delivered. rewrite Hev. cbn [flat_map]. rewrite flat_map_app. cbn. rewrite app_nil_r. symmetry. apply delivered_path.
  - rewrite (reach_kts_kinds _ _ _ _ _ _ R), <- nfa_language_eq.
    exact (reach_accepted rP tok_step table_in_nfa table_eof_leaves _ _ _ _ _ _ R He).
Qed.
