(* The abstract stack of DenseDefs, generic in the order pattern: which keys of a node (child rules *and*
   tokens) carry content, and in which order transform_node reads them.  Instances: the id order of C11
   (DenseDefs itself) and the element order of C03 (ConserveDefs). *)
From Coq Require Import List Bool Arith.
Import ListNotations.
Require Import Kinds PyStr Line Matcher Ast Builder DenseDefs.

Section Ord.
  Variable pat : rule -> list (key * bool).
  Variable rfree : rule -> bool.        (* rules whose value carries no content *)
  Variable tfree : kind -> bool.        (* token kinds that carry no content *)
  Variable xr : rule -> list (key * key). (* pairs of keys a node never holds together *)
  Variable fo : rule -> list key.         (* keys of which only the first item of a node carries content *)

  (* no item with key q can be present yet: q's position lies beyond the recorded progress *)
  Definition abs_empty (p : list (key * bool)) (st : pstate) (q : key) : bool :=
    match pindex p q with
    | Some (pos, _) => (fst st <? pos) || ((pos =? fst st) && negb (snd st))
    | None => false
    end.
  Definition xr_ok (f : aframe) (q : key) : bool :=
    forallb (fun pr => (if key_beq q (fst pr) then abs_empty (pat (af_rule f)) (af_st f) (snd pr) else true)
                       && (if key_beq q (snd pr) then abs_empty (pat (af_rule f)) (af_st f) (fst pr) else true))
            (xr (af_rule f)).

  Definition fo_ok (f : aframe) (q : key) : bool :=
    negb (existsb (key_beq q) (fo (af_rule f))) || abs_empty (pat (af_rule f)) (af_st f) q.

  Definition o_add (f : aframe) (q : key) (free : bool) : option pstate :=
    if xr_ok f q && fo_ok f q then
      match pindex (pat (af_rule f)) q with
      | Some _ => pstep (pat (af_rule f)) (af_st f) q
      | None => if free then Some (af_st f) else None
      end
    else None.

  (* a content-free item: either outside the pattern, or one more of a repeatable key that is already there *)
  Definition o_silent (f : aframe) (q : key) : option pstate :=
    if xr_ok f q then
      match pindex (pat (af_rule f)) q with
      | Some (_, many) => if many && negb (abs_empty (pat (af_rule f)) (af_st f) q) then Some (af_st f) else None
      | None => Some (af_st f)
      end
    else None.

  Definition o_prod (silent : bool) (k : kind) (p : prod) (stk : dstk) : option dstk :=
    match p with
    | PS x => match stk with [] => None | _ => Some (mk_aframe x (0, false) false false :: stk) end
    | PB =>
      match stk with
      | f :: tl => if kind_beq k KComment then Some stk
                   else match (if silent then o_silent f (KT k) else o_add f (KT k) (tfree k)) with
                        | Some st' => Some (mk_aframe (af_rule f) st' (af_line f || is_hdr_line (af_rule f) k) (af_hdr f) :: tl)
                        | None => None
                        end
      | [] => None
      end
    | PE x =>
      match stk with
      | f :: tl =>
        if rule_beq x (af_rule f)
           && (negb (is_header x) || af_line f)
           && (negb (needs_header x) || af_hdr f)
        then
          match tl with
          | pf :: tl' =>
            match o_add pf (KR x) (rfree x) with
            | Some st' => Some (mk_aframe (af_rule pf) st' (af_line pf) (af_hdr pf || is_hdr_of (af_rule pf) x) :: tl')
            | None => None
            end
          | [] => None
          end
        else None
      | [] => None
      end
    end.
  Fixpoint o_prods (silent : bool) (k : kind) (ps : list prod) (stk : dstk) : option dstk :=
    match ps with
    | [] => Some stk
    | p :: r => match o_prod silent k p stk with Some s' => o_prods silent k r s' | None => None end
    end.

  Variable tbl : list st.
  Variable sl : nat -> kind -> bool.      (* which tokens are content-free, by state and kind *)

  Definition ord_ok (s0 : nat) (b : dmap) : bool :=
    match dlookup s0 b with Some [f] => af_le aframe0 f | _ => false end
    && forallb (fun x =>
         match dlookup (s_id x) b with
         | None => false
         | Some stk =>
           forallb (fun y =>
             match o_prods (sl (s_id x) (t_kind y)) (t_kind y) (t_prods y) stk with
             | None => false
             | Some stk' => match dlookup (t_tgt y) b with Some rec => dstk_le stk' rec | None => false end
             end) (s_tests x)
         end) tbl.

  Definition ord_ends (b : dmap) : bool :=
    forallb (fun x => forallb (fun y =>
      negb (kind_beq (t_kind y) KEOF) ||
      match dlookup (t_tgt y) b with Some [f] => rule_beq (af_rule f) RGherkinDocument | _ => false end) (s_tests x)) tbl.

  (* ---- explorer (unverified) ---- *)
  Definition oround (b : dmap) : dmap :=
    fold_left (fun b x =>
      match dlookup (s_id x) b with
      | None => b
      | Some stk =>
        fold_left (fun b y =>
          match o_prods (sl (s_id x) (t_kind y)) (t_kind y) (t_prods y) stk with
          | Some stk' => dupdate (t_tgt y) stk' b
          | None => b
          end) (s_tests x) b
      end) tbl b.
  Fixpoint orounds (n : nat) (b : dmap) : dmap := match n with 0 => b | S n' => orounds n' (oround b) end.
End Ord.
