(* C03 (conservation): the elements of a document, read off the AST in source order, and read off the
   matched tokens in the order they were built. *)
From Coq Require Import List Bool Arith.
Import ListNotations.
Require Import Kinds PyStr Line Matcher Ast Builder DenseDefs OrdDefs.

(* an element of the document: a keyword line (feature, rule, background, scenario, examples, step) with the
   keyword as written and the trimmed rest of the line; a tag; a table row with its cells *)
Inductive elem :=
  | ELine (k : kind) (l : loc) (kw : str) (text : str)
  | ETag (l : loc) (name : str)
  | ERow (l : loc) (cells : list cell)
  | EText (s : str)           (* a non-blank line of free text: of a description or of a doc string's content *)
  | EDoc (l : loc) (delim : str) (media : option str).   (* the opening delimiter line of a doc string *)

(* the non-blank lines of a text *)
Definition nonblank (s : str) : bool := negb (forallb is_space s).
Definition text_elems (s : str) : list elem := map EText (filter nonblank (split_chr LF s)).

(* ---- read off the AST, in source order ---- *)
Definition tag_elems (ts : list tag) : list elem := map (fun t => ETag (tg_loc t) (tg_name t)) ts.
Definition row_elems (rs : list row) : list elem := map (fun r => ERow (r_loc r) (r_cells r)) rs.
Definition step_elems (s : step) : list elem :=
  ELine KStepLine (st_loc s) (st_keyword s) (st_text s)
  :: match st_arg s with ArgTable _ rows => row_elems rows | ArgDoc d => EDoc (ds_loc d) (ds_delim d) (ds_media d) :: text_elems (ds_content d) | ArgNone => [] end.
Definition bg_elems (b : background) : list elem :=
  ELine KBackgroundLine (bg_loc b) (bg_keyword b) (bg_name b) :: text_elems (bg_desc b) ++ flat_map step_elems (bg_steps b).
Definition ex_elems (e : examples) : list elem :=
  tag_elems (ex_tags e) ++ ELine KExamplesLine (ex_loc e) (ex_keyword e) (ex_name e)
  :: text_elems (ex_desc e) ++ (match ex_header e with Some r => row_elems [r] | None => [] end ++ row_elems (ex_body e)).
Definition sc_elems (s : scenario) : list elem :=
  tag_elems (sc_tags s) ++ ELine KScenarioLine (sc_loc s) (sc_keyword s) (sc_name s)
  :: text_elems (sc_desc s) ++ (flat_map step_elems (sc_steps s) ++ flat_map ex_elems (sc_examples s)).
Definition rchild_elems (c : rchild) := match c with RCBackground b => bg_elems b | RCScenario s => sc_elems s end.
Definition ru_elems (r : grule) : list elem :=
  tag_elems (ru_tags r) ++ ELine KRuleLine (ru_loc r) (ru_keyword r) (ru_name r) :: text_elems (ru_desc r) ++ flat_map rchild_elems (ru_children r).
Definition fchild_elems (c : fchild) :=
  match c with FCBackground b => bg_elems b | FCScenario s => sc_elems s | FCRule r => ru_elems r end.
Definition f_elems (f : feature) : list elem :=
  tag_elems (f_tags f) ++ ELine KFeatureLine (f_loc f) (f_keyword f) (f_name f) :: text_elems (f_desc f) ++ flat_map fchild_elems (f_children f).
Definition doc_elems (d : document) : list elem := match doc_feature d with Some f => f_elems f | None => [] end.

(* ---- read off a matched token ---- *)
Definition tok_elems (k : kind) (t : token) : list elem :=
  match k with
  | KFeatureLine | KRuleLine | KBackgroundLine | KScenarioLine | KExamplesLine | KStepLine =>
    match m_keyword t, m_text t with
    | Some kw, Some text => [ELine k (get_location t None) kw text]
    | _, _ => []
    end
  | KTagLine => map (fun it => ETag (get_location t (Some (fst it))) (snd it)) (m_items t)
  | KTableRow => [ERow (get_location t None) (get_cells t)]
  | KOther => match m_text t with Some text => text_elems text | None => [] end
  | KDocStringSeparator =>      (* an opening delimiter carries the media type text (possibly empty), a closing one none *)
    match m_text t, m_keyword t with
    | Some mt, Some delim => [EDoc (get_location t None) delim (match mt with [] => None | _ => Some mt end)]
    | _, _ => []
    end
  | _ => []
  end.
Definition tok_comment (k : kind) (t : token) : list comment :=
  match k, m_text t with
  | KComment, Some text => [mk_comment (get_location t None) text]
  | _, _ => []
  end.

(* ---- the order in which transform_node reads the content of a node ---- *)
Definition cpat (r : rule) : list (key * bool) :=
  match r with
  | RGherkinDocument => [(KR RFeature, false)]
  | RFeature => [(KR RFeatureHeader, false); (KR RBackground, false); (KR RScenarioDefinition, true); (KR RRule, true)]
  | RFeatureHeader => [(KR RTags, false); (KT KFeatureLine, false); (KR RDescription, false)]
  | RRule => [(KR RRuleHeader, false); (KR RBackground, false); (KR RScenarioDefinition, true)]
  | RRuleHeader => [(KR RTags, false); (KT KRuleLine, false); (KR RDescription, false)]
  | RBackground => [(KT KBackgroundLine, false); (KR RDescription, false); (KR RStep, true)]
  | RScenarioDefinition => [(KR RTags, false); (KR RScenario, false)]
  | RScenario => [(KT KScenarioLine, false); (KR RDescription, false); (KR RStep, true); (KR RExamplesDefinition, true)]
  | RExamplesDefinition => [(KR RTags, false); (KR RExamples, false)]
  | RExamples => [(KT KExamplesLine, false); (KR RDescription, false); (KR RExamplesTable, false)]
  | RExamplesTable => [(KT KTableRow, true)]
  | RStep => [(KT KStepLine, false); (KR RDataTable, false); (KR RDocString, false)]
  | RDataTable => [(KT KTableRow, true)]
  | RTags => [(KT KTagLine, true)]
  | RDocString => [(KT KDocStringSeparator, true); (KT KOther, true)]
  | RDescription => [(KT KOther, true)]
  end.
Definition crfree (x : rule) : bool := false.
Definition ctfree (k : kind) : bool :=
  match k with KEOF | KEmpty | KComment | KLanguage => true | _ => false end.
(* a step holds a data table or a doc string, never both *)
Definition cxr (x : rule) : list (key * key) :=
  match x with RStep => [(KR RDataTable, KR RDocString)] | _ => [] end.
(* of the delimiter lines of a doc string only the first (the opening one) carries content *)
Definition cfo (x : rule) : list key := match x with RDocString => [KT KDocStringSeparator] | _ => [] end.
