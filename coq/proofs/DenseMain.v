(* C11 (density and canonical order): the ids of the AST of an accepted document are exactly the ids
   drawn while it was parsed, each once, in the canonical order doc_ids reads them:
       doc_ids d = seq (first id) (number of ids drawn). *)
From Coq Require Import List Bool Arith Lia.
Import ListNotations.
Require Import Kinds PyStr Line Matcher Ast Builder BuilderSafe AstIds Automaton AutoFacts Pipeline PipelineFacts Dialects Table TableFacts
               MatcherTyping C02Lemmas PathReplay DenseDefs DenseCert DenseFacts DenseStack.

Notation rP := (pipeline_params Table.table).

Definition any_ms (m : mstate) : Prop := True.
Lemma any_ms_kept k m t t' m' : any_ms m -> matchf rP k m t = MR true t' m' -> any_ms m'.
Proof. intros _ _. exact I. Qed.

(* the kinds whose successful match leaves the matcher's state alone: all but #Language and #DocStringSeparator *)
Definition quiet_p (k : kind) : bool := negb (kind_beq k KLanguage) && negb (kind_beq k KDocStringSeparator).
Lemma p_fail k m t t' m' : matchf rP k m t = MR false t' m' -> m' = m.
Proof.
  cbn [matchf pipeline_params]. unfold p_matchf. destruct (matcher dialects k m t); intros H; inversion H; reflexivity.
Qed.
Lemma p_raise k m t e t' m' : matchf rP k m t = MRaise e t' m' -> m' = m.
Proof.
  cbn [matchf pipeline_params]. unfold p_matchf. destruct (matcher dialects k m t) as [|t1 m1|e1 t1 m1] eqn:M; intros H; inversion H; subst.
  eapply matcher_err_sep; eauto.
Qed.
Lemma p_quiet k m t t' m' : quiet_p k = true -> matchf rP k m t = MR true t' m' -> m' = m.
Proof.
  intros Q. cbn [matchf pipeline_params]. unfold p_matchf. destruct (matcher dialects k m t) as [|t1 m1|e1 t1 m1] eqn:M; intros H; inversion H; subst.
  unfold quiet_p in Q. apply andb_prop in Q as [Q1 Q2].
  eapply matcher_keeps_state; [| |exact M]; intros ->; discriminate.
Qed.
Lemma p_la_ok : forallb (fun h => forallb quiet_p (la_expected h ++ la_skip h)) Table.lookaheads = true.
Proof. vm_compute. reflexivity. Qed.
Lemma p_la h k : In h (Automaton.lookaheads rP) -> In k (la_expected h ++ la_skip h) -> quiet_p k = true.
Proof.
  intros Hh Hk. pose proof p_la_ok as A. rewrite forallb_forall in A. specialize (A h Hh). rewrite forallb_forall in A. apply A, Hk.
Qed.
Lemma p_guard x y : In x (Automaton.table rP) -> In y (s_tests x) -> t_guard y <> None -> quiet_p (t_kind y) = true.
Proof.
  intros Hx Hy G. pose proof guards_shape_ok as A. unfold guards_shape in A. rewrite forallb_forall in A.
  specialize (A x Hx). apply andb_prop in A as [A _]. rewrite forallb_forall in A. specialize (A y Hy).
  destruct (t_guard y); [|congruence]. apply andb_prop in A as [A _]. apply kind_beq_eq in A. rewrite A. reflexivity.
Qed.

Lemma pipe_match k m t t' m' : any_ms m -> matchf rP k m t = MR true t' m' -> tok_ok k t'.
Proof.
  intros _. cbn [matchf pipeline_params]. unfold p_matchf. destruct (matcher dialects k m t) as [|t1 m1|e t1 m1] eqn:M; intros H; inversion H; subst.
  eapply matcher_tok_ok; eauto.
Qed.

(* a token the matcher made, as kind k, in some well-formed matcher state, out of the scanner's raw token of
   the token's own physical line (`canon`: that line and its number, nothing else) *)
Definition tok_made (k : kind) (t : token) : Prop :=
  tok_ok k t /\ exists m0 m', PipelineFacts.wf_ms m0 /\ matcher dialects k m0 (canon t) = MYes t m'.
(* ... with the states named: the thread of matcher states along a path *)
Definition tok_step (k : kind) (m : mstate) (t : token) (m' : mstate) : Prop :=
  tok_ok k t /\ PipelineFacts.wf_ms m /\ matcher dialects k m (canon t) = MYes t m'.
Lemma tok_step_made k m t m' : tok_step k m t m' -> tok_made k t.
Proof. intros (A & B & C). split; [exact A | eauto]. Qed.
Lemma wf_ms_kept k m t t' m' : PipelineFacts.wf_ms m -> matchf rP k m t = MR true t' m' -> PipelineFacts.wf_ms m'.
Proof.
  intros W. cbn [matchf pipeline_params]. unfold p_matchf. pose proof (PipelineFacts.matcher_wf k m t W) as H.
  destruct (matcher dialects k m t); intros E; inversion E; subst. apply H.
Qed.
Lemma pipe_step k m t t' m' : PipelineFacts.wf_ms m -> matchf rP k m t = MR true t' m' -> tok_step k m t' m'.
Proof.
  intros W. cbn [matchf pipeline_params]. unfold p_matchf. destruct (matcher dialects k m t) as [|t1 m1|e t1 m1] eqn:M; intros H; inversion H; subst.
  split; [eapply matcher_tok_ok; eauto | split; [exact W | eapply matcher_canon; eauto]].
Qed.
Lemma pipe_eof' k m t : is_eof rP (mtok' (matchf rP k m t)) = is_eof rP t.
Proof. exact (pipe_eof k m t). Qed.

Lemma lift_ok o b' : lift_bout o = BOk b' -> o = BoOk b'.
Proof. destruct o; cbn; intros H; inversion H; reflexivity. Qed.

(* the productions of one test *)
Lemma d_steps k t lo : m_type t = Some k -> forall ps stk stk' b b',
  d_prods k ps stk = Some stk' -> bops rP t ps b = Some b' ->
  srel stk (b_stack b) -> dense lo b -> srel stk' (b_stack b') /\ dense lo b'.
Proof.
  intros Mt. induction ps as [|p ps IH]; intros stk stk' b b' D B S Dn; cbn in D, B.
  - inversion D; inversion B; subst. auto.
  - destruct (d_prod k p stk) as [s1|] eqn:D1; [|discriminate].
    destruct (bop rP t p b) as [b1|] eqn:B1; [|discriminate].
    assert (Step : srel s1 (b_stack b1) /\ dense lo b1).
    { unfold bop in B1. destruct p as [x|x|]; cbn [b_start b_end b_build pipeline_params] in B1.
      - unfold p_bstart in B1. destruct (d_start k x stk s1 b lo D1 S Dn) as (b2 & E2 & S2 & D2). rewrite E2 in B1. cbn in B1. inversion B1; subst. auto.
      - unfold p_bend in B1. destruct (builder_end x b) as [b2|e b2|] eqn:E2; cbn in B1; inversion B1; subst.
        eapply d_end; eauto.
      - unfold p_bbuild in B1. destruct (builder_build t b) as [b2|e b2|] eqn:E2; cbn in B1; inversion B1; subst.
        eapply d_build; eauto. }
    destruct Step as [S1 Dn1]. eapply IH; eauto.
Qed.

Lemma dlookup_in s b stk : dlookup s b = Some stk -> In (s, stk) b.
Proof.
  induction b as [|[n st] b IH]; simpl; [discriminate|]. destruct (Nat.eqb n s) eqn:E.
  - apply Nat.eqb_eq in E. subst. intros H. inversion H. now left.
  - intros H. right. auto.
Qed.

Definition dinv (lo : nat) (s : nat) (b : bstate) : Prop :=
  exists rec, dlookup s gamma = Some rec /\ srel rec (b_stack b) /\ dense lo b.

Lemma reach_dinv lo b1 m1 : dinv lo Table.start_state b1 -> forall s b l m, reach rP (fun k _ t _ => tok_ok k t) b1 m1 s b l m -> dinv lo s b.
Proof.
  intros H0 s b l m R. induction R as [|s b l m x y t b' m' R IH Hx Hid Hy Ht Hb]; [exact H0|].
  destruct IH as (rec & Hl & S & Dn).
  pose proof gamma_ok as G. unfold dense_ok in G. apply andb_prop in G as [_ G]. rewrite forallb_forall in G.
  specialize (G x Hx). rewrite Hid, Hl in G. rewrite forallb_forall in G. specialize (G y Hy).
  destruct (d_prods (t_kind y) (t_prods y) rec) as [stk'|] eqn:D; [|discriminate].
  destruct (dlookup (t_tgt y) gamma) as [rec'|] eqn:Hl'; [|discriminate].
  destruct Ht as [Mt _].
  destruct (d_steps _ _ lo Mt _ _ _ _ _ D Hb S Dn) as [S' Dn'].
  exists rec'. split; [exact Hl'|]. split; [eapply srel_weaken; eauto | exact Dn'].
Qed.

Lemma start_dinv b b1 : b_start rP RGherkinDocument (reset_builder b) = BOk b1 -> dinv (b_idc b) Table.start_state b1.
Proof.
  cbn [b_start pipeline_params]. unfold p_bstart, builder_start. cbn. intros H. inversion H; subst b1. clear H.
  pose proof gamma_ok as G. unfold dense_ok in G. apply andb_prop in G as [G _].
  destruct (dlookup Table.start_state gamma) as [[|f [|? ?]]|] eqn:Hl; try discriminate.
  exists [f]. split; [exact Hl|]. split.
  - apply (srel_weaken [aframe0]); [cbn; now rewrite G|].
    exists [Node (KR RGherkinDocument) []], (Node KNone []). split; [reflexivity|]. split; [|reflexivity].
    constructor; [apply nrel_fresh | constructor].
  - unfold dense. cbn [b_stack b_idc]. split; [lia|]. rewrite Nat.sub_diag. reflexivity.
Qed.

Lemma ends_doc s : ends rP s -> exists f, dlookup s gamma = Some [f] /\ af_rule f = RGherkinDocument.
Proof.
  intros (x & y & Hx & Hy & Hk & Ht).
  pose proof gamma_ends as G. rewrite forallb_forall in G. specialize (G x Hx). rewrite forallb_forall in G. specialize (G y Hy).
  rewrite Hk, Ht, kind_beq_refl in G. cbn [negb orb] in G.
  destruct (dlookup s gamma) as [[|f [|? ?]]|]; try discriminate. exists f. split; [reflexivity|]. now apply rule_beq_eq.
Qed.

Lemma final_dense lo b2 b3 f d : srel [f] (b_stack b2) -> af_rule f = RGherkinDocument -> dense lo b2 ->
  b_end rP RGherkinDocument b2 = BOk b3 -> builder_result b3 = Some d ->
  lo <= b_idc b3 /\ doc_ids d = seq lo (b_idc b3 - lo).
Proof.
  intros (nodes & root & E & F & R) Hr [L Dn] Be Br.
  inversion F as [|f0 n tl0 nodes0 Hn F0 E1 E2]; subst. inversion F0; subst.
  cbn [b_end pipeline_params] in Be. unfold p_bend in Be. apply lift_ok in Be. unfold builder_end in Be. rewrite E in Be. cbn [app] in Be.
  assert (Rd : ready f) by (split; rewrite Hr; discriminate).
  pose proof (transform_dense f n (b_comments b2) (b_idc b2) Hn Rd) as T.
  destruct (transform_node n (b_comments b2) (b_idc b2)) as [v i'|e i'|] eqn:Tn; try discriminate.
  cbn [dense_post] in T. destruct T as [Li Hv]. inversion Be; subst b3. clear Be. cbn [b_idc].
  split; [lia|].
  unfold builder_result in Br. cbn [b_stack] in Br.
  pose proof Hn as (Rtn & _). rewrite Rtn, Hr in Br.
  assert (Gs : get_single (node_add root (KR RGherkinDocument) v) (KR RGherkinDocument) = Some v).
  { destruct root as [rt items]. cbn in R. subst items. reflexivity. }
  rewrite Gs in Br. destruct v; try discriminate. inversion Br; subst d0.
  cbn [vids] in Hv. rewrite Hv. rewrite E in Dn. cbn [app] in Dn. unfold stack_ids in Dn. cbn in Dn.
  rewrite app_nil_r, nids_items, R in Dn. cbn in Dn. rewrite Dn. apply seq_join; assumption.
Qed.

Theorem ast_ids_dense stop m b src d m1 b1 n : parse_source stop m b src = POk d m1 b1 n ->
  b_idc b <= b_idc b1 /\ doc_ids d = seq (b_idc b) (b_idc b1 - b_idc b).
Proof.
  unfold parse_source, parse_tokens, parse_tokens_with.
  destruct (parse rP stop (scan src) (reset_matcher dialects m) (reset_builder b)) as [[] c|e c|es c|c|] eqn:P; try discriminate.
  destruct (builder_result (bs c)) as [d0|] eqn:Br; [|discriminate]. intros H. inversion H; subst. clear H.
  destruct (path_replay rP any_ms any_ms_kept quiet_p p_fail p_raise p_quiet p_la p_guard (fun k _ t _ => tok_ok k t) pipe_match pipe_eof' _ _ _ _ _ I P) as (b2 & s & b3 & l & m2 & Hs & R & He & Hend & _).
  pose proof (reach_dinv (b_idc b) b2 _ (start_dinv _ _ Hs) s b3 l m2 R) as (rec & Hl & S & Dn).
  destruct (ends_doc s He) as (f & Hf & Hr). rewrite Hf in Hl. inversion Hl; subst rec.
  exact (final_dense _ _ _ _ _ S Hr Dn Hend Br).
Qed.

(* AST ids then pickle ids of one accepted source: 0,1,2,... from the counter, without gaps, in the canonical order *)
Require Import Compiler CompilerSpec.
Theorem source_ids_dense stop m b src d m1 b1 n uri ps i :
  parse_source stop m b src = POk d m1 b1 n -> compile uri d (b_idc b1) = Some (ps, i) ->
  doc_ids d ++ flat_map pickle_ids ps = seq (b_idc b) (i - b_idc b).
Proof.
  intros Hp Hc. destruct (ast_ids_dense _ _ _ _ _ _ _ _ Hp) as [L1 H1].
  destruct (pickles_ids uri d (b_idc b1) ps i Hc) as [L2 H2]. rewrite H1, H2. apply seq_join; assumption.
Qed.
