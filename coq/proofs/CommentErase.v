(* C16 (comment lines): the only thing the AST builder does with its list of comments is to put it into the finished
   document.  Stated with an eraser that empties the comment list of the builder state and of every finished document
   held in the stack: running a builder operation on states that are equal after erasure gives results that are.
   Composed with the line-number eraser of LineErase.v (the relation used for inserted comment lines: equal up to line
   numbers, #Empty tokens and comments). *)
From Coq Require Import String List Bool Arith NArith Lia.
Import ListNotations.
Require Import Kinds PyStr Line Matcher Ast Builder BuilderErase ColErase LineErase.

Definition de_doc (d : document) : document := mk_document (doc_feature d) [].

Fixpoint vde (v : value) : value :=
  match v with
  | VNode n => VNode (nde n)
  | VDocument d => VDocument (de_doc d)
  | _ => v
  end
with nde (n : node) : node :=
  match n with
  | Node rt items => Node rt ((fix go (l : list (key * value)) : list (key * value) :=
                                 match l with
                                 | [] => []
                                 | (q, v) :: r => (q, vde v) :: go r
                                 end) items)
  end.
Definition ide (l : list (key * value)) : list (key * value) := map (fun kv => (fst kv, vde (snd kv))) l.
Lemma nde_eq rt items : nde (Node rt items) = Node rt (ide items).
Proof. cbn [nde]. f_equal. induction items as [|[q v] r IH]; cbn; [reflexivity|]. now rewrite IH. Qed.

Definition bde (b : bstate) : bstate := mk_bstate (map nde (b_stack b)) [] (b_idc b).

Lemma node_rt_de n : node_rt (nde n) = node_rt n.
Proof. destruct n. rewrite nde_eq. reflexivity. Qed.
Lemma node_items_de n : node_items (nde n) = ide (node_items n).
Proof. destruct n. rewrite nde_eq. reflexivity. Qed.
Lemma node_add_de n q v : nde (node_add n q v) = node_add (nde n) q (vde v).
Proof. destruct n. cbn [node_add]. rewrite !nde_eq. unfold ide. rewrite map_app. reflexivity. Qed.

Lemma get_items_de n q : get_items (nde n) q = map vde (get_items n q).
Proof.
  unfold get_items. rewrite node_items_de. unfold ide. induction (node_items n) as [|[k0 v] r IH]; cbn [map filter fst snd]; [reflexivity|].
  destruct (key_beq k0 q); cbn [map snd]; now rewrite IH.
Qed.
Lemma get_single_de n q : get_single (nde n) q = option_map vde (get_single n q).
Proof. unfold get_single. rewrite get_items_de. destruct (get_items n q); reflexivity. Qed.

Lemma toks_of_de vs : toks_of (map vde vs) = toks_of vs.
Proof. induction vs as [|v r IH]; cbn; [reflexivity|]. destruct v; cbn; try reflexivity. now rewrite IH. Qed.
Lemma get_tokens_de n q : get_tokens (nde n) q = get_tokens n q.
Proof. unfold get_tokens. rewrite get_items_de. apply toks_of_de. Qed.
Lemma get_token_de n q : get_token (nde n) q = get_token n q.
Proof. unfold get_token. rewrite get_single_de. destruct (get_single n (KT q)) as [v|]; [destruct v|]; reflexivity. Qed.
Lemma get_description_de n : get_description (nde n) = get_description n.
Proof. unfold get_description. rewrite get_single_de. destruct (get_single n (KR RDescription)) as [v|]; [destruct v|]; reflexivity. Qed.
Lemma steps_of_de vs : steps_of (map vde vs) = steps_of vs.
Proof. induction vs as [|v r IH]; cbn; [reflexivity|]. destruct v; cbn; try reflexivity. now rewrite IH. Qed.
Lemma scenarios_of_de vs : scenarios_of (map vde vs) = scenarios_of vs.
Proof. induction vs as [|v r IH]; cbn; [reflexivity|]. destruct v; cbn; try reflexivity. now rewrite IH. Qed.
Lemma examples_of_de vs : examples_of (map vde vs) = examples_of vs.
Proof. induction vs as [|v r IH]; cbn; [reflexivity|]. destruct v; cbn; try reflexivity. now rewrite IH. Qed.
Lemma rules_of_de vs : rules_of (map vde vs) = rules_of vs.
Proof. induction vs as [|v r IH]; cbn; [reflexivity|]. destruct v; cbn; try reflexivity; now rewrite IH. Qed.
Lemma get_steps_de n : get_steps (nde n) = get_steps n.
Proof. unfold get_steps. rewrite get_items_de. apply steps_of_de. Qed.
Lemma get_tags_de n i : get_tags (nde n) i = get_tags n i.
Proof.
  unfold get_tags. rewrite get_single_de. destruct (get_single n (KR RTags)) as [v|]; [destruct v|]; try reflexivity.
  cbn [option_map vde]. now rewrite get_tokens_de.
Qed.
Lemma get_table_rows_de n i : get_table_rows (nde n) i = get_table_rows n i.
Proof. unfold get_table_rows. now rewrite get_tokens_de. Qed.

Definition tres_de (r : tres value) : tres value :=
  match r with TOk a i => TOk (vde a) i | TRaise e i => TRaise e i | TCrash => TCrash end.

Ltac der := repeat progress rewrite ?get_token_de, ?get_tags_de, ?get_table_rows_de, ?get_description_de, ?get_steps_de,
              ?get_single_de, ?get_items_de, ?get_tokens_de, ?scenarios_of_de, ?examples_of_de, ?rules_of_de, ?steps_of_de, ?toks_of_de.
Ltac plaind x := lazymatch x with
                 | context [vde] => fail
                 | context [nde] => fail
                 | context [match _ with _ => _ end] => fail
                 | _ => idtac
                 end.
Ltac crunchd :=
  repeat (der; cbn beta iota delta [option_map tres_de vde] fix; der;
          try reflexivity;
          match goal with
          | |- context [match ?x with _ => _ end] => plaind x; destruct x
          | |- context [forallb ?f ?l] => plaind l; destruct (forallb f l)
          end).

(* the transformation of a node does not look at the comments (except to copy them into the document), nor into the
   finished documents among its items *)
Lemma transform_de n c i : transform_node (nde n) [] i = tres_de (transform_node n c i).
Proof.
  unfold transform_node. rewrite node_rt_de. destruct (node_rt n) as [q|r|]; try reflexivity.
  destruct r; try reflexivity; unfold opt_crash, tbind; crunchd.
Qed.

(* ---- composed with the line eraser ---- *)
Definition BRc (b b' : bstate) : Prop := bde (ble b) = bde (ble b').
Definition boutc_rel' (o o' : bout) : Prop :=
  match o, o' with
  | BoOk b, BoOk b' => BRc b b'
  | BoRaise e b, BoRaise e' b' => le_err e = le_err e' /\ BRc b b'
  | BoCrash, BoCrash => True
  | _, _ => False
  end.

Lemma BRc_parts b b' : BRc b b' -> map nde (map nle (b_stack b)) = map nde (map nle (b_stack b')) /\ b_idc b = b_idc b'.
Proof. unfold BRc, bde, ble. cbn [b_stack b_comments b_idc]. intros H. inversion H. auto. Qed.
Lemma BRc_make s s' c c' i : map nde (map nle s) = map nde (map nle s') -> BRc (mk_bstate s c i) (mk_bstate s' c' i).
Proof. intros A. unfold BRc, bde, ble. cbn [b_stack b_comments b_idc]. now rewrite A. Qed.
Lemma BRn_BRc b b' : BRn b b' -> BRc b b'.
Proof. unfold BRn, BRc. intros ->. reflexivity. Qed.

Lemma builder_start_crel' r b b' : BRc b b' -> boutc_rel' (builder_start r b) (builder_start r b').
Proof.
  intros H. destruct (BRc_parts b b' H) as (A & C). unfold builder_start. cbn [boutc_rel']. rewrite C.
  apply BRc_make. cbn [map]. now rewrite A.
Qed.

Lemma tres_dle_inv (r r' : tres value) : tres_de (tres_le vle r) = tres_de (tres_le vle r') ->
  match r, r' with
  | TOk v i, TOk v' i' => vde (vle v) = vde (vle v') /\ i = i'
  | TRaise e i, TRaise e' i' => le_err e = le_err e' /\ i = i'
  | TCrash, TCrash => True
  | _, _ => False
  end.
Proof. destruct r, r'; cbn; intros H; try discriminate H; try exact I; (split; congruence). Qed.

Lemma builder_end_crel' r b b' : BRc b b' -> boutc_rel' (builder_end r b) (builder_end r b').
Proof.
  intros H. destruct (BRc_parts b b' H) as (A & C). unfold builder_end.
  destruct b as [s0 c0 i0], b' as [s0' c0' i0']. cbn [b_stack b_comments b_idc] in *. subst i0'.
  destruct s0 as [|n stk], s0' as [|n' stk']; try discriminate A; [exact I|].
  cbn [map] in A. injection A as An As.
  pose proof (transform_de (nle n) (map le_comment c0) i0) as T1. rewrite transform_le in T1.
  pose proof (transform_de (nle n') (map le_comment c0') i0) as T2. rewrite transform_le in T2.
  rewrite An, T2 in T1. symmetry in T1. apply tres_dle_inv in T1.
  destruct (transform_node n c0 i0) as [v i|e i|], (transform_node n' c0' i0) as [v' i'|e' i'|];
    cbn beta iota in T1; try contradiction; cbn [boutc_rel'].
  - destruct T1 as [Ev <-]. destruct stk as [|cur stk2], stk' as [|cur' stk2']; try discriminate As; [exact I|].
    cbn [map] in As. injection As as Ac As2. cbn [boutc_rel']. apply BRc_make. cbn [map]. rewrite As2. f_equal.
    rewrite !node_add_le.
    assert (Rt : node_rt n = node_rt n') by (rewrite <- (node_rt_le n), <- (node_rt_le n'), <- (node_rt_de (nle n)), <- (node_rt_de (nle n')), An; reflexivity).
    rewrite Rt. destruct (key_beq (node_rt n') (KT KEmpty)); [exact Ac|]. rewrite !node_add_de, Ac, Ev. reflexivity.
  - destruct T1 as [Ee <-]. split; [exact Ee|]. apply BRc_make. exact As.
  - exact I.
Qed.

Lemma builder_build_crel' t t' b b' : tle t = tle t' -> BRc b b' -> boutc_rel' (builder_build t b) (builder_build t' b').
Proof.
  intros Ht H. destruct (BRc_parts b b' H) as (A & C). unfold builder_build.
  assert (Ety : m_type t = m_type t') by (unfold tle in Ht; inversion Ht; reflexivity).
  assert (Etx : m_text t = m_text t') by (unfold tle in Ht; inversion Ht; reflexivity).
  rewrite <- Ety, <- Etx. destruct (m_type t) as [kd|]; [|exact I].
  assert (G : boutc_rel' match b_stack b with
                         | [] => BoCrash
                         | cur :: stk => BoOk (mk_bstate (node_add cur (KT kd) (VTok t) :: stk) (b_comments b) (b_idc b))
                         end
                         match b_stack b' with
                         | [] => BoCrash
                         | cur :: stk => BoOk (mk_bstate (node_add cur (KT kd) (VTok t') :: stk) (b_comments b') (b_idc b'))
                         end).
  { destruct (b_stack b) as [|cur stk], (b_stack b') as [|cur' stk']; try discriminate A; [exact I|].
    cbn [map] in A. injection A as Ac As. cbn [boutc_rel']. rewrite C. apply BRc_make. cbn [map]. rewrite As. f_equal.
    rewrite !node_add_le. destruct (key_beq (KT kd) (KT KEmpty)); [exact Ac|]. rewrite !node_add_de. cbn [vle vde]. now rewrite Ac, Ht. }
  destruct kd; try exact G. destruct (m_text t); [|exact I]. cbn [boutc_rel']. rewrite C. apply BRc_make. exact A.
Qed.

(* the documents: equal up to line numbers, with their comments left out *)
Lemma builder_result_crel b b' : BRc b b' ->
  option_map (fun d => de_doc (le_doc d)) (builder_result b) = option_map (fun d => de_doc (le_doc d)) (builder_result b').
Proof.
  intros H. destruct (BRc_parts b b' H) as (A & _). unfold builder_result.
  destruct (b_stack b) as [|cur stk], (b_stack b') as [|cur' stk']; try discriminate A; [reflexivity|].
  cbn [map] in A. injection A as Ac _.
  pose proof (get_single_de (nle cur) (KR RGherkinDocument)) as G1. rewrite (get_single_le cur (KR RGherkinDocument) eq_refl) in G1.
  pose proof (get_single_de (nle cur') (KR RGherkinDocument)) as G2. rewrite (get_single_le cur' (KR RGherkinDocument) eq_refl) in G2.
  rewrite Ac, G2 in G1.
  destruct (get_single cur (KR RGherkinDocument)) as [v|], (get_single cur' (KR RGherkinDocument)) as [v'|]; cbn [option_map] in G1; try discriminate G1; [|reflexivity].
  assert (Y : forall a c : value, Some a = Some c -> a = c) by (intros a c E; now inversion E). apply Y in G1.
  destruct v, v'; cbn [vle vde] in G1; try discriminate G1; try reflexivity. cbn [option_map].
  assert (X : forall a c, VDocument a = VDocument c -> a = c) by (intros a c E; now inversion E). now rewrite (X _ _ G1).
Qed.
