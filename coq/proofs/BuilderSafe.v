(* C01: the AST builder never crashes on well-typed nodes.
   A node is well-typed when every token item was matched under its key's kind (with the fields
   that kind's matcher sets) and every child value has the constructor its rule's transformation
   produces.  transform_node of a well-typed node whose required keys are present does not crash
   and yields a well-typed value. *)
From Coq Require Import List Bool Arith NArith Lia.
Import ListNotations.
Require Import Kinds PyStr Line Matcher Ast Builder.

(* ---- typing of items ---- *)
Definition tok_ok (k : kind) (t : token) : Prop :=
  m_type t = Some k /\
  match k with
  | KFeatureLine | KRuleLine | KBackgroundLine | KScenarioLine | KExamplesLine =>
    m_keyword t <> None /\ m_text t <> None
  | KStepLine => m_keyword t <> None /\ m_text t <> None /\ m_ktype t <> None
  | KDocStringSeparator => m_keyword t <> None
  | KOther | KComment => m_text t <> None
  | _ => True
  end.

Definition tok_item_ok (kv : key * value) : Prop :=
  exists k t, fst kv = KT k /\ snd kv = VTok t /\ tok_ok k t.

(* a Tags node: whatever sits under the TagLine key is a token (all get_tags reads) *)
Definition tokens_only_ok (n : node) : Prop :=
  forall v, In (KT KTagLine, v) (node_items n) -> exists t, v = VTok t.

(* rectangular tables: every body row of an examples table is at least as long as its header
   (what Compiler.compile needs: value_cells[n] for every header column) *)
Definition same_len (rs : list row) : Prop :=
  match rs with [] => True | r0 :: _ => Forall (fun r => length (r_cells r) = length (r_cells r0)) rs end.
Definition rect_ex (e : examples) : Prop :=
  match ex_header e with
  | Some h => Forall (fun r => length (r_cells h) <= length (r_cells r)) (ex_body e)
  | None => True
  end.
Definition rect_sc (s : scenario) : Prop := Forall rect_ex (sc_examples s).
Definition rect_rchild (c : rchild) : Prop := match c with RCScenario s => rect_sc s | RCBackground _ => True end.
Definition rect_fchild (c : fchild) : Prop :=
  match c with
  | FCScenario s => rect_sc s
  | FCRule r => Forall rect_rchild (ru_children r)
  | FCBackground _ => True
  end.
Definition rect_doc (d : document) : Prop :=
  match doc_feature d with Some f => Forall rect_fchild (f_children f) | None => True end.

(* values that are not nodes, and the Tags node *)
Definition leaf_val_ok (x : rule) (v : value) : Prop :=
  match x with
  | RStep => exists s, v = VStep s
  | RDocString => exists d, v = VDocString d
  | RDataTable => exists l rows, v = VDataTable l rows
  | RBackground => exists b, v = VBackground b
  | RScenarioDefinition => exists s, v = VScenario s /\ rect_sc s
  | RExamplesDefinition => exists e, v = VExamples e /\ rect_ex e
  | RExamplesTable => exists rs, v = VRows rs /\ same_len rs
  | RDescription => exists s, v = VDesc s
  | RRule => exists r, v = VRule r /\ Forall rect_rchild (ru_children r)
  | RFeature => (exists f, v = VFeature f /\ Forall rect_fchild (f_children f)) \/ v = VNone
  | RGherkinDocument => exists d, v = VDocument d /\ rect_doc d
  | RTags => exists n, v = VNode n /\ tokens_only_ok n
  | _ => False
  end.

Definition is_inner (x : rule) : bool :=
  match x with RScenario | RExamples | RFeatureHeader | RRuleHeader => true | _ => false end.

(* items of a header-like node: its own header-like children (there are none in the grammar) are never read *)
Definition item_ok1 (kv : key * value) : Prop :=
  match fst kv with
  | KT k => exists t, snd kv = VTok t /\ tok_ok k t
  | KR x => if is_inner x then True else leaf_val_ok x (snd kv)
  | KNone => False
  end.

Definition has_key (n : node) (k : key) : Prop := get_single n k <> None.

(* the key a header-like node must contain for the parent's transformation to succeed *)
Definition inner_required (x : rule) : list key :=
  match x with
  | RScenario => [KT KScenarioLine]
  | RExamples => [KT KExamplesLine]
  | RRuleHeader => [KT KRuleLine]
  | _ => []
  end.

Definition val_ok (x : rule) (v : value) : Prop :=
  if is_inner x then
    exists n, v = VNode n /\ node_rt n = KR x /\ Forall item_ok1 (node_items n)
              /\ Forall (has_key n) (inner_required x)
  else leaf_val_ok x v.

Definition item_ok (kv : key * value) : Prop :=
  match fst kv with
  | KT k => exists t, snd kv = VTok t /\ tok_ok k t
  | KR x => val_ok x (snd kv)
  | KNone => False
  end.

Definition node_ok (n : node) : Prop := Forall item_ok (node_items n).
Definition node_ok1 (n : node) : Prop := Forall item_ok1 (node_items n).

(* ---- generic facts about get_items / get_single ---- *)
Lemma key_beq_eq a b : key_beq a b = true -> a = b.
Proof.
  destruct a, b; simpl; try discriminate; intros H; try reflexivity.
  - apply kind_beq_eq in H. now subst.
  - apply rule_beq_eq in H. now subst.
Qed.
Lemma key_beq_refl a : key_beq a a = true.
Proof. destruct a; simpl; [apply kind_beq_refl | apply rule_beq_refl | reflexivity]. Qed.

Lemma get_items_in n k v : In v (get_items n k) -> In (k, v) (node_items n).
Proof.
  unfold get_items. intros H. apply in_map_iff in H as ([k' v'] & E & H). simpl in E. subst v'.
  apply filter_In in H as [H1 H2]. simpl in H2. apply key_beq_eq in H2. now subst.
Qed.

Lemma get_single_in n k v : get_single n k = Some v -> In (k, v) (node_items n).
Proof. unfold get_single. destruct (get_items n k) as [|v0 r] eqn:E; [discriminate|]. intros H. inversion H; subst. apply get_items_in. rewrite E. now left. Qed.

Section Typed.
  Variable P : key * value -> Prop.      (* item_ok or item_ok1 *)
  Hypothesis P_tok : forall k v, P (KT k, v) -> exists t, v = VTok t /\ tok_ok k t.

  Lemma toks_of_ok n k : Forall P (node_items n) -> exists ts, get_tokens n k = Some ts /\ Forall (tok_ok k) ts
                                                      /\ (has_key n (KT k) -> ts <> []).
  Proof.
    intros H. unfold get_tokens.
    assert (A : Forall (fun v => P (KT k, v)) (get_items n (KT k))).
    { apply Forall_forall. intros v Hv. apply get_items_in in Hv. rewrite Forall_forall in H. auto. }
    unfold has_key, get_single. induction (get_items n (KT k)) as [|v vs IH].
    - exists []. split; [reflexivity|]. split; [constructor|]. intros X. congruence.
    - inversion A as [|? ? Hv Hvs]; subst. destruct (P_tok k v Hv) as (t & -> & Ht).
      destruct (IH Hvs) as (ts & E & F & _). simpl. rewrite E. exists (t :: ts).
      split; [reflexivity|]. split; [constructor; assumption|]. intros _. discriminate.
  Qed.

  Lemma get_token_ok n k : Forall P (node_items n) ->
    (exists t, get_token n k = Some (Some t) /\ tok_ok k t) \/ (get_token n k = Some None /\ ~ has_key n (KT k)).
  Proof.
    intros H. unfold get_token, has_key. destruct (get_single n (KT k)) as [v|] eqn:E.
    - left. apply get_single_in in E. rewrite Forall_forall in H. destruct (P_tok k v (H _ E)) as (t & -> & Ht). eauto.
    - right. split; [reflexivity | intros X; congruence].
  Qed.
End Typed.

Lemma item_ok_tok k v : item_ok (KT k, v) -> exists t, v = VTok t /\ tok_ok k t.
Proof. exact (fun H => H). Qed.
Lemma item_ok1_tok k v : item_ok1 (KT k, v) -> exists t, v = VTok t /\ tok_ok k t.
Proof. exact (fun H => H). Qed.

Lemma texts_of_ok k ts : (forall t, tok_ok k t -> m_text t <> None) -> Forall (tok_ok k) ts -> texts_of ts <> None.
Proof.
  intros Hk. induction 1 as [|t ts Ht _ IH]; simpl; [discriminate|].
  destruct (m_text t) eqn:E; [|exfalso; now apply (Hk t Ht)]. destruct (texts_of ts); [discriminate | congruence].
Qed.

Lemma drop_trailing_blank_sub ts : forall t, In t (drop_trailing_blank ts) -> In t ts.
Proof.
  induction ts as [|x ts IH]; simpl; [auto|]. intros t H.
  destruct (drop_trailing_blank ts) as [|y r] eqn:E.
  - destruct (blank_text x); [destruct H | destruct H as [<-|[]]; now left].
  - destruct H as [<-|H]; [now left | right; apply IH; exact H].
Qed.

(* child values under a rule key, filtered by constructor *)
Lemma steps_of_ok vs : Forall (fun v => exists s, v = VStep s) vs -> steps_of vs <> None.
Proof. induction 1 as [|v vs [s ->] _ IH]; simpl; [discriminate|]. destruct (steps_of vs); [discriminate | congruence]. Qed.
Lemma scenarios_of_ok vs : Forall (fun v => exists s, v = VScenario s /\ rect_sc s) vs ->
  exists ss, scenarios_of vs = Some ss /\ Forall rect_sc ss.
Proof.
  induction 1 as [|v vs Hv _ IH]; simpl; [exists []; auto|].
  destruct Hv as (s & Ev & R). destruct IH as (ss & E & F). subst v. rewrite E. exists (s :: ss). simpl. auto.
Qed.
Lemma examples_of_ok vs : Forall (fun v => exists s, v = VExamples s /\ rect_ex s) vs ->
  exists es, examples_of vs = Some es /\ Forall rect_ex es.
Proof.
  induction 1 as [|v vs Hv _ IH]; simpl; [exists []; auto|].
  destruct Hv as (s & Ev & R). destruct IH as (ss & E & F). subst v. rewrite E. exists (s :: ss). simpl. auto.
Qed.
Lemma rules_of_ok vs : Forall (fun v => exists s, v = VRule s /\ Forall rect_rchild (ru_children s)) vs ->
  exists rs, rules_of vs = Some rs /\ forallb (fun r => match r with Some _ => true | None => false end) rs = true
             /\ Forall rect_fchild (flat_map (fun r => match r with Some x => [FCRule x] | None => [] end) rs).
Proof.
  induction 1 as [|v vs Hv _ IH]; simpl; [exists []; repeat split; constructor|].
  destruct Hv as (s & Ev & R). destruct IH as (rs & E & F & G). subst v. rewrite E. exists (Some s :: rs). simpl. repeat split; auto.
Qed.

Lemma get_items_rule_ok (Q : key * value -> Prop) n x : Forall Q (node_items n) ->
  Forall (fun v => Q (KR x, v)) (get_items n (KR x)).
Proof. intros H. apply Forall_forall. intros v Hv. apply get_items_in in Hv. rewrite Forall_forall in H. auto. Qed.

(* ---- pieces of transform_node ---- *)
Lemma get_description_ok (Q : key * value -> Prop) n :
  (forall v, Q (KR RDescription, v) -> exists s, v = VDesc s) -> Forall Q (node_items n) -> get_description n <> None.
Proof.
  intros HQ H. unfold get_description. destruct (get_single n (KR RDescription)) as [v|] eqn:E; [|discriminate].
  apply get_single_in in E. rewrite Forall_forall in H. destruct (HQ v (H _ E)) as [s ->]. discriminate.
Qed.

Lemma get_tags_ok (Q : key * value -> Prop) n idc :
  (forall v, Q (KR RTags, v) -> exists tn, v = VNode tn /\ tokens_only_ok tn) -> Forall Q (node_items n) ->
  exists tags i, get_tags n idc = TOk tags i.
Proof.
  intros HQ H. unfold get_tags. destruct (get_single n (KR RTags)) as [v|] eqn:E; [|eauto].
  apply get_single_in in E. rewrite Forall_forall in H. destruct (HQ v (H _ E)) as (tn & -> & Htn).
  assert (A : exists ts, get_tokens tn KTagLine = Some ts).
  { unfold get_tokens. unfold tokens_only_ok in Htn.
    assert (B : Forall (fun v => exists t, v = VTok t) (get_items tn (KT KTagLine))).
    { apply Forall_forall. intros v Hv. apply get_items_in in Hv. apply (Htn _ Hv). }
    induction (get_items tn (KT KTagLine)) as [|v vs IH]; [exists []; reflexivity|].
    inversion B as [|? ? Bv Bs]; subst. destruct Bv as [t ->]. destruct (IH Bs) as [ts E2]. simpl. rewrite E2. simpl. eauto. }
  destruct A as [ts ->]. destruct (tags_of_tokens ts idc). eauto.
Qed.

Lemma get_table_rows_ok (Q : key * value -> Prop) n idc :
  (forall k v, Q (KT k, v) -> exists t, v = VTok t /\ tok_ok k t) -> Forall Q (node_items n) ->
  get_table_rows n idc <> TCrash.
Proof.
  intros HQ H. unfold get_table_rows.
  destruct (toks_of_ok Q HQ n KTableRow H) as (ts & -> & _).
  destruct (rows_of_tokens ts idc) as [rows i]. destruct (first_ragged rows); discriminate.
Qed.

(* ---- the main lemma ---- *)
Definition required (x : rule) : list key :=
  match x with
  | RStep => [KT KStepLine]
  | RDocString => [KT KDocStringSeparator]
  | RDataTable => [KT KTableRow]
  | RBackground => [KT KBackgroundLine]
  | RScenarioDefinition => [KR RScenario]
  | RExamplesDefinition => [KR RExamples]
  | RRule => [KR RRuleHeader]
  | RScenario => [KT KScenarioLine]
  | RExamples => [KT KExamplesLine]
  | RRuleHeader => [KT KRuleLine]
  | _ => []
  end.

(* the first separator of a DocString node is an opening one (it carries the media type text) *)
Definition docstring_ok (n : node) : Prop :=
  forall t ts, get_tokens n KDocStringSeparator = Some (t :: ts) -> m_text t <> None.

Lemma item_ok_item_ok1 kv : item_ok kv -> item_ok1 kv.
Proof.
  unfold item_ok, item_ok1. destruct (fst kv) as [k|x|]; auto. unfold val_ok. destruct (is_inner x); auto.
Qed.
Lemma node_ok_node_ok1 n : node_ok n -> node_ok1 n.
Proof. unfold node_ok, node_ok1. apply Forall_impl. exact item_ok_item_ok1. Qed.

Lemma item_ok1_leaf x v : is_inner x = false -> item_ok1 (KR x, v) -> leaf_val_ok x v.
Proof. unfold item_ok1. simpl. intros ->. auto. Qed.
Lemma item_ok_leaf x v : is_inner x = false -> item_ok (KR x, v) -> leaf_val_ok x v.
Proof. intros H I. apply item_ok1_leaf; auto. now apply item_ok_item_ok1. Qed.

Definition tres_ok {A} (r : tres A) : Prop := r <> TCrash.

Ltac some_of H := let v := fresh "v" in let E := fresh "E" in
  match type of H with ?x <> None => destruct x as [v|] eqn:E; [|congruence] end.

(* reading the pieces of a header-like node (Scenario, Examples, FeatureHeader, RuleHeader) or of a
   node on the stack: all under item_ok1 *)
Section Pieces.
  Variable n : node.
  Hypothesis H1 : node_ok1 n.

  Lemma p_token k : (exists t, get_token n k = Some (Some t) /\ tok_ok k t) \/ (get_token n k = Some None /\ ~ has_key n (KT k)).
  Proof. apply (get_token_ok item_ok1 item_ok1_tok n k H1). Qed.
  Lemma p_tokens k : exists ts, get_tokens n k = Some ts /\ Forall (tok_ok k) ts /\ (has_key n (KT k) -> ts <> []).
  Proof. apply (toks_of_ok item_ok1 item_ok1_tok n k H1). Qed.
  Lemma p_description : get_description n <> None.
  Proof. apply (get_description_ok item_ok1); [|exact H1]. intros v Hv. apply (item_ok1_leaf RDescription v eq_refl Hv). Qed.
  Lemma p_tags idc : exists tags i, get_tags n idc = TOk tags i.
  Proof. apply (get_tags_ok item_ok1); [|exact H1]. intros v Hv. apply (item_ok1_leaf RTags v eq_refl Hv). Qed.
  Lemma p_steps : get_steps n <> None.
  Proof.
    unfold get_steps. apply steps_of_ok. eapply Forall_impl; [|apply (get_items_rule_ok item_ok1 n RStep H1)].
    intros v Hv. apply (item_ok1_leaf RStep v eq_refl Hv).
  Qed.
  Lemma p_scenarios : exists ss, scenarios_of (get_items n (KR RScenarioDefinition)) = Some ss /\ Forall rect_sc ss.
  Proof.
    apply scenarios_of_ok. eapply Forall_impl; [|apply (get_items_rule_ok item_ok1 n RScenarioDefinition H1)].
    intros v Hv. apply (item_ok1_leaf RScenarioDefinition v eq_refl Hv).
  Qed.
  Lemma p_examples : exists es, examples_of (get_items n (KR RExamplesDefinition)) = Some es /\ Forall rect_ex es.
  Proof.
    apply examples_of_ok. eapply Forall_impl; [|apply (get_items_rule_ok item_ok1 n RExamplesDefinition H1)].
    intros v Hv. apply (item_ok1_leaf RExamplesDefinition v eq_refl Hv).
  Qed.
  Lemma p_rules : exists rs, rules_of (get_items n (KR RRule)) = Some rs
                             /\ forallb (fun r => match r with Some _ => true | None => false end) rs = true
                             /\ Forall rect_fchild (flat_map (fun r => match r with Some x => [FCRule x] | None => [] end) rs).
  Proof.
    apply rules_of_ok. eapply Forall_impl; [|apply (get_items_rule_ok item_ok1 n RRule H1)].
    intros v Hv. apply (item_ok1_leaf RRule v eq_refl Hv).
  Qed.
  Lemma p_single_leaf x v : is_inner x = false -> get_single n (KR x) = Some v -> leaf_val_ok x v.
  Proof. intros Hx E. apply get_single_in in E. unfold node_ok1 in H1. rewrite Forall_forall in H1. apply (item_ok1_leaf x v Hx (H1 _ E)). Qed.
  Lemma p_table_rows idc : get_table_rows n idc <> TCrash.
  Proof. apply (get_table_rows_ok item_ok1); [exact item_ok1_tok | exact H1]. Qed.
End Pieces.

Definition tnode_spec (x : rule) (r : tres value) : Prop :=
  match r with
  | TOk v _ => val_ok x v
  | TRaise _ _ => x = RDataTable \/ x = RExamplesTable
  | TCrash => False
  end.

Lemma has_key_token n k : node_ok1 n -> has_key n (KT k) -> exists t, get_token n k = Some (Some t) /\ tok_ok k t.
Proof. intros H1 Hk. destruct (p_token n H1 k) as [A|[_ A]]; [exact A | contradiction]. Qed.

Lemma t_step n comments idc : node_rt n = KR RStep -> node_ok n -> has_key n (KT KStepLine) ->
  tnode_spec RStep (transform_node n comments idc).
Proof.
  intros Rt Ok Hk. pose proof (node_ok_node_ok1 n Ok) as H1. unfold transform_node. rewrite Rt.
  destruct (has_key_token n KStepLine H1 Hk) as (sl & -> & (_ & K & T & Y)). cbn [opt_crash].
  some_of K. some_of Y. some_of T. cbn [opt_crash].
  destruct (get_single n (KR RDataTable)) as [v2|] eqn:D.
  - destruct (p_single_leaf n H1 RDataTable v2 eq_refl D) as (l & rows & ->). cbn. unfold val_ok. cbn. eauto.
  - destruct (get_single n (KR RDocString)) as [v2|] eqn:D2.
    + destruct (p_single_leaf n H1 RDocString v2 eq_refl D2) as (d & ->). cbn. unfold val_ok. cbn. eauto.
    + cbn. unfold val_ok. cbn. eauto.
Qed.

Lemma t_docstring n comments idc : node_rt n = KR RDocString -> node_ok n -> has_key n (KT KDocStringSeparator) ->
  docstring_ok n -> tnode_spec RDocString (transform_node n comments idc).
Proof.
  intros Rt Ok Hk Hd. pose proof (node_ok_node_ok1 n Ok) as H1. unfold transform_node. rewrite Rt.
  destruct (p_tokens n H1 KDocStringSeparator) as (seps & Es & Fs & Ne). rewrite Es. cbn [opt_crash].
  destruct seps as [|sep seps]; [exfalso; now apply (Ne Hk)|].
  pose proof (Hd sep seps Es) as Tx. some_of Tx. cbn [opt_crash].
  inversion Fs as [|? ? (_ & Kw) _]; subst. some_of Kw. cbn [opt_crash].
  destruct (p_tokens n H1 KOther) as (lines & El & Fl & _). rewrite El. cbn [opt_crash].
  pose proof (texts_of_ok KOther lines (fun t H => proj2 H) Fl) as Tl. some_of Tl. cbn [opt_crash].
  unfold val_ok. cbn. eauto.
Qed.

Lemma t_datatable n comments idc : node_rt n = KR RDataTable -> node_ok n -> has_key n (KT KTableRow) ->
  tnode_spec RDataTable (transform_node n comments idc).
Proof.
  intros Rt Ok Hk. pose proof (node_ok_node_ok1 n Ok) as H1. unfold transform_node. rewrite Rt.
  unfold get_table_rows. destruct (p_tokens n H1 KTableRow) as (ts & -> & _ & Ne).
  destruct ts as [|t ts]; [exfalso; now apply (Ne Hk)|].
  destruct (rows_of_tokens (t :: ts) idc) as [rows i] eqn:R.
  assert (rows <> []).
  { simpl in R. destruct (rows_of_tokens ts (S idc)). inversion R. discriminate. }
  destruct (first_ragged rows); cbn [tbind tnode_spec]; [now left|].
  destruct rows; [congruence|]. unfold val_ok. cbn. eauto.
Qed.

Lemma get_table_rows_same_len n idc rows i : get_table_rows n idc = TOk rows i -> same_len rows.
Proof.
  unfold get_table_rows. destruct (get_tokens n KTableRow) as [ts|]; [|discriminate].
  destruct (rows_of_tokens ts idc) as [rs j]. destruct (first_ragged rs) eqn:F; [discriminate|].
  intros H. inversion H; subst. unfold first_ragged in F. unfold same_len. destruct rows as [|r0 rows]; [exact I|].
  apply Forall_forall. intros r Hr. destruct (Nat.eqb (length (r_cells r)) (length (r_cells r0))) eqn:E; [now apply Nat.eqb_eq|].
  exfalso. pose proof (find_none _ _ F r Hr) as X. cbv beta in X. rewrite E in X. discriminate.
Qed.

Lemma t_examplestable n comments idc : node_rt n = KR RExamplesTable -> node_ok n ->
  tnode_spec RExamplesTable (transform_node n comments idc).
Proof.
  intros Rt Ok. pose proof (node_ok_node_ok1 n Ok) as H1. unfold transform_node. rewrite Rt.
  pose proof (p_table_rows n H1 idc) as T. destruct (get_table_rows n idc) as [rows i| |] eqn:G; cbn [tbind tnode_spec]; [|now right|congruence].
  unfold val_ok. cbn. exists rows. split; [reflexivity | eapply get_table_rows_same_len; eauto].
Qed.

Lemma t_description n comments idc : node_rt n = KR RDescription -> node_ok n ->
  tnode_spec RDescription (transform_node n comments idc).
Proof.
  intros Rt Ok. pose proof (node_ok_node_ok1 n Ok) as H1. unfold transform_node. rewrite Rt.
  destruct (p_tokens n H1 KOther) as (lines & -> & Fl & _). cbn [opt_crash].
  assert (F2 : Forall (tok_ok KOther) (drop_trailing_blank lines)).
  { apply Forall_forall. intros t Ht. apply drop_trailing_blank_sub in Ht. rewrite Forall_forall in Fl. auto. }
  pose proof (texts_of_ok KOther _ (fun t H => proj2 H) F2) as Tl. some_of Tl. cbn [opt_crash].
  unfold val_ok. cbn. eauto.
Qed.

Lemma t_background n comments idc : node_rt n = KR RBackground -> node_ok n -> has_key n (KT KBackgroundLine) ->
  tnode_spec RBackground (transform_node n comments idc).
Proof.
  intros Rt Ok Hk. pose proof (node_ok_node_ok1 n Ok) as H1. unfold transform_node. rewrite Rt.
  destruct (has_key_token n KBackgroundLine H1 Hk) as (bl & -> & (_ & K & T)). cbn [opt_crash].
  some_of K. some_of T. cbn [opt_crash].
  pose proof (p_description n H1) as D. some_of D. cbn [opt_crash].
  pose proof (p_steps n H1) as S. some_of S. cbn [opt_crash].
  unfold val_ok. cbn. eauto.
Qed.

(* the value of a header-like child, as item_ok gives it *)
Lemma inner_child n x v : node_ok n -> is_inner x = true -> get_single n (KR x) = Some v ->
  exists cn, v = VNode cn /\ node_rt cn = KR x /\ node_ok1 cn /\ Forall (has_key cn) (inner_required x).
Proof.
  intros Ok Hx E. apply get_single_in in E. unfold node_ok in Ok. rewrite Forall_forall in Ok.
  specialize (Ok _ E). unfold item_ok, val_ok in Ok. simpl in Ok. rewrite Hx in Ok. exact Ok.
Qed.

Lemma has_key_single n k : has_key n k -> exists v, get_single n k = Some v.
Proof. unfold has_key. destruct (get_single n k); [eauto | congruence]. Qed.

Lemma t_scenariodef n comments idc : node_rt n = KR RScenarioDefinition -> node_ok n -> has_key n (KR RScenario) ->
  tnode_spec RScenarioDefinition (transform_node n comments idc).
Proof.
  intros Rt Ok Hk. pose proof (node_ok_node_ok1 n Ok) as H1. unfold transform_node. rewrite Rt.
  destruct (p_tags n H1 idc) as (tags & i & ->). cbn [tbind].
  destruct (has_key_single n _ Hk) as (v & E). rewrite E.
  destruct (inner_child n RScenario v Ok eq_refl E) as (sn & -> & _ & S1 & Sk).
  inversion Sk as [|? ? Hs _]; subst.
  destruct (has_key_token sn KScenarioLine S1 Hs) as (sl & -> & (_ & K & T)). cbn [opt_crash].
  some_of K. some_of T. cbn [opt_crash].
  pose proof (p_description sn S1) as D. some_of D. cbn [opt_crash].
  pose proof (p_steps sn S1) as St. some_of St. cbn [opt_crash].
  destruct (p_examples sn S1) as (es & -> & Re). cbn [opt_crash].
  unfold val_ok. cbn. eexists. split; [reflexivity | exact Re].
Qed.

Lemma t_examplesdef n comments idc : node_rt n = KR RExamplesDefinition -> node_ok n -> has_key n (KR RExamples) ->
  tnode_spec RExamplesDefinition (transform_node n comments idc).
Proof.
  intros Rt Ok Hk. pose proof (node_ok_node_ok1 n Ok) as H1. unfold transform_node. rewrite Rt.
  destruct (p_tags n H1 idc) as (tags & i & ->). cbn [tbind].
  destruct (has_key_single n _ Hk) as (v & E). rewrite E.
  destruct (inner_child n RExamples v Ok eq_refl E) as (en & -> & _ & S1 & Sk).
  inversion Sk as [|? ? Hs _]; subst.
  destruct (has_key_token en KExamplesLine S1 Hs) as (el & -> & (_ & K & T)). cbn [opt_crash].
  some_of K. some_of T. cbn [opt_crash].
  pose proof (p_description en S1) as D. some_of D. cbn [opt_crash].
  destruct (get_single en (KR RExamplesTable)) as [v2|] eqn:X.
  - destruct (p_single_leaf en S1 RExamplesTable v2 eq_refl X) as (rs & -> & Sl). cbn. unfold val_ok. cbn.
    eexists. split; [reflexivity|]. unfold rect_ex. cbn [ex_header ex_body].
    destruct rs as [|h rs]; [exact I|]. cbn [hd_error tl]. unfold same_len in Sl. inversion Sl as [|? ? _ Sl2]; subst.
    eapply Forall_impl; [|exact Sl2]. intros r Hr. cbv beta in Hr. lia.
  - cbn. unfold val_ok. cbn. eexists. split; [reflexivity | exact I].
Qed.

Lemma t_rule n comments idc : node_rt n = KR RRule -> node_ok n -> has_key n (KR RRuleHeader) ->
  tnode_spec RRule (transform_node n comments idc).
Proof.
  intros Rt Ok Hk. pose proof (node_ok_node_ok1 n Ok) as H1. unfold transform_node. rewrite Rt.
  destruct (has_key_single n _ Hk) as (v & E). rewrite E.
  destruct (inner_child n RRuleHeader v Ok eq_refl E) as (hn & -> & _ & S1 & Sk).
  inversion Sk as [|? ? Hs _]; subst.
  destruct (p_tags hn S1 idc) as (tags & i & ->). cbn [tbind].
  destruct (has_key_token hn KRuleLine S1 Hs) as (rl & -> & (_ & K & T)). cbn [opt_crash].
  some_of K. some_of T. cbn [opt_crash].
  destruct (get_single n (KR RBackground)) as [v2|] eqn:B.
  - destruct (p_single_leaf n H1 RBackground v2 eq_refl B) as (b & ->). cbn [opt_crash].
    destruct (p_scenarios n H1) as (scs & -> & Rs). cbn [opt_crash].
    pose proof (p_description hn S1) as D. some_of D. cbn [opt_crash]. unfold val_ok. cbn.
    eexists. split; [reflexivity|]. cbn [ru_children]. constructor; [exact I|]. apply Forall_map. exact Rs.
  - cbn [opt_crash].
    destruct (p_scenarios n H1) as (scs & -> & Rs). cbn [opt_crash].
    pose proof (p_description hn S1) as D. some_of D. cbn [opt_crash]. unfold val_ok. cbn.
    eexists. split; [reflexivity|]. cbn [ru_children app]. apply Forall_map. exact Rs.
Qed.

Lemma t_feature n comments idc : node_rt n = KR RFeature -> node_ok n ->
  tnode_spec RFeature (transform_node n comments idc).
Proof.
  intros Rt Ok. pose proof (node_ok_node_ok1 n Ok) as H1. unfold transform_node. rewrite Rt.
  destruct (get_single n (KR RFeatureHeader)) as [v|] eqn:E; [|cbn; unfold val_ok; cbn; now right].
  destruct (inner_child n RFeatureHeader v Ok eq_refl E) as (hn & -> & _ & S1 & _).
  destruct (p_tags hn S1 idc) as (tags & i & ->). cbn [tbind].
  destruct (p_token hn S1 KFeatureLine) as [(fl & -> & (_ & K & T))|[-> _]]; cbn [opt_crash]; [|unfold val_ok; cbn; now right].
  some_of K. some_of T. cbn [opt_crash].
  assert (Bg : exists bgc, match get_single n (KR RBackground) with
                           | None => Some [] | Some (VBackground b) => Some [FCBackground b] | Some _ => None end = Some bgc
                           /\ Forall rect_fchild bgc).
  { destruct (get_single n (KR RBackground)) as [v2|] eqn:B; [|exists []; split; [reflexivity | constructor]].
    destruct (p_single_leaf n H1 RBackground v2 eq_refl B) as (b & ->). exists [FCBackground b]. split; [reflexivity|].
    constructor; [exact I | constructor]. }
  destruct Bg as (bgc & -> & Rb). cbn [opt_crash].
  destruct (p_scenarios n H1) as (scs & -> & Rs). cbn [opt_crash].
  destruct (p_rules n H1) as (rs & -> & Fr & Rr). cbn [opt_crash].
  pose proof (p_description hn S1) as D. some_of D. cbn [opt_crash].
  rewrite Fr. unfold val_ok. cbn. left. eexists. split; [reflexivity|]. cbn [f_children].
  apply Forall_app. split; [exact Rb|]. apply Forall_app. split; [apply Forall_map; exact Rs | exact Rr].
Qed.

Lemma t_document n comments idc : node_rt n = KR RGherkinDocument -> node_ok n ->
  tnode_spec RGherkinDocument (transform_node n comments idc).
Proof.
  intros Rt Ok. pose proof (node_ok_node_ok1 n Ok) as H1. unfold transform_node. rewrite Rt.
  destruct (get_single n (KR RFeature)) as [v|] eqn:E; [|cbn; unfold val_ok; cbn; eexists; split; [reflexivity | exact I]].
  destruct (p_single_leaf n H1 RFeature v eq_refl E) as [(f & -> & Rf)| ->]; cbn; unfold val_ok; cbn;
    (eexists; split; [reflexivity|]); [exact Rf | exact I].
Qed.

(* header-like rules and Tags are kept as nodes *)
Lemma t_inner n comments idc x : node_rt n = KR x -> node_ok n -> is_inner x = true ->
  Forall (has_key n) (inner_required x) -> tnode_spec x (transform_node n comments idc).
Proof.
  intros Rt Ok Hx Hk. unfold transform_node. rewrite Rt.
  destruct x; try discriminate Hx; cbn [tnode_spec]; unfold val_ok; cbn [is_inner];
    (exists n; repeat split; auto; apply node_ok_node_ok1; exact Ok).
Qed.

Lemma t_tags n comments idc : node_rt n = KR RTags -> node_ok n ->
  tnode_spec RTags (transform_node n comments idc).
Proof.
  intros Rt Ok. unfold transform_node. rewrite Rt. cbn [tnode_spec]. unfold val_ok. cbn.
  exists n. split; [reflexivity|]. unfold tokens_only_ok. intros v Hin.
  unfold node_ok in Ok. rewrite Forall_forall in Ok. destruct (Ok _ Hin) as (t & E2 & _). simpl in E2. eauto.
Qed.

(* ---- all rules ---- *)
Theorem transform_node_ok n comments idc x :
  node_rt n = KR x -> node_ok n -> Forall (has_key n) (required x) -> (x = RDocString -> docstring_ok n) ->
  tnode_spec x (transform_node n comments idc).
Proof.
  intros Rt Ok Hk Hd.
  assert (K1 : forall q, required x = [q] -> has_key n q).
  { intros q E. rewrite E in Hk. now inversion Hk. }
  destruct x.
  - apply t_document; auto.
  - apply t_feature; auto.
  - apply t_inner; auto.
  - apply t_rule; auto.
  - apply t_inner; auto.
  - apply t_background; auto.
  - apply t_scenariodef; auto.
  - apply t_inner; auto.
  - apply t_examplesdef; auto.
  - apply t_inner; auto.
  - apply t_examplestable; auto.
  - apply t_step; auto.
  - apply t_datatable; auto.
  - apply t_docstring; auto.
  - apply t_tags; auto.
  - apply t_description; auto.
Qed.
