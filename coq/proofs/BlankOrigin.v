(* C16, trailing blanks: the side condition of BlankParse.blanks_tokens ("the paired run ends with its flag down")
   follows from a static condition on the changed lines (none is a comment line; in no dialect does the step-keyword
   test change its answer) and a condition on what the run builds: no changed line is handed to the builder as free
   text (kind Other).  Instance of FlagOrigin for the paired run A. *)
From Param Require Import Param.
From Coq Require Import String List Bool Arith NArith Lia.
Import ListNotations.
Require Import Kinds Automaton AutoFacts PyStr Line Matcher MatcherFacts Builder Pipeline PipelineFacts Table Dialects
               LayoutFacts TerminatorFacts BuilderErase ParamGlue Delivery LineEndings AgreeUpTo BlankTail BlankParse FlagOrigin.

(* ---- side conditions on the regenerated table ---- *)
Fixpoint after_starts (ps : list prod) : bool :=
  match ps with
  | PS _ :: r => after_starts r
  | Kinds.PB :: _ => true
  | _ => false
  end.
Lemma after_starts_spec ps : after_starts ps = true -> exists rs rest, ps = map PS rs ++ Kinds.PB :: rest.
Proof.
  induction ps as [|p ps IH]; cbn; [discriminate|]. destruct p as [r|r|]; try discriminate.
  - intros H. destruct (IH H) as (rs & rest & ->). exists (r :: rs), rest. reflexivity.
  - intros _. exists [], ps. reflexivity.
Qed.
Definition other_test_ok (y : test) : bool :=
  if kind_beq (t_kind y) KOther then (match t_guard y with None => true | Some _ => false end) && after_starts (t_prods y) else true.
Definition guard_not_other (y : test) : bool :=
  match t_guard y with Some _ => negb (kind_beq (t_kind y) KOther) | None => true end.
Definition la_not_other (h : la) : bool := forallb (fun k => negb (kind_beq k KOther)) (la_expected h ++ la_skip h).
Lemma table_other_ok : forallb (fun x => forallb (fun y => other_test_ok y && guard_not_other y) (s_tests x)) Table.table = true.
Proof. vm_compute. reflexivity. Qed.
Lemma lookaheads_not_other : forallb la_not_other Table.lookaheads = true.
Proof. vm_compute. reflexivity. Qed.

Lemma test_facts x y : In x Table.table -> In y (s_tests x) -> other_test_ok y = true /\ guard_not_other y = true.
Proof.
  intros Ix Iy. pose proof table_other_ok as A. rewrite forallb_forall in A. specialize (A x Ix). rewrite forallb_forall in A.
  specialize (A y Iy). now apply andb_prop in A.
Qed.

(* ---- the instance ---- *)
Definition chg2 (x : tok2) : bool := match snd x with Some _ => true | None => false end.
(* static condition on a changed token: its line is not a comment line, and no dialect's step-keyword test answers
   differently on the two lines *)
Definition sok (x : tok2) : Prop :=
  match snd x with
  | None => True
  | Some t' => exists l l', tk_line (fst x) = Some l /\ tk_line t' = Some l' /\ line_startswith l [HASH] = false
               /\ forall d, In d dialects -> first_prefix l (step_keywords d) = first_prefix l' (step_keywords d)
  end.
Definition mq2 (m : ms2) : Prop := wf_ms (fst m).

Lemma ostr_eqb_refl a : ostr_eqb a a = true.
Proof. destruct a; cbn; [apply str_eqb_refl | reflexivity]. Qed.

Lemma rtok_matchA k m x : rtok (matchA k m x) =
  match snd x with
  | None => (mtok (p_matchf k (fst m) (fst x)), None)
  | Some t' => (mtok (p_matchf k (fst m) (fst x)), Some (mtok (p_matchf k (fst m) t')))
  end.
Proof. unfold matchA. destruct (snd x); destruct (p_matchf k (fst m) (fst x)); reflexivity. Qed.
Lemma ms_matchA k m x : fst (mres_ms (matchA k m x)) = mres_ms (p_matchf k (fst m) (fst x)).
Proof. unfold matchA. destruct (snd x); rewrite mres_ms_map; reflexivity. Qed.

Lemma p_matchf_wf k m t : wf_ms m -> wf_ms (mres_ms (p_matchf k m t)).
Proof.
  intros W. unfold p_matchf. pose proof (matcher_wf k m t W) as A. destruct (matcher dialects k m t); cbn [mres_ms]; [exact W | apply A | apply A].
Qed.
Lemma wf_dialect_in m : wf_ms m -> In (ms_dialect m) dialects.
Proof. intros [_ W]. unfold find_dialect in W. apply find_some in W. tauto. Qed.

Lemma A_q_m k m x : mq2 m -> sok x -> sok (rtok (matchA k m x)) /\ mq2 (mres_ms (matchA k m x)).
Proof.
  intros W S. split.
  - rewrite rtok_matchA. unfold sok in *. destruct (snd x) as [t'|]; cbn [snd fst]; [|exact I].
    destruct S as (l & l' & L & L' & Hh & St). exists l, l'. rewrite !p_matchf_line. auto.
  - unfold mq2. rewrite ms_matchA. apply p_matchf_wf, W.
Qed.
Lemma A_chg k m x : chg2 (rtok (matchA k m x)) = chg2 x.
Proof. rewrite rtok_matchA. unfold chg2. destruct (snd x); reflexivity. Qed.

Lemma A_flag k m x : mq2 m -> sok x -> flag m = false -> flag (mres_ms (matchA k m x)) = true ->
  k = KOther /\ chg2 x = true /\ exists t' m', matchA k m x = MR true t' m'.
Proof.
  intros W S F0 F1. unfold matchA, flag in *. unfold sok, chg2 in *. destruct (snd x) as [t'|].
  - rewrite mres_ms_map in F1. cbn [snd] in F1. rewrite F0 in F1. cbn [orb] in F1.
    destruct S as (l & l' & L & L' & Hh & St). unfold unblind in F1. rewrite L, L' in F1.
    destruct k; try discriminate F1.
    + rewrite Hh in F1. discriminate F1.
    + rewrite (St _ (wf_dialect_in _ W)), ostr_eqb_refl in F1. discriminate F1.
    + split; [reflexivity|]. split; [reflexivity|]. unfold p_matchf at 2, matcher. rewrite L. cbn [mres_map]. eexists; eexists; reflexivity.
  - rewrite mres_ms_map in F1. cbn [snd] in F1. rewrite F0 in F1. discriminate F1.
Qed.

Lemma A_other x y : In x Table.table -> In y (s_tests x) -> t_kind y = KOther ->
  t_guard y = None /\ exists rs rest, t_prods y = map PS rs ++ Kinds.PB :: rest.
Proof.
  intros Ix Iy K. destruct (test_facts x y Ix Iy) as [O _]. unfold other_test_ok in O. rewrite K in O. cbn [kind_beq] in O.
  apply andb_prop in O as [G A]. split; [destruct (t_guard y); [discriminate G | reflexivity] | apply after_starts_spec, A].
Qed.
Lemma A_guard x y : In x Table.table -> In y (s_tests x) -> t_guard y <> None -> t_kind y <> KOther.
Proof.
  intros Ix Iy G K. destruct (test_facts x y Ix Iy) as [_ O]. unfold guard_not_other in O. destruct (t_guard y); [|congruence].
  rewrite K in O. discriminate O.
Qed.
Lemma A_la h k : In h Table.lookaheads -> In k (la_expected h ++ la_skip h) -> k <> KOther.
Proof.
  intros Ih Ik K. pose proof lookaheads_not_other as A. rewrite forallb_forall in A. specialize (A h Ih). unfold la_not_other in A.
  rewrite forallb_forall in A. specialize (A k Ik). rewrite K in A. discriminate A.
Qed.
Lemma A_start r b : exists b', p_bstart r b = BOk b'.
Proof. unfold p_bstart, builder_start. cbn. eexists; reflexivity. Qed.

(* a changed token was handed to the builder as free text *)
Definition built_changed_other {A} (r : res tok2 ms2 bstate perror A) : Prop :=
  match r with
  | Ok _ c | Raise1 _ c | RaiseC _ c | Crash c => exists x, In (EvB x KOther) (log c) /\ chg2 x = true
  | OutOfFuel => True
  end.

Theorem blank_safe_of_built stop xs m b : wf_ms m -> Forall sok xs ->
  ~ built_changed_other (paired_run stop xs m b) -> blank_safe stop xs m b.
Proof.
  intros W S N. unfold blank_safe, paired_run in *.
  pose proof (parse_flag_origin PA flag chg2 sok mq2 (fun n => I) A_q_m A_chg A_flag A_other A_start A_la A_guard stop xs
                (reset_matcher dialects m, false) (reset_builder b) S (proj1 (reset_matcher_wf' m W)) eq_refl) as G.
  destruct (parse PA stop xs (reset_matcher dialects m, false) (reset_builder b)) as [a c|e c|es c|c|]; cbn [good built_changed_other] in *;
    try (destruct (flag (ms c)) eqn:F; [exfalso; apply N; exact (G eq_refl) | reflexivity]).
  apply N. exact I.
Qed.

(* ---- lines ---- *)
Definition lstatic (a b : str) : Prop :=
  a = b \/ (starts_with [HASH] (lstrip a) = false /\ forall d, In d dialects ->
            first_prefix (make_line a 0) (step_keywords d) = first_prefix (make_line b 0) (step_keywords d)).
Lemma first_prefix_no a n n' ks : first_prefix (make_line a n) ks = first_prefix (make_line a n') ks.
Proof. induction ks as [|k ks IH]; cbn [first_prefix]; [reflexivity|]. unfold line_startswith. cbn [l_trimmed make_line]. now rewrite IH. Qed.
Lemma pair_lines_sok : forall ls ls', Forall2 lstatic ls ls' -> forall n, Forall sok (pair_lines ls ls' n).
Proof.
  induction 1 as [|a b ls ls' R H IH]; intros n; cbn [pair_lines]; constructor; [|apply IH].
  unfold sok. cbn [snd fst]. destruct (str_eqb a b) eqn:E; [exact I|].
  destruct R as [->|[Hh St]]; [rewrite str_eqb_refl in E; discriminate E|].
  exists (make_line a n), (make_line b n). repeat split; auto. intros d Id.
  rewrite (first_prefix_no a n 0), (first_prefix_no b n 0). apply St, Id.
Qed.

Theorem trailing_whitespace_built stop m b src src' : wf_ms m ->
  Forall2 lrel (py_lines src) (py_lines src') -> Forall2 lstatic (py_lines src) (py_lines src') ->
  ~ built_changed_other (paired_run stop (pair_lines (py_lines src) (py_lines src') 1) m b) ->
  psim (parse_source stop m b src) (parse_source stop m b src').
Proof.
  intros W R S N. apply trailing_whitespace_neutral; [exact W | exact R|].
  apply blank_safe_of_built; [exact W | apply pair_lines_sok, S | exact N].
Qed.

(* the log of the paired run is the log of the real run on the first source, every token with its twin *)
Notation ev_R := Gherkin_o_Automaton_o_ev_R.
Definition ev_fst (e : ev tok2) : ev token :=
  match e with EvS r => EvS r | EvE r => EvE r | EvB x k => EvB (fst x) k | EvX x s => EvX (fst x) s end.
Lemma log_R_map lg lg' : list_R (ev tok2) (ev token) (ev_R tok2 token TRa) lg lg' -> map ev_fst lg = lg'.
Proof.
  induction 1 as [|e e' He l l' Hl IH]; [reflexivity|]. cbn [map]. rewrite IH. f_equal.
  destruct He as [r r' Hr|r r' Hr|x t Hx k k' Hk|x t Hx s s' Hs]; cbn [ev_fst].
  - apply rule_R_eq in Hr. now subst.
  - apply rule_R_eq in Hr. now subst.
  - apply kind_R_eq in Hk. unfold TRa in Hx. now subst.
  - apply nat_R_eq in Hs. unfold TRa in Hx. now subst.
Qed.
Definition log_of {T M B A} (r : res T M B perror A) : list (ev T) :=
  match r with Ok _ c | Raise1 _ c | RaiseC _ c | Crash c => log c | OutOfFuel => [] end.
Theorem paired_log stop xs m b : map ev_fst (log_of (paired_run stop xs m b)) = log_of (parse_tokens stop (map fst xs) m b).
Proof.
  unfold paired_run, parse_tokens, parse_tokens_with.
  pose proof (parse_R _ _ TRa _ _ MRa _ _ eq _ _ ER PA (pipeline_params Table.table) paramsA_related stop stop (bool_R_refl stop)
                xs (map fst xs) (list_R_fst xs) (reset_matcher dialects m, false) (reset_matcher dialects m) eq_refl
                (reset_builder b) (reset_builder b) eq_refl) as R.
  destruct R as [a a' _ c c' Hc|e e' He c c' Hc|es es' Hes c c' Hc|c c' Hc|]; cbn [log_of]; try reflexivity;
    destruct Hc as [q q' _ r r' _ ln ln' _ er er' _ ms1 ms1' Hms bs1 bs1' Hbs cl cl' Hcl lg lg' Hlg]; cbn [log]; apply log_R_map, Hlg.
Qed.

(* boolean versions, for examples *)
Definition lstaticb (a b : str) : bool :=
  str_eqb a b || (negb (starts_with [HASH] (lstrip a)) &&
                  forallb (fun d => ostr_eqb (first_prefix (make_line a 0) (step_keywords d)) (first_prefix (make_line b 0) (step_keywords d))) dialects).
Lemma lstaticb_ok a b : lstaticb a b = true -> lstatic a b.
Proof.
  unfold lstaticb. intros H. apply orb_prop in H as [H|H]; [left; now apply str_eqb_eq|]. right.
  apply andb_prop in H as [H1 H2]. split; [now apply negb_true_iff in H1|].
  intros d Id. rewrite forallb_forall in H2. apply ostr_eqb_eq, H2, Id.
Qed.
Definition ev_changed_other (e : ev tok2) : bool := match e with EvB x KOther => chg2 x | _ => false end.
Definition no_changed_other {A} (r : res tok2 ms2 bstate perror A) : bool :=
  match r with
  | Ok _ c | Raise1 _ c | RaiseC _ c | Crash c => negb (existsb ev_changed_other (log c))
  | OutOfFuel => false
  end.
Lemma no_changed_other_ok {A} (r : res tok2 ms2 bstate perror A) : no_changed_other r = true -> ~ built_changed_other r.
Proof.
  destruct r as [a c|e c|es c|c|]; cbn [no_changed_other built_changed_other]; try discriminate;
    intros H (x & I & C); apply negb_true_iff in H;
    (assert (X : existsb ev_changed_other (log c) = true) by (apply existsb_exists; exists (EvB x KOther); split; [exact I | exact C]));
    rewrite X in H; discriminate H.
Qed.
