(* C15: the pickle compiler, too, sees the id counter and the AST's ids only as an offset. *)
From Coq Require Import String List Bool Arith NArith Lia.
Import ListNotations.
Require Import Kinds PyStr Line Matcher Ast Builder Compiler IdShift.

Section K.
  Variable k : nat.
  Notation sht := (sh_tag k). Notation shr := (sh_row k). Notation shs := (sh_step k).

  Definition sh_pstep (p : pstep) : pstep :=
    mk_pstep (map (fun n => n + k) (ps_nodes p)) (ps_id p + k) (ps_type p) (ps_text p) (ps_arg p).
  Definition sh_ptag (t : ptag) : ptag := mk_ptag (pt_node t + k) (pt_name t).
  Definition sh_pickle (p : pickle) : pickle :=
    mk_pickle (map (fun n => n + k) (p_nodes p)) (p_id p + k) (map sh_ptag (p_tags p)) (p_name p) (p_language p)
              (map sh_pstep (p_steps p)) (p_uri p).
  Definition osh (r : option (list pickle * nat)) : option (list pickle * nat) :=
    option_map (fun r => (map sh_pickle (fst r), snd r + k)) r.
  Definition ssh (r : option (list pstep * ptype * nat)) : option (list pstep * ptype * nat) :=
    option_map (fun r => (map sh_pstep (fst (fst r)), snd (fst r), snd r + k)) r.

  Lemma map_opt_rows {B} (F : list cell -> option B) rows :
    map_opt (fun r => F (r_cells r)) (map shr rows) = map_opt (fun r => F (r_cells r)) rows.
  Proof. induction rows as [|r rs IH]; cbn; [reflexivity|]. now rewrite IH. Qed.

  Lemma pickle_argument_shift s vars vals : pickle_argument (shs s) vars vals = pickle_argument s vars vals.
  Proof.
    unfold pickle_argument. cbn [st_arg sh_step]. destruct (st_arg s) as [|l rows|d]; cbn [sh_arg]; try reflexivity.
    f_equal. apply (map_opt_rows (fun cs => map_opt (fun c => interpolate (c_value c) vars vals) cs)).
  Qed.

  Lemma plain_steps_shift steps : forall last i,
    plain_steps (map shs steps) last (i + k) = ssh (plain_steps steps last i).
  Proof.
    induction steps as [|s r IH]; intros last i; cbn [map plain_steps]; [reflexivity|].
    rewrite pickle_argument_shift. cbn [st_ktype sh_step]. destruct (pickle_argument s [] []) as [arg|]; [|reflexivity].
    change (S (i + k)) with (S i + k). rewrite IH. destruct (plain_steps r _ (S i)) as [[[ps l] j]|]; reflexivity.
  Qed.
  Lemma outline_steps_shift steps vars vals rid : forall last i,
    outline_steps (map shs steps) vars vals (rid + k) last (i + k) = ssh (outline_steps steps vars vals rid last i).
  Proof.
    induction steps as [|s r IH]; intros last i; cbn [map outline_steps]; [reflexivity|].
    rewrite pickle_argument_shift. cbn [st_ktype st_text sh_step].
    destruct (interpolate (st_text s) vars vals) as [text|]; [|reflexivity]. destruct (pickle_argument s vars vals) as [arg|]; [|reflexivity].
    change (S (i + k)) with (S i + k). rewrite IH. destruct (outline_steps r vars vals rid _ (S i)) as [[[ps l] j]|]; reflexivity.
  Qed.
  Lemma pickle_tags_shift ts : pickle_tags (map sht ts) = map sh_ptag (pickle_tags ts).
  Proof. unfold pickle_tags. rewrite !map_map. reflexivity. Qed.

  Lemma compile_scenario_shift uri inh bg sc lang i :
    compile_scenario uri (map sht inh) (map shs bg) (sh_sc k sc) lang (i + k) = osh (compile_scenario uri inh bg sc lang i).
  Proof.
    unfold compile_scenario. cbv zeta. cbn [sc_tags sc_steps sc_id sc_name sh_sc]. rewrite <- (map_app sht), pickle_tags_shift.
    destruct (sc_steps sc) as [|s0 ss] eqn:E; cbn [map]; [reflexivity|].
    change (shs s0 :: map shs ss) with (map shs (s0 :: ss)). rewrite <- (map_app shs), plain_steps_shift.
    destruct (plain_steps (bg ++ s0 :: ss) PUnknown i) as [[[ps l] j]|]; reflexivity.
  Qed.

  Lemma compile_row_shift uri inh bg sc ex vars values lang i :
    compile_row uri (map sht inh) (map shs bg) (sh_sc k sc) (sh_ex k ex) vars (shr values) lang (i + k)
    = option_map (fun r => (sh_pickle (fst r), snd r + k)) (compile_row uri inh bg sc ex vars values lang i).
  Proof.
    unfold compile_row. cbv zeta. cbn [sc_tags sc_steps sc_id sc_name sh_sc ex_tags sh_ex r_cells r_id sh_row].
    rewrite <- !(map_app sht), pickle_tags_shift.
    destruct (sc_steps sc) as [|s0 ss] eqn:E; cbn [map].
    - destruct (interpolate (sc_name sc) vars (r_cells values)); reflexivity.
    - change (shs s0 :: map shs ss) with (map shs (s0 :: ss)). rewrite plain_steps_shift.
      destruct (plain_steps bg PUnknown i) as [[[bs last] i1]|]; cbn [ssh option_map fst snd]; [|reflexivity].
      rewrite outline_steps_shift. destruct (outline_steps (s0 :: ss) vars (r_cells values) (r_id values) last i1) as [[[os l] i2]|]; cbn [ssh option_map fst snd]; [|reflexivity].
      rewrite <- (map_app sh_pstep). destruct (interpolate (sc_name sc) vars (r_cells values)); reflexivity.
  Qed.

  Lemma compile_rows_shift uri inh bg sc ex vars rows lang : forall i,
    compile_rows uri (map sht inh) (map shs bg) (sh_sc k sc) (sh_ex k ex) vars (map shr rows) lang (i + k)
    = osh (compile_rows uri inh bg sc ex vars rows lang i).
  Proof.
    induction rows as [|r rs IH]; intros i; cbn [map compile_rows]; [reflexivity|].
    rewrite compile_row_shift. destruct (compile_row uri inh bg sc ex vars r lang i) as [[p j]|]; cbn [option_map fst snd]; [|reflexivity].
    rewrite IH. destruct (compile_rows uri inh bg sc ex vars rs lang j) as [[ps j']|]; reflexivity.
  Qed.

  Lemma compile_examples_shift uri inh bg sc exs lang : forall i,
    compile_examples uri (map sht inh) (map shs bg) (sh_sc k sc) (map (sh_ex k) exs) lang (i + k)
    = osh (compile_examples uri inh bg sc exs lang i).
  Proof.
    induction exs as [|ex r IH]; intros i; cbn [map compile_examples]; [reflexivity|].
    cbn [ex_header ex_body sh_ex]. destruct (ex_header ex) as [h|]; cbn [option_map]; [|apply IH].
    cbn [r_cells sh_row]. rewrite compile_rows_shift.
    destruct (compile_rows uri inh bg sc ex (r_cells h) (ex_body ex) lang i) as [[ps j]|]; cbn [osh option_map fst snd]; [|reflexivity].
    rewrite IH. destruct (compile_examples uri inh bg sc r lang j) as [[ps' j']|]; cbn [osh option_map fst snd]; [|reflexivity].
    now rewrite map_app.
  Qed.

  Lemma compile_scenario_def_shift uri inh bg sc lang i :
    compile_scenario_def uri (map sht inh) (map shs bg) (sh_sc k sc) lang (i + k) = osh (compile_scenario_def uri inh bg sc lang i).
  Proof.
    unfold compile_scenario_def. cbn [sc_examples sh_sc]. destruct (sc_examples sc) as [|e es] eqn:E; cbn [map].
    - apply compile_scenario_shift.
    - change (sh_ex k e :: map (sh_ex k) es) with (map (sh_ex k) (e :: es)). apply compile_examples_shift.
  Qed.

  Lemma compile_rule_children_shift uri cs lang : forall tags bg i,
    compile_rule_children uri (map sht tags) (map shs bg) (map (sh_rchild k) cs) lang (i + k)
    = osh (compile_rule_children uri tags bg cs lang i).
  Proof.
    induction cs as [|c r IH]; intros tags bg i; cbn [map compile_rule_children]; [reflexivity|].
    destruct c as [b|sc]; cbn [sh_rchild].
    - cbn [bg_steps sh_bg]. rewrite <- (map_app shs). apply IH.
    - rewrite compile_scenario_def_shift. destruct (compile_scenario_def uri tags bg sc lang i) as [[ps j]|]; cbn [osh option_map fst snd]; [|reflexivity].
      rewrite IH. destruct (compile_rule_children uri tags bg r lang j) as [[ps' j']|]; cbn [osh option_map fst snd]; [|reflexivity].
      now rewrite map_app.
  Qed.

  Lemma compile_children_shift uri ftags cs lang : forall bg i,
    compile_children uri (map sht ftags) (map shs bg) (map (sh_fchild k) cs) lang (i + k)
    = osh (compile_children uri ftags bg cs lang i).
  Proof.
    induction cs as [|c r IH]; intros bg i; cbn [map compile_children]; [reflexivity|].
    destruct c as [b|sc|ru]; cbn [sh_fchild].
    - cbn [bg_steps sh_bg]. rewrite <- (map_app shs). apply IH.
    - rewrite compile_scenario_def_shift. destruct (compile_scenario_def uri ftags bg sc lang i) as [[ps j]|]; cbn [osh option_map fst snd]; [|reflexivity].
      rewrite IH. destruct (compile_children uri ftags bg r lang j) as [[ps' j']|]; cbn [osh option_map fst snd]; [|reflexivity].
      now rewrite map_app.
    - cbn [ru_tags ru_children sh_rule]. rewrite <- (map_app sht), compile_rule_children_shift.
      destruct (compile_rule_children uri (ftags ++ ru_tags ru) bg (ru_children ru) lang i) as [[ps j]|]; cbn [osh option_map fst snd]; [|reflexivity].
      rewrite IH. destruct (compile_children uri ftags bg r lang j) as [[ps' j']|]; cbn [osh option_map fst snd]; [|reflexivity].
      now rewrite map_app.
  Qed.

  (* compiling the shifted document with the shifted counter gives the shifted pickles *)
  Theorem compile_shift uri d i : compile uri (sh_doc k d) (i + k) = osh (compile uri d i).
  Proof.
    unfold compile. cbn [doc_feature sh_doc]. destruct (doc_feature d) as [f|]; cbn [option_map]; [|reflexivity].
    cbn [f_tags f_children f_language sh_feature]. apply (compile_children_shift uri (f_tags f) (f_children f) (f_language f) [] i).
  Qed.
End K.
