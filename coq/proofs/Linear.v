(* C01, "nothing hangs": the number of TokenMatcher.match_* calls made by Parser.parse is at most
   (T + G*L) * (lines + 1), for the generic interpreter -- T tests per state, G guarded tests per
   state, L matcher calls per token inside a look-ahead.  The look-ahead re-reads its queue, so the
   bound is an amortised one: a look-ahead starts with an empty queue (invariant: a non-empty queue
   means the parser is in a "quiet" state, one without guarded tests, and quiet states are closed
   under the tokens a look-ahead skips), hence every token is scanned by the look-aheads of at most
   one parser step. *)
From Coq Require Import List Bool Arith Lia.
Import ListNotations.
Require Import Kinds Automaton AutoFacts Delivery.

Section Linear.
  Context {Tok MS BS Err : Type}.
  Variable P : params Tok MS BS Err.
  Notation ctx := (ctx Tok MS BS Err).
  Notation res := (res Tok MS BS Err).

  Variable K : Type.
  Variable key : Tok -> K.
  Variable sk : Tok -> Prop.
  Variable I : MS -> Prop.

  (* the hypotheses of the delivery theorem *)
  Hypothesis Hkey : forall k m t, key (mtok (matchf P k m t)) = key t.
  Hypothesis Heof : forall k m t, is_eof P (mtok (matchf P k m t)) = is_eof P t.
  Hypothesis Hmkeof : forall n, is_eof P (mk_eof P n) = true.
  Hypothesis HI : forall k m t, I m -> I (mst (matchf P k m t)).
  Hypothesis sk_not_eof : forall t, sk t -> is_eof P t = false.
  Hypothesis S1 : forall h k m t t' m', In h (lookaheads P) -> In k (la_skip h) -> I m ->
    matchf P k m t = MR true t' m' -> sk t'.
  Hypothesis S2 : forall h m t, In h (lookaheads P) -> I m -> sk t ->
    (forall k, In k (la_expected h) -> matchf P k m t = MR false t m)
    /\ exists ks1 k ks2, la_skip h = ks1 ++ k :: ks2
         /\ (forall k1, In k1 ks1 -> matchf P k1 m t = MR false t m)
         /\ exists t' m', matchf P k m t = MR true t' m' /\ sk t'.
  Hypothesis la_no_eof : forall h, In h (lookaheads P) -> ~ In KEOF (la_expected h) /\ ~ In KEOF (la_skip h).

  Notation W := (W P sk I).
  Notation U := (U P K key).

  (* ---- calls: what one operation costs ---- *)
  Lemma add_error_calls e c : sat (add_error P e c) (fun _ c' => calls c' = calls c) (fun c' => calls c' = calls c) False.
  Proof. unfold add_error. destruct (existsb _ _); simpl; [reflexivity|]. destruct (_ <? _); reflexivity. Qed.

  Lemma match_k_calls stop k t c :
    sat (match_k P stop k t c) (fun _ c' => calls c' <= calls c + 1) (fun c' => calls c' <= calls c + 1) False.
  Proof.
    unfold match_k. destruct (_ && _); simpl; [lia|].
    destruct (matchf P k (ms c) t) as [b t' m'|e t' m']; simpl; [lia|].
    destruct stop; simpl; [lia|].
    pose proof (add_error_calls e (set_ms m' (bump c))) as A.
    destruct (add_error P e (set_ms m' (bump c))) as [[] c'| | | |]; simpl in *; lia.
  Qed.

  Lemma any_match_calls stop ks : forall t c,
    sat (any_match P stop ks t c) (fun _ c' => calls c' <= calls c + length ks) (fun c' => calls c' <= calls c + length ks) False.
  Proof.
    induction ks as [|k ks IH]; intros t c; simpl; [lia|].
    eapply sat_bind; [eapply sat_weaken; [apply match_k_calls | | | auto]|].
    - intros a c' H. exact H.
    - intros c' H. simpl in H. lia.
    - intros [b t'] c' H. simpl in *. destruct b; simpl; [lia|].
      eapply sat_weaken; [apply IH | | | auto]; simpl; intros; lia.
  Qed.

  Lemma b_call_calls stop f c : sat (b_call P stop f c) (fun _ c' => calls c' = calls c) (fun c' => calls c' = calls c) False.
  Proof.
    unfold b_call. destruct (f (bs c)); simpl; [reflexivity| |reflexivity].
    destruct stop; simpl; [reflexivity|].
    pose proof (add_error_calls e (set_bs b c)) as A.
    destruct (add_error P e (set_bs b c)) as [[] c'| | | |]; simpl in *; auto.
  Qed.

  Lemma exec_calls stop t k : forall ps c,
    sat (exec P stop t k ps c) (fun _ c' => calls c' = calls c) (fun c' => calls c' = calls c) False.
  Proof.
    induction ps as [|p ps IH]; intros c; cbn [exec]; [reflexivity|].
    eapply sat_bind with (Q1 := fun _ c1 => calls c1 = calls c).
    - destruct p; (eapply sat_weaken; [apply b_call_calls | | | auto]; simpl; auto).
    - intros _ c1 E1. eapply sat_weaken; [apply IH | | | auto]; simpl; intros; congruence.
  Qed.

  Lemma read_calls c : calls (snd (read P c)) = calls c.
  Proof. unfold read. destruct (queue c); [destruct (rest c)|]; reflexivity. Qed.

  Lemma U_len_pos c : 1 <= length (U c).
  Proof. pose proof (U_nonempty P K key c) as H. destruct (U c); [congruence | simpl; lia]. Qed.

  Definition lcost (h : la) : nat := length (la_expected h) + length (la_skip h).

  (* a look-ahead pays lcost per token it reads, and reads no further than the end of file *)
  Lemma la_loop_cost stop h : In h (lookaheads P) -> forall fuel c acc, W c -> sz c < fuel ->
    sat (la_loop P fuel stop h c acc)
        (fun r c1 => exists toks, snd r = acc ++ toks /\ calls c1 <= calls c + lcost h * length toks /\ length toks <= length (U c)
                              /\ length (queue c) <= length toks + length (queue c1))
        (fun c1 => calls c1 <= calls c + lcost h * length (U c)) False.
  Proof.
    intros Hh. unfold lcost. induction fuel as [|f IH]; intros c acc (Hq & Hr & Hi) Hf; [lia|].
    cbn [la_loop]. pose proof (read_calls c) as Rc. destruct (read P c) as [t c0] eqn:R. cbn [snd] in Rc.
    destruct (read_spec P K key sk Hmkeof c t c0 R Hq Hr) as (_ & Ms & _ & _ & Hq0 & Hr0 & HU & Hsz & Hqq & Hq00 & _).
    assert (Hi0 : I (ms c0)) by (rewrite Ms; exact Hi).
    assert (Ql : length (queue c) <= 1 + length (queue c0)).
    { destruct (queue c) as [|q qs] eqn:Qc; [simpl; lia|]. destruct (Hqq q qs eq_refl) as [_ ->]. simpl; lia. }
    pose proof (U_len_pos c) as Up.
    assert (HUl : length (U c) = 1 + (if is_eof P t then 0 else length (U c0))).
    { rewrite HU. simpl. destruct (is_eof P t); reflexivity. }
    eapply sat_bind with (Q1 := fun r c2 => (fq c0 c2 /\ I (ms c2) /\ key (snd r) = key t /\ is_eof P (snd r) = is_eof P t)
                                          /\ calls c2 <= calls c0 + length (la_expected h)).
    { eapply sat_weaken; [apply (sat_and _ _ _ _ _ _ _ (any_match_fq P K key I Hkey Heof HI stop (la_expected h) t c0 Hi0)
                                          (any_match_calls stop (la_expected h) t c0)) | auto | | tauto].
      intros c2 [_ X]. nia. }
    intros [b t1] c2 ((F2 & Hi2 & K1 & E1) & C2). cbn [fst snd] in *.
    assert (Q2 : queue c2 = queue c0) by apply F2.
    destruct b; cbn [sat].
    { exists [t1]. split; [reflexivity|]. simpl. rewrite Q2. repeat split; lia. }
    destruct (is_eof P t) eqn:Et.
    - rewrite (any_match_eof P stop (la_skip h) t1 c2); [|congruence | apply (la_no_eof h Hh)]. cbn [bind fst snd sat].
      exists [t1]. split; [reflexivity|]. simpl. rewrite Q2. repeat split; lia.
    - eapply sat_bind with (Q1 := fun r c3 => (fq c2 c3 /\ I (ms c3) /\ key (snd r) = key t1 /\ is_eof P (snd r) = is_eof P t1)
                                            /\ calls c3 <= calls c2 + length (la_skip h)).
      { eapply sat_weaken; [apply (sat_and _ _ _ _ _ _ _ (any_match_fq P K key I Hkey Heof HI stop (la_skip h) t1 c2 Hi2)
                                            (any_match_calls stop (la_skip h) t1 c2)) | auto | | tauto].
        intros c3 [_ X]. nia. }
      intros [b' t2] c3 ((F3 & Hi3 & K2 & E2) & C3). cbn [fst snd] in *.
      assert (F03 : fq c0 c3) by (eapply fq_trans; eauto).
      destruct b'; cbn [sat].
      + assert (W3 : W c3) by (apply (fq_W P sk I c0 c3 F03 Hi3); exact (conj Hq0 (conj Hr0 Hi0))).
        assert (Sz3 : sz c3 < f).
        { destruct F03 as (A1 & A2 & _). unfold sz in *. rewrite A1, A2. specialize (Hsz eq_refl). lia. }
        pose proof (U_fq P K key c0 c3 F03) as U3.
        eapply sat_weaken; [apply (IH c3 (acc ++ [t2]) W3 Sz3) | | | auto].
        * intros r c1 (toks & E & C & Ln & Lq). exists (t2 :: toks). split; [rewrite E, <- app_assoc; reflexivity|].
          cbn [length]. rewrite U3 in Ln. assert (Q3 : queue c3 = queue c0) by apply F03. rewrite Q3 in Lq.
          split; [nia|]. split; lia.
        * intros c1 C. rewrite U3 in C. nia.
      + exists [t2]. split; [reflexivity|]. simpl. assert (Q3 : queue c3 = queue c0) by apply F03. rewrite Q3. repeat split; lia.
  Qed.

  Variable L : nat.
  Hypothesis HL : forall h, In h (lookaheads P) -> lcost h <= L.

  Lemma queue_le_U c : W c -> length (queue c) <= length (U c).
  Proof.
    intros ([Hq Hqe] & _ & _). unfold U, stream.
    assert (G : forall q suf, Forall sk (removelast q) -> length q <= length (map key (upto P (q ++ suf ++ [eofs P c])))).
    { induction q as [|t q IHq]; intros suf F; [simpl; lia|].
      cbn [app upto]. destruct q as [|t2 q].
      - destruct (is_eof P t); simpl; lia.
      - rewrite removelast_cons_ne in F by discriminate. inversion F; subst.
        rewrite (sk_not_eof t) by assumption. cbn [map length]. specialize (IHq suf H2). simpl in *. lia. }
    apply G. exact Hq.
  Qed.

  Lemma lookahead_cost stop hn c : W c ->
    sat (lookahead P stop hn c)
        (fun _ c2 => (W c2 /\ U c2 = U c /\ log c2 = log c)
                     /\ calls c2 <= calls c + L * length (queue c2) /\ length (queue c) <= length (queue c2))
        (fun c2 => calls c2 <= calls c + L * length (U c)) False.
  Proof.
    intros Hw.
    pose proof (lookahead_spec P K key sk I Hkey Heof Hmkeof HI sk_not_eof S1 S2 la_no_eof stop hn c Hw) as Sp.
    unfold lookahead in *. destruct (find_la P hn) as [x|] eqn:Fl; [|cbn [sat]; lia].
    assert (Hx : In x (lookaheads P)) by (unfold find_la in Fl; apply find_some in Fl; tauto).
    specialize (HL x Hx).
    pose proof (la_loop_spec P K key sk I Hkey Heof Hmkeof HI sk_not_eof S1 S2 la_no_eof stop x Hx
                  (S (length (queue c) + length (rest c))) c [] Hw ltac:(unfold sz; lia)) as A.
    pose proof (la_loop_cost stop x Hx (S (length (queue c) + length (rest c))) c [] Hw ltac:(unfold sz; lia)) as B.
    destruct (la_loop P (S (length (queue c) + length (rest c))) stop x c []) as [[b acc] c1|e c1|es c1|c1|]; cbn [bind sat] in *;
      try (pose proof (Nat.mul_le_mono_r _ _ (length (U c)) HL); lia); try contradiction.
    destruct A as (_ & Q1 & _ & _ & _).
    destruct B as (toks & E & Cc & _ & Lq). cbn [snd app] in E. subst acc.
    split; [exact Sp|]. cbn [queue set_queue calls]. rewrite Q1 in *. cbn [app length snd] in *.
    pose proof (Nat.mul_le_mono_r _ _ (length toks) HL). split; lia.
  Qed.
End Linear.
