(* C01, "nothing hangs": the number of TokenMatcher.match_* calls made by Parser.parse is at most
   (T + G*L) * (lines + 1), for the generic interpreter -- T tests per state, G guarded tests per
   state, L matcher calls per token inside a look-ahead.  The look-ahead re-reads its queue, so the
   bound is an amortised one: a look-ahead starts with an empty queue (invariant: a non-empty queue
   means the parser is in a "quiet" state, one without guarded tests, and quiet states are closed
   under the tokens a look-ahead skips), hence every token is scanned by the look-aheads of at most
   one parser step. *)
From Coq Require Import List Bool Arith Lia.
Import ListNotations.
Require Import Kinds Automaton AutoFacts Delivery.

Lemma ar1 L g q q2 : q2 <= q -> L * q2 + L * (g * q) <= L * ((1 + g) * q).
Proof. intros H. replace (L * ((1 + g) * q)) with (L * q + L * (g * q)) by ring. pose proof (Nat.mul_le_mono_l _ _ L H). lia. Qed.
Lemma ar2 L g q u : q <= u -> L * (g * q) <= L * (g * u).
Proof. intros H. apply Nat.mul_le_mono_l, Nat.mul_le_mono_l, H. Qed.
Lemma ar3 L g u : L * u + L * (g * u) = L * ((1 + g) * u).
Proof. ring. Qed.
Lemma ar4 L q u : q <= u -> L * q <= L * u.
Proof. apply Nat.mul_le_mono_l. Qed.

Lemma ar5 A u1 : A * (1 + u1) = A + A * u1. Proof. ring. Qed.
Lemma ar6 L g G n : g <= G -> L * (g * n) <= (G * L) * n.
Proof. intros H. replace (L * (g * n)) with ((g * L) * n) by ring. apply Nat.mul_le_mono_r, Nat.mul_le_mono_r, H. Qed.
Lemma ar7 a q q1 : q <= q1 + 1 -> a * q <= a * q1 + a.
Proof. intros H. pose proof (Nat.mul_le_mono_l _ _ a H). lia. Qed.
Lemma ar8 T G u : (T + G) * u = T * u + G * u. Proof. ring. Qed.

Lemma kind_eq_dec' (a b : kind) : {a = b} + {a <> b}.
Proof. decide equality. Qed.

Section Linear.
  Context {Tok MS BS Err : Type}.
  Variable P : params Tok MS BS Err.
  Notation ctx := (ctx Tok MS BS Err).
  Notation res := (res Tok MS BS Err).

  Variable K : Type.
  Variable key : Tok -> K.
  Variable sk : Tok -> Prop.
  Variable I : MS -> Prop.

  (* the hypotheses of the delivery theorem *)
  Hypothesis Hkey : forall k m t, key (mtok (matchf P k m t)) = key t.
  Hypothesis Heof : forall k m t, is_eof P (mtok (matchf P k m t)) = is_eof P t.
  Hypothesis Hmkeof : forall n, is_eof P (mk_eof P n) = true.
  Hypothesis HI : forall k m t, I m -> I (mst (matchf P k m t)).
  Hypothesis sk_not_eof : forall t, sk t -> is_eof P t = false.
  Hypothesis S1 : forall h k m t t' m', In h (lookaheads P) -> In k (la_skip h) -> I m ->
    matchf P k m t = MR true t' m' -> sk t'.
  Hypothesis S2 : forall h m t, In h (lookaheads P) -> I m -> sk t ->
    (forall k, In k (la_expected h) -> matchf P k m t = MR false t m)
    /\ exists ks1 k ks2, la_skip h = ks1 ++ k :: ks2
         /\ (forall k1, In k1 ks1 -> matchf P k1 m t = MR false t m)
         /\ exists t' m', matchf P k m t = MR true t' m' /\ sk t'.
  Hypothesis la_no_eof : forall h, In h (lookaheads P) -> ~ In KEOF (la_expected h) /\ ~ In KEOF (la_skip h).

  Notation W := (W P sk I).
  Notation U := (U P K key).

  (* ---- calls: what one operation costs ---- *)
  Lemma add_error_calls e c : sat (add_error P e c) (fun _ c' => calls c' = calls c) (fun c' => calls c' = calls c) False.
  Proof. unfold add_error. destruct (existsb _ _); simpl; [reflexivity|]. destruct (_ <? _); reflexivity. Qed.

  Lemma match_k_calls stop k t c :
    sat (match_k P stop k t c) (fun _ c' => calls c' <= calls c + 1) (fun c' => calls c' <= calls c + 1) False.
  Proof.
    unfold match_k. destruct (_ && _); simpl; [lia|].
    destruct (matchf P k (ms c) t) as [b t' m'|e t' m']; simpl; [lia|].
    destruct stop; simpl; [lia|].
    pose proof (add_error_calls e (set_ms m' (bump c))) as A.
    destruct (add_error P e (set_ms m' (bump c))) as [[] c'| | | |]; simpl in *; lia.
  Qed.

  Lemma any_match_calls stop ks : forall t c,
    sat (any_match P stop ks t c) (fun _ c' => calls c' <= calls c + length ks) (fun c' => calls c' <= calls c + length ks) False.
  Proof.
    induction ks as [|k ks IH]; intros t c; simpl; [lia|].
    eapply sat_bind; [eapply sat_weaken; [apply match_k_calls | | | auto]|].
    - intros a c' H. exact H.
    - intros c' H. simpl in H. lia.
    - intros [b t'] c' H. simpl in *. destruct b; simpl; [lia|].
      eapply sat_weaken; [apply IH | | | auto]; simpl; intros; lia.
  Qed.

  Lemma b_call_calls stop f c : sat (b_call P stop f c) (fun _ c' => calls c' = calls c) (fun c' => calls c' = calls c) False.
  Proof.
    unfold b_call. destruct (f (bs c)); simpl; [reflexivity| |reflexivity].
    destruct stop; simpl; [reflexivity|].
    pose proof (add_error_calls e (set_bs b c)) as A.
    destruct (add_error P e (set_bs b c)) as [[] c'| | | |]; simpl in *; auto.
  Qed.

  Lemma exec_calls stop t k : forall ps c,
    sat (exec P stop t k ps c) (fun _ c' => calls c' = calls c) (fun c' => calls c' = calls c) False.
  Proof.
    induction ps as [|p ps IH]; intros c; cbn [exec]; [reflexivity|].
    eapply sat_bind with (Q1 := fun _ c1 => calls c1 = calls c).
    - destruct p; (eapply sat_weaken; [apply b_call_calls | | | auto]; simpl; auto).
    - intros _ c1 E1. eapply sat_weaken; [apply IH | | | auto]; simpl; intros; congruence.
  Qed.

  Lemma read_calls c : calls (snd (read P c)) = calls c.
  Proof. unfold read. destruct (queue c); [destruct (rest c)|]; reflexivity. Qed.

  Lemma U_len_pos c : 1 <= length (U c).
  Proof. pose proof (U_nonempty P K key c) as H. destruct (U c); [congruence | simpl; lia]. Qed.

  Definition lcost (h : la) : nat := length (la_expected h) + length (la_skip h).

  (* a look-ahead pays lcost per token it reads, and reads no further than the end of file *)
  Lemma la_loop_cost stop h : In h (lookaheads P) -> forall fuel c acc, W c -> sz c < fuel ->
    sat (la_loop P fuel stop h c acc)
        (fun r c1 => exists toks, snd r = acc ++ toks /\ calls c1 <= calls c + lcost h * length toks /\ length toks <= length (U c)
                              /\ length (queue c) <= length toks + length (queue c1))
        (fun c1 => calls c1 <= calls c + lcost h * length (U c)) False.
  Proof.
    intros Hh. unfold lcost. induction fuel as [|f IH]; intros c acc (Hq & Hr & Hi) Hf; [lia|].
    cbn [la_loop]. pose proof (read_calls c) as Rc. destruct (read P c) as [t c0] eqn:R. cbn [snd] in Rc.
    destruct (read_spec P K key sk Hmkeof c t c0 R Hq Hr) as (_ & Ms & _ & _ & Hq0 & Hr0 & HU & Hsz & Hqq & Hq00 & _).
    assert (Hi0 : I (ms c0)) by (rewrite Ms; exact Hi).
    assert (Ql : length (queue c) <= 1 + length (queue c0)).
    { destruct (queue c) as [|q qs] eqn:Qc; [simpl; lia|]. destruct (Hqq q qs eq_refl) as [_ ->]. simpl; lia. }
    pose proof (U_len_pos c) as Up.
    assert (HUl : length (U c) = 1 + (if is_eof P t then 0 else length (U c0))).
    { rewrite HU. simpl. destruct (is_eof P t); reflexivity. }
    eapply sat_bind with (Q1 := fun r c2 => (fq c0 c2 /\ I (ms c2) /\ key (snd r) = key t /\ is_eof P (snd r) = is_eof P t)
                                          /\ calls c2 <= calls c0 + length (la_expected h)).
    { eapply sat_weaken; [apply (sat_and _ _ _ _ _ _ _ (any_match_fq P K key I Hkey Heof HI stop (la_expected h) t c0 Hi0)
                                          (any_match_calls stop (la_expected h) t c0)) | auto | | tauto].
      intros c2 [_ X]. nia. }
    intros [b t1] c2 ((F2 & Hi2 & K1 & E1) & C2). cbn [fst snd] in *.
    assert (Q2 : queue c2 = queue c0) by apply F2.
    destruct b; cbn [sat].
    { exists [t1]. split; [reflexivity|]. simpl. rewrite Q2. repeat split; lia. }
    destruct (is_eof P t) eqn:Et.
    - rewrite (any_match_eof P stop (la_skip h) t1 c2); [|congruence | apply (la_no_eof h Hh)]. cbn [bind fst snd sat].
      exists [t1]. split; [reflexivity|]. simpl. rewrite Q2. repeat split; lia.
    - eapply sat_bind with (Q1 := fun r c3 => (fq c2 c3 /\ I (ms c3) /\ key (snd r) = key t1 /\ is_eof P (snd r) = is_eof P t1)
                                            /\ calls c3 <= calls c2 + length (la_skip h)).
      { eapply sat_weaken; [apply (sat_and _ _ _ _ _ _ _ (any_match_fq P K key I Hkey Heof HI stop (la_skip h) t1 c2 Hi2)
                                            (any_match_calls stop (la_skip h) t1 c2)) | auto | | tauto].
        intros c3 [_ X]. nia. }
      intros [b' t2] c3 ((F3 & Hi3 & K2 & E2) & C3). cbn [fst snd] in *.
      assert (F03 : fq c0 c3) by (eapply fq_trans; eauto).
      destruct b'; cbn [sat].
      + assert (W3 : W c3) by (apply (fq_W P sk I c0 c3 F03 Hi3); exact (conj Hq0 (conj Hr0 Hi0))).
        assert (Sz3 : sz c3 < f).
        { destruct F03 as (A1 & A2 & _). unfold sz in *. rewrite A1, A2. specialize (Hsz eq_refl). lia. }
        pose proof (U_fq P K key c0 c3 F03) as U3.
        eapply sat_weaken; [apply (IH c3 (acc ++ [t2]) W3 Sz3) | | | auto].
        * intros r c1 (toks & E & C & Ln & Lq). exists (t2 :: toks). split; [rewrite E, <- app_assoc; reflexivity|].
          cbn [length]. rewrite U3 in Ln. assert (Q3 : queue c3 = queue c0) by apply F03. rewrite Q3 in Lq.
          split; [nia|]. split; lia.
        * intros c1 C. rewrite U3 in C. nia.
      + exists [t2]. split; [reflexivity|]. simpl. assert (Q3 : queue c3 = queue c0) by apply F03. rewrite Q3. repeat split; lia.
  Qed.

  Variable L : nat.
  Hypothesis HL : forall h, In h (lookaheads P) -> lcost h <= L.

  Lemma queue_le_U c : W c -> length (queue c) <= length (U c).
  Proof.
    intros ([Hq Hqe] & _ & _). unfold U, stream.
    assert (G : forall q suf, Forall sk (removelast q) -> length q <= length (map key (upto P (q ++ suf ++ [eofs P c])))).
    { induction q as [|t q IHq]; intros suf F; [simpl; lia|].
      cbn [app upto]. destruct q as [|t2 q].
      - destruct (is_eof P t); simpl; lia.
      - rewrite removelast_cons_ne in F by discriminate. inversion F; subst.
        rewrite (sk_not_eof t) by assumption. cbn [map length]. specialize (IHq suf H2). simpl in *. lia. }
    apply G. exact Hq.
  Qed.

  Lemma lookahead_cost stop hn c : W c ->
    sat (lookahead P stop hn c)
        (fun _ c2 => (W c2 /\ U c2 = U c /\ log c2 = log c)
                     /\ calls c2 <= calls c + L * length (queue c2) /\ length (queue c) <= length (queue c2))
        (fun c2 => calls c2 <= calls c + L * length (U c)) False.
  Proof.
    intros Hw.
    pose proof (lookahead_spec P K key sk I Hkey Heof Hmkeof HI sk_not_eof S1 S2 la_no_eof stop hn c Hw) as Sp.
    unfold lookahead in *. destruct (find_la P hn) as [x|] eqn:Fl; [|cbn [sat]; lia].
    assert (Hx : In x (lookaheads P)) by (unfold find_la in Fl; apply find_some in Fl; tauto).
    specialize (HL x Hx).
    pose proof (la_loop_spec P K key sk I Hkey Heof Hmkeof HI sk_not_eof S1 S2 la_no_eof stop x Hx
                  (S (length (queue c) + length (rest c))) c [] Hw ltac:(unfold sz; lia)) as A.
    pose proof (la_loop_cost stop x Hx (S (length (queue c) + length (rest c))) c [] Hw ltac:(unfold sz; lia)) as B.
    destruct (la_loop P (S (length (queue c) + length (rest c))) stop x c []) as [[b acc] c1|e c1|es c1|c1|]; cbn [bind sat] in *;
      try (pose proof (Nat.mul_le_mono_r _ _ (length (U c)) HL); lia); try contradiction.
    destruct A as (_ & Q1 & _ & _ & _).
    destruct B as (toks & E & Cc & _ & Lq). cbn [snd app] in E. subst acc.
    split; [exact Sp|]. cbn [queue set_queue calls]. rewrite Q1 in *. cbn [app length snd] in *.
    pose proof (Nat.mul_le_mono_r _ _ (length toks) HL). split; lia.
  Qed.

  Lemma sat_bind_w {A B} (r : res A) (f : A -> ctx -> res B) Q1 Q2 (E1 E : ctx -> Prop) F :
    sat r Q1 E1 F -> (forall c, E1 c -> E c) -> (forall a c, Q1 a c -> sat (f a c) Q2 E F) -> sat (bind r f) Q2 E F.
  Proof. destruct r; simpl; auto. Qed.

  Lemma sat_and_l {A} (r : res A) Q1 Q2 (E1 E2 : ctx -> Prop) :
    sat r Q1 E1 False -> sat r Q2 E2 False -> sat r (fun a c => Q1 a c /\ Q2 a c) E1 False.
  Proof. destruct r; simpl; auto. Qed.

  Fixpoint nguards (tests : list test) : nat :=
    match tests with
    | [] => 0
    | x :: xs => (match t_guard x with Some _ => 1 | None => 0 end) + nguards xs
    end.

  Lemma exec_frame stop t k ps c : W c ->
    sat (exec P stop t k ps c) (fun _ c' => W c' /\ U c' = U c /\ queue c' = queue c /\ calls c' = calls c)
        (fun c' => calls c' = calls c) False.
  Proof.
    intros Hw. eapply sat_weaken; [apply (sat_and _ _ _ _ _ _ _ (exec_spec P K key stop t k ps c) (exec_calls stop t k ps c)) | | | tauto].
    - intros _ c' [[F _] Cc]. split; [exact (fqm_W P sk I c c' F Hw)|]. split; [exact (fqm_U P K key c c' F)|].
      split; [apply F | exact Cc].
    - intros c' [_ Cc]. exact Cc.
  Qed.

  Lemma run_tests_cost stop : forall tests t c, W c ->
    sat (run_tests P stop tests t c)
        (fun r c' => (W c' /\ U c' = U c)
                     /\ calls c' <= calls c + length tests + L * (nguards tests * length (queue c'))
                     /\ length (queue c) <= length (queue c')
                     /\ (nguards tests = 0 -> queue c' = queue c))
        (fun c' => calls c' <= calls c + length tests + L * (nguards tests * length (U c))) False.
  Proof.
    induction tests as [|x xs IH]; intros t c Hw; cbn [run_tests].
    - cbn [sat length nguards]. split; [split; [exact Hw | reflexivity]|]. split; [lia|]. split; [lia | auto].
    - destruct Hw as (Hq & Hr & Hi).
      eapply sat_bind with (Q1 := fun r c1 => (fq c c1 /\ I (ms c1) /\ key (snd r) = key t /\ is_eof P (snd r) = is_eof P t)
                                            /\ calls c1 <= calls c + 1).
      { eapply sat_weaken; [apply (sat_and _ _ _ _ _ _ _ (match_k_fq P K key I Hkey Heof HI stop (t_kind x) t c Hi)
                                            (match_k_calls stop (t_kind x) t c)) | auto | | tauto].
        intros c1 [_ X]. cbn [length]. lia. }
      intros [b t1] c1 ((F1 & Hi1 & _ & _) & C1). cbn [fst snd].
      assert (W1 : W c1) by (apply (fq_W P sk I c c1 F1 Hi1); exact (conj Hq (conj Hr Hi))).
      pose proof (U_fq P K key c c1 F1) as U1.
      assert (Q1 : queue c1 = queue c) by apply F1.
      cbn [length nguards].
      destruct b.
      + destruct (t_guard x) as [hn|].
        * eapply sat_bind_w; [apply (lookahead_cost stop hn c1 W1) | |].
          -- intros c2 C2. cbn beta in *. rewrite U1 in C2. rewrite <- ar3. lia.
          -- intros bb c2 ((W2 & U2 & _) & C2 & Lq2).
             pose proof (queue_le_U c2 W2) as QU2. rewrite Q1 in Lq2.
             destruct bb.
             ++ eapply sat_bind_w; [apply (exec_frame stop t1 (t_kind x) (t_prods x) c2 W2) | |].
                ** intros c3 C3. cbn beta in *. rewrite C3, <- U1, <- U2, <- ar3.
                   pose proof (ar4 L _ _ QU2). lia.
                ** intros _ c3 (W3 & U3 & Q3 & C3). cbn [sat fst]. rewrite Q3, C3.
                   split; [split; [exact W3 | congruence]|]. split; [rewrite <- ar3; lia|]. split; [lia | intros X; lia].
             ++ eapply sat_weaken; [apply (IH t1 c2 W2) | | | auto].
                ** intros r c' ((W' & U') & C' & Lq' & _). split; [split; [exact W' | congruence]|].
                   split; [pose proof (ar1 L (nguards xs) _ _ Lq'); lia|]. split; [lia | intros X; lia].
                ** intros c' C'. rewrite U2, U1 in *. rewrite <- ar3. pose proof (ar4 L _ _ QU2). lia.
        * eapply sat_bind_w; [apply (exec_frame stop t1 (t_kind x) (t_prods x) c1 W1) | |].
          -- intros c3 C3. cbn beta in *. rewrite C3. lia.
          -- intros _ c3 (W3 & U3 & Q3 & C3). cbn [sat fst]. rewrite Q3, C3, Q1.
             split; [split; [exact W3 | congruence]|]. split; [lia|]. split; [lia | auto].
      + eapply sat_weaken; [apply (IH t1 c1 W1) | | | auto].
        * intros r c' ((W' & U') & C' & Lq' & Z'). rewrite Q1 in *. split; [split; [exact W' | congruence]|].
          split; [destruct (t_guard x); [rewrite <- ar3|]; lia|]. split; [lia|].
          intros X. apply Z'. destruct (t_guard x); [discriminate X | exact X].
        * intros c' C'. rewrite U1 in C'. destruct (t_guard x); [rewrite <- ar3|]; lia.
  Qed.

  (* ---- the quiet invariant ---- *)
  Variable quiet : nat -> bool.        (* states without guarded tests in which a look-ahead's queue is consumed *)
  Variable GK : kind.                  (* the kind of every guarded test (#TagLine) *)
  Variable gk : Tok -> Prop.           (* tokens known to answer GK *)
  Variable SKK : list kind.            (* the only kinds a skippable token answers to *)

  Hypothesis guards_kind : forall x y, In x (table P) -> In y (s_tests x) -> t_guard y <> None -> t_kind y = GK.
  Hypothesis G1 : forall m t t' m', I m -> matchf P GK m t = MR true t' m' -> gk t'.
  Hypothesis G2 : forall m t, I m -> gk t -> is_eof P t = false /\ exists t' m', matchf P GK m t = MR true t' m' /\ gk t'.
  Hypothesis sk_stable : forall k m t, sk t -> sk (mtok (matchf P k m t)).
  Hypothesis sk_kinds : forall k m t, sk t -> I m -> ~ In k SKK -> matchf P k m t = MR false t m.

  (* after a guarded test: more tests of the same kind, the last of them unguarded, all into quiet states *)
  Fixpoint fb (tests : list test) : Prop :=
    match tests with
    | [] => False
    | y :: ys => t_kind y = GK /\ quiet (t_tgt y) = true /\ (t_guard y = None \/ fb ys)
    end.
  Hypothesis Hfb : forall x pre y post, In x (table P) -> s_tests x = pre ++ y :: post -> t_guard y <> None ->
    quiet (t_tgt y) = true /\ fb post.
  Hypothesis quiet_noguard : forall x, In x (table P) -> quiet (s_id x) = true -> nguards (s_tests x) = 0.
  Hypothesis quiet_closed : forall x y, In x (table P) -> quiet (s_id x) = true -> In y (s_tests x) -> In (t_kind y) SKK ->
    quiet (t_tgt y) = true.
  Hypothesis err_stays : forall x, In x (table P) -> s_err x = s_id x.

  Lemma match_k_true stop k t c :
    sat (match_k P stop k t c) (fun r _ => fst r = true -> exists m', matchf P k (ms c) t = MR true (snd r) m') (fun _ => True) True.
  Proof.
    unfold match_k. destruct (_ && _); cbn [sat fst]; [intros X; discriminate X|]. cbn [ms bump].
    destruct (matchf P k (ms c) t) as [b t' m'|e t' m']; cbn [sat fst snd].
    - intros ->. exists m'. reflexivity.
    - destruct stop; cbn [sat]; [exact Logic.I|].
      destruct (add_error P e _) as [[] c'| | | |]; cbn [bind sat fst]; auto. intros X; discriminate X.
  Qed.

  (* A: once the token is known to answer GK, the remaining GK tests send it to a quiet state *)
  Lemma run_tests_fb stop : forall tests t c, fb tests -> gk t -> W c ->
    sat (run_tests P stop tests t c) (fun r _ => exists s', fst r = Some s' /\ quiet s' = true) (fun _ => True) False.
  Proof.
    induction tests as [|y ys IH]; intros t c Fb Gt Hw; [destruct Fb|].
    destruct Fb as (Ky & Qy & Fy). destruct Hw as (Hq & Hr & Hi).
    destruct (G2 (ms c) t Hi Gt) as (Et & t' & m' & M & Gt').
    cbn [run_tests]. unfold match_k. rewrite Ky, Et, andb_false_r. cbn [ms bump]. rewrite M. cbn [bind fst snd].
    set (c1 := set_ms m' (bump c)).
    assert (W1 : W c1).
    { split; [exact Hq|]. split; [exact Hr|]. pose proof (HI GK (ms c) t Hi) as X. rewrite M in X. exact X. }
    destruct (t_guard y) as [hn|].
    - eapply sat_bind_w; [apply (lookahead_cost stop hn c1 W1) | intros; exact Logic.I |].
      intros b c2 ((W2 & _) & _). destruct b.
      + eapply sat_bind_w; [apply (exec_frame stop t' GK (t_prods y) c2 W2) | intros; exact Logic.I |].
        intros _ c3 _. cbn [sat fst]. exists (t_tgt y). auto.
      + destruct Fy as [X|Fy]; [discriminate X|]. apply (IH t' c2 Fy Gt' W2).
    - eapply sat_bind_w; [apply (exec_frame stop t' GK (t_prods y) c1 W1) | intros; exact Logic.I |].
      intros _ c3 _. cbn [sat fst]. exists (t_tgt y). auto.
  Qed.

  (* B: from an empty queue, either the queue is still empty or the parser moved to a quiet state *)
  Lemma run_tests_empty stop x : In x (table P) -> forall tests pre t c, s_tests x = pre ++ tests -> W c -> queue c = [] ->
    sat (run_tests P stop tests t c) (fun r c' => queue c' = [] \/ exists s', fst r = Some s' /\ quiet s' = true) (fun _ => True) False.
  Proof.
    intros Hx. induction tests as [|y ys IH]; intros pre t c Ex Hw Qe; cbn [run_tests]; [left; exact Qe|].
    destruct Hw as (Hq & Hr & Hi).
    eapply sat_bind_w with (E1 := fun _ => True) (Q1 := fun r c1 => ((fq c c1 /\ I (ms c1) /\ key (snd r) = key t /\ is_eof P (snd r) = is_eof P t))
                                            /\ (fst r = true -> exists m', matchf P (t_kind y) (ms c) t = MR true (snd r) m')).
    { eapply sat_weaken; [apply (sat_and _ _ _ _ _ _ _ (match_k_fq P K key I Hkey Heof HI stop (t_kind y) t c Hi)
                                          (match_k_true stop (t_kind y) t c)) | auto | auto | tauto]. }
    { auto. }
    intros [b t1] c1 ((F1 & Hi1 & _ & _) & Mt). cbn [fst snd] in *.
    assert (W1 : W c1) by (apply (fq_W P sk I c c1 F1 Hi1); exact (conj Hq (conj Hr Hi))).
    assert (Q1 : queue c1 = []) by (destruct F1 as (A1 & _); congruence).
    destruct b.
    - destruct (t_guard y) as [hn|] eqn:Gy.
      + assert (Ky : t_kind y = GK).
        { apply (guards_kind x y Hx); [rewrite Ex; apply in_or_app; right; now left | congruence]. }
        destruct (Hfb x pre y ys Hx Ex ltac:(congruence)) as [Qy Fy].
        destruct (Mt eq_refl) as (m' & M). rewrite Ky in M. pose proof (G1 _ _ _ _ Hi M) as Gt1.
        eapply sat_bind_w; [apply (lookahead_cost stop hn c1 W1) | intros; exact Logic.I |].
        intros bb c2 ((W2 & _) & _). destruct bb.
        * eapply sat_bind_w; [apply (exec_frame stop t1 (t_kind y) (t_prods y) c2 W2) | intros; exact Logic.I |].
          intros _ c3 _. cbn [sat fst]. right. exists (t_tgt y). auto.
        * eapply sat_weaken; [apply (run_tests_fb stop ys t1 c2 Fy Gt1 W2) | | auto | auto].
          intros r c' H. right. exact H.
      + eapply sat_bind_w; [apply (exec_frame stop t1 (t_kind y) (t_prods y) c1 W1) | intros; exact Logic.I |].
        intros _ c3 (_ & _ & Q3 & _). cbn [sat]. left. congruence.
    - apply (IH (pre ++ [y]) t1 c1); [rewrite <- app_assoc; exact Ex | exact W1 | exact Q1].
  Qed.

  Lemma match_k_sk stop k t c : sk t -> sat (match_k P stop k t c) (fun r _ => sk (snd r)) (fun _ => True) True.
  Proof.
    intros Hs. unfold match_k. destruct (_ && _); cbn [sat snd]; [exact Hs|]. cbn [ms bump].
    pose proof (sk_stable k (ms c) t Hs) as X.
    destruct (matchf P k (ms c) t) as [b t' m'|e t' m']; cbn [sat snd mtok] in *; [exact X|].
    destruct stop; cbn [sat]; [exact Logic.I|].
    destruct (add_error P e _) as [[] c'| | | |]; cbn [bind sat snd]; auto.
  Qed.

  (* C: a skippable token fires only tests of the kinds it can answer to *)
  Lemma run_tests_sk stop : forall tests t c, nguards tests = 0 -> sk t -> W c ->
    sat (run_tests P stop tests t c)
        (fun r _ => forall s', fst r = Some s' -> exists y, In y tests /\ t_tgt y = s' /\ In (t_kind y) SKK)
        (fun _ => True) False.
  Proof.
    induction tests as [|y ys IH]; intros t c Ng Hs Hw; cbn [run_tests]; [intros s' X; discriminate X|].
    cbn [nguards] in Ng. destruct (t_guard y) as [hn|] eqn:Gy; [discriminate Ng|]. cbn in Ng.
    destruct Hw as (Hq & Hr & Hi).
    destruct (in_dec kind_eq_dec' (t_kind y) SKK) as [Yin|Nin].
    - eapply sat_bind_w with (E1 := fun _ => True) (Q1 := fun r c1 => (fq c c1 /\ I (ms c1) /\ key (snd r) = key t /\ is_eof P (snd r) = is_eof P t) /\ sk (snd r)).
      { eapply sat_weaken; [apply (sat_and _ _ _ _ _ _ _ (match_k_fq P K key I Hkey Heof HI stop (t_kind y) t c Hi)
                                            (match_k_sk stop (t_kind y) t c Hs)) | auto | auto | tauto]. }
      { auto. }
      intros [b t1] c1 ((F1 & Hi1 & _ & _) & Hs1). cbn [fst snd] in *.
      assert (W1 : W c1) by (apply (fq_W P sk I c c1 F1 Hi1); exact (conj Hq (conj Hr Hi))).
      destruct b.
      + eapply sat_bind_w; [apply (exec_frame stop t1 (t_kind y) (t_prods y) c1 W1) | intros; exact Logic.I |].
        intros _ c3 _. cbn [sat fst]. intros s' X. inversion X; subst. exists y. auto using in_eq.
      + eapply sat_weaken; [apply (IH t1 c1 Ng Hs1 W1) | | auto | auto].
        intros r c' H s' X. destruct (H s' X) as (z & Hz & Tz & Kz). exists z. auto using in_cons.
    - pose proof (sk_kinds (t_kind y) (ms c) t Hs Hi Nin) as M.
      destruct (match_k_false P stop (t_kind y) t c (sk_not_eof t Hs) M) as (c1 & Mk & F1 & Ms1 & _).
      rewrite Mk. cbn [bind fst snd].
      assert (W1 : W c1) by (apply (fq_W P sk I c c1 F1); [rewrite Ms1; exact Hi | exact (conj Hq (conj Hr Hi))]).
      eapply sat_weaken; [apply (IH t c1 Ng Hs W1) | | auto | auto].
      intros r c' H s' X. destruct (H s' X) as (z & Hz & Tz & Kz). exists z. auto using in_cons.
  Qed.

  Lemma find_state_id s x : find_state P s = Some x -> In x (table P) /\ s_id x = s.
  Proof. unfold find_state. intros H. apply find_some in H as [H1 H2]. apply Nat.eqb_eq in H2. auto. Qed.

  Definition step_bound (x : st) (c : ctx) (n : nat) : nat := calls c + length (s_tests x) + L * (nguards (s_tests x) * n).

  Lemma match_token_cost stop s x t c : find_state P s = Some x -> W c ->
    (queue c = [] \/ (quiet s = true /\ sk t)) ->
    sat (match_token P stop s t c)
        (fun s' c' => (W c' /\ U c' = U c)
                      /\ calls c' <= step_bound x c (length (queue c'))
                      /\ length (queue c) <= length (queue c') /\ (nguards (s_tests x) = 0 -> queue c' = queue c)
                      /\ (queue c' = [] \/ quiet s' = true))
        (fun c' => calls c' <= step_bound x c (length (U c))) False.
  Proof.
    intros Fs Hw Hcase. destruct (find_state_id s x Fs) as [Hx Hid]. unfold match_token, step_bound. rewrite Fs.
    assert (RT : sat (run_tests P stop (s_tests x) t c)
              (fun r c1 => ((W c1 /\ U c1 = U c)
                     /\ calls c1 <= calls c + length (s_tests x) + L * (nguards (s_tests x) * length (queue c1))
                     /\ length (queue c) <= length (queue c1)
                     /\ (nguards (s_tests x) = 0 -> queue c1 = queue c))
                     /\ (match fst r with Some s' => queue c1 = [] \/ quiet s' = true | None => queue c1 = [] \/ quiet s = true end))
              (fun c1 => calls c1 <= calls c + length (s_tests x) + L * (nguards (s_tests x) * length (U c))) False).
    { destruct Hcase as [Qe|[Qs Hs]].
      - eapply sat_weaken; [apply (sat_and _ _ _ _ _ _ _ (run_tests_cost stop (s_tests x) t c Hw)
                                          (run_tests_empty stop x Hx (s_tests x) [] t c eq_refl Hw Qe)) | | | tauto].
        + intros r c1 [A [B|(s' & E & Q)]]; (split; [exact A|]).
          * destruct (fst r); left; exact B.
          * rewrite E. right. exact Q.
        + intros c1 [A _]. exact A.
      - pose proof (quiet_noguard x Hx ltac:(rewrite Hid; exact Qs)) as Ng.
        eapply sat_weaken; [apply (sat_and _ _ _ _ _ _ _ (run_tests_cost stop (s_tests x) t c Hw)
                                          (run_tests_sk stop (s_tests x) t c Ng Hs Hw)) | | | tauto].
        + intros r c1 [A B]. split; [exact A|]. destruct (fst r) as [s'|]; [|right; exact Qs].
          destruct (B s' eq_refl) as (y & Hy & <- & Ky). right. apply (quiet_closed x y Hx); auto. rewrite Hid. exact Qs.
        + intros c1 [A _]. exact A. }
    eapply sat_bind_w; [exact RT | auto |].
    intros [o t1] c1 (((W1 & U1) & C1 & Lq1 & Z1) & Qz). cbn [fst snd] in *.
    destruct o as [s'|]; cbn [sat].
    - repeat split; auto; try apply W1.
    - pose proof (queue_le_U c1 W1) as QU. rewrite U1 in QU.
      pose proof (ar2 L (nguards (s_tests x)) _ _ QU) as Ar.
      set (c2 := emit _ c1).
      destruct stop; cbn [sat]; [cbn [calls emit c2]; lia|].
      pose proof (add_error_fq P (mk_unexpected P t1 (s_expected x)) c2) as A1.
      pose proof (add_error_calls (mk_unexpected P t1 (s_expected x)) c2) as A2.
      destruct (add_error P (mk_unexpected P t1 (s_expected x)) c2) as [[] c3| | | |]; cbn [bind sat] in *;
        try (rewrite A2; cbn [calls emit c2]; lia); try contradiction.
      destruct A1 as [(B1 & B2 & B3 & B4) B5]. cbn [queue rest lineno ms emit c2] in *.
      assert (W3 : W c3).
      { destruct W1 as (Hq1 & Hr1 & Hi1). unfold Delivery.W, qwf, rest_ok in *. rewrite B1, B2, B5. auto. }
      assert (U3 : U c3 = U c1) by (unfold Delivery.U, stream, eofs; rewrite B1, B2, B3; reflexivity).
      rewrite B1, A2. cbn [calls emit c2]. rewrite (err_stays x Hx), Hid.
      split; [split; [exact W3 | congruence]|]. split; [exact C1|]. split; [exact Lq1|]. split; [exact Z1 | exact Qz].
  Qed.

  (* ---- the parse loop ---- *)
  Hypothesis Hmatch_eof : forall m t t' m', matchf P KEOF m t = MR true t' m' -> is_eof P t = true.
  Hypothesis builds_once : forall x y, In x (table P) -> In y (s_tests x) -> count_pb (t_prods y) = 1.
  Hypothesis Htotal : forall x y, In x (table P) -> In y (s_tests x) ->
    (find_state P (t_tgt y) = None <-> t_kind y = KEOF).
  Hypothesis Herr_known : forall x, In x (table P) -> find_state P (s_err x) <> None.
  Variable T G : nat.
  Hypothesis HT : forall x, In x (table P) -> length (s_tests x) <= T.
  Hypothesis HG : forall x, In x (table P) -> nguards (s_tests x) <= G.

  Lemma loop_cost stop B : forall fuel s c, W c -> find_state P s <> None -> (queue c <> [] -> quiet s = true) ->
    length (U c) <= fuel -> calls c + (T + G * L) * length (U c) <= B + (G * L) * length (queue c) ->
    sat (loop P fuel stop s c) (fun _ c' => calls c' <= B) (fun c' => calls c' <= B) False.
  Proof.
    induction fuel as [|f IH]; intros s c Hw Fs Hqs Hf Pot.
    { pose proof (U_len_pos c). lia. }
    cbn [loop]. pose proof (read_calls c) as Rc. destruct (read P c) as [t c1] eqn:R. cbn [snd] in Rc.
    destruct Hw as (Hq & Hr & Hi).
    destruct (read_spec P K key sk Hmkeof c t c1 R Hq Hr) as (_ & Ms & _ & _ & Hq1 & Hr1 & HU & _ & Hqq & Hq00 & Hre).
    assert (W1 : W c1) by (split; [exact Hq1 | split; [exact Hr1 | rewrite Ms; exact Hi]]).
    destruct (find_state P s) as [x|] eqn:Fx; [|congruence].
    destruct (find_state_id s x Fx) as [Hx Hid].
    pose proof (HT x Hx) as Tx. pose proof (HG x Hx) as Gx.
    pose proof (queue_le_U c (conj Hq (conj Hr Hi))) as QU.
    (* the queue after the read *)
    assert (Ql : length (queue c) <= length (queue c1) + 1).
    { destruct (queue c) as [|q qs] eqn:Qc; [simpl; lia|]. destruct (Hqq q qs eq_refl) as [_ ->]. simpl; lia. }
    assert (Hcase : queue c1 = [] \/ (quiet s = true /\ sk t)).
    { destruct (queue c1) as [|q1 qs1] eqn:Q1; [left; reflexivity|]. right.
      destruct (queue c) as [|q qs] eqn:Qc; [specialize (Hq00 eq_refl); discriminate|].
      destruct (Hqq q qs eq_refl) as [-> Eq]. subst qs. split; [apply Hqs; discriminate|].
      destruct Hq as [Hq _]. rewrite Qc in Hq. rewrite removelast_cons_ne in Hq by discriminate. now inversion Hq. }
    (* guarded states are entered with an empty queue *)
    assert (Gq : nguards (s_tests x) <> 0 -> queue c = [] /\ queue c1 = []).
    { intros Ng. destruct (queue c) as [|q qs] eqn:Qc; [split; [reflexivity | apply Hq00; reflexivity]|].
      exfalso. apply Ng. apply (quiet_noguard x Hx). rewrite Hid. apply Hqs. discriminate. }
    pose proof (match_token_cost stop s x t c1 Fx W1 Hcase) as MC.
    pose proof (match_token_spec P K key sk I Hkey Heof Hmkeof HI sk_not_eof S1 S2 la_no_eof Hmatch_eof builds_once Htotal Herr_known
                  stop s t c1 W1 ltac:(congruence)) as MSp.
    unfold step_bound in MC. rewrite Rc in MC.
    pose proof (ar6 L (nguards (s_tests x)) G) as A6.
    rewrite ar8 in Pot.
    destruct (is_eof P t) eqn:Et.
    - (* the end of file: the loop ends *)
      assert (Ul : length (U c) = 1) by (rewrite HU; reflexivity). rewrite Ul in *.
      pose proof (Nat.mul_le_mono_l _ _ (G * L) QU) as QG.
      assert (U1l : nguards (s_tests x) <> 0 -> length (U c1) = 1).
      { intros Ng. destruct (Gq Ng) as [_ Q1]. unfold Delivery.U, stream. rewrite Q1, (Hre eq_refl). cbn [app upto]. destruct (is_eof P (eofs P c1)); reflexivity. }
      eapply sat_bind_w; [apply (sat_and_l _ _ _ _ _ MC MSp) | |].
      + intros c' Cc. cbn beta in Cc. destruct (Nat.eq_dec (nguards (s_tests x)) 0) as [Z|Nz].
        * rewrite Z in Cc. cbn in Cc. lia.
        * rewrite (U1l Nz) in Cc. destruct (Gq Nz) as [Q0 _]. rewrite Q0 in Pot. cbn [length] in Pot.
          specialize (A6 1 Gx). lia.
      + intros s' c2 [((W2 & U2) & Cc & _ & Z2 & _) _]. cbn [sat].
        destruct (Nat.eq_dec (nguards (s_tests x)) 0) as [Z|Nz].
        * rewrite Z in Cc. cbn in Cc. lia.
        * pose proof (queue_le_U c2 W2) as QU2. rewrite U2, (U1l Nz) in QU2.
          destruct (Gq Nz) as [Q0 _]. rewrite Q0 in Pot. cbn [length] in Pot.
          specialize (A6 (length (queue c2)) Gx). pose proof (Nat.mul_le_mono_l _ _ (G * L) QU2). lia.
    - assert (Ul : length (U c) = 1 + length (U c1)) by (rewrite HU; reflexivity). rewrite Ul in *.
      rewrite !ar5 in Pot.
      eapply sat_bind_w; [apply (sat_and_l _ _ _ _ _ MC MSp) | |].
      + intros c' Cc. cbn beta in Cc. destruct (Nat.eq_dec (nguards (s_tests x)) 0) as [Z|Nz].
        * rewrite Z in Cc. cbn in Cc. pose proof (Nat.mul_le_mono_l _ _ (G * L) QU). rewrite ar5 in H. lia.
        * destruct (Gq Nz) as [Q0 _]. rewrite Q0 in Pot. cbn [length] in Pot. specialize (A6 (length (U c1)) Gx). lia.
      + intros s' c2 [((W2 & U2) & Cc & _ & Z2 & Qz) (_ & _ & _ & Fs')].
        apply (IH s' c2 W2 (Fs' eq_refl)).
        * intros Ne. destruct Qz as [X|X]; [contradiction | exact X].
        * rewrite U2. lia.
        * rewrite U2, ar8. destruct (Nat.eq_dec (nguards (s_tests x)) 0) as [Z|Nz].
          -- rewrite Z in Cc. cbn in Cc. rewrite (Z2 Z). pose proof (ar7 (G * L) _ _ Ql). lia.
          -- destruct (Gq Nz) as [Q0 _]. rewrite Q0 in Pot. cbn [length] in Pot. specialize (A6 (length (queue c2)) Gx). lia.
  Qed.

  (* ---- Parser.parse ---- *)
  Theorem parse_calls stop toks m b :
    Forall (fun t => is_eof P t = false) toks -> I m -> find_state P (start_state P) <> None ->
    sat (parse P stop toks m b)
        (fun _ c => calls c <= (T + G * L) * (length toks + 1))
        (fun c => calls c <= (T + G * L) * (length toks + 1)) False.
  Proof.
    intros Hne Him Hst. unfold parse.
    set (B := (T + G * L) * (length toks + 1)).
    set (c0 := emit (EvS RGherkinDocument) (init_ctx toks m b)).
    assert (W0 : W c0) by (repeat split; [constructor | intros ? [] | exact Hne | exact Him]).
    assert (U0 : length (U c0) = length toks + 1).
    { unfold Delivery.U, stream, eofs, c0. cbn [queue rest lineno emit init_ctx app].
      rewrite upto_app_noeof by exact Hne. cbn [upto]. rewrite Hmkeof, map_length, app_length. reflexivity. }
    eapply sat_bind_w with (E1 := fun c1 => calls c1 = 0)
                          (Q1 := fun _ c1 => W c1 /\ U c1 = U c0 /\ queue c1 = [] /\ calls c1 = 0).
    { eapply sat_weaken; [apply (sat_and_l _ _ _ _ _ (b_call_calls stop (b_start P RGherkinDocument) c0)
                                                (b_call_fqm P stop (b_start P RGherkinDocument) c0)) | | auto | auto].
      intros _ c1 [Cc F]. split; [exact (fqm_W P sk I c0 c1 F W0)|]. split; [exact (fqm_U P K key c0 c1 F)|].
      split; [destruct F as (A1 & _); rewrite A1; reflexivity | exact Cc]. }
    { intros c1 C1. cbn beta. rewrite C1. lia. }
    intros _ c1 (W1 & U1 & Q1 & C1).
    eapply sat_bind_w with (E1 := fun c2 => calls c2 <= B) (Q1 := fun _ c2 => calls c2 <= B).
    { apply (loop_cost stop B (S (S (length toks))) (start_state P) c1 W1 Hst).
      - intros X. rewrite Q1 in X. congruence.
      - rewrite U1, U0. lia.
      - rewrite U1, U0, Q1, C1. cbn [length]. unfold B. lia. }
    { auto. }
    intros _ c2 C2.
    eapply sat_bind_w with (E1 := fun c3 => calls c3 <= B) (Q1 := fun _ c3 => calls c3 <= B).
    { eapply sat_weaken; [apply (b_call_calls stop (b_end P RGherkinDocument) (emit (EvE RGherkinDocument) c2)) | | | auto];
        cbn [calls emit]; intros; lia. }
    { auto. }
    intros _ c3 C3. destruct (errs c3); cbn [sat]; exact C3.
  Qed.
End Linear.
