(* C01: Parser.parse never raises anything but the library's parser errors: the model of the real
   pipeline never reaches a Crash (unknown state, missing look-ahead, ill-typed builder access).
   The builder's stack is related to the shape certificate of the current parser state. *)
From Coq Require Import List Bool Arith NArith Lia.
Import ListNotations.
Require Import Kinds PyStr Line Matcher MatcherFacts Ast Builder Automaton AutoFacts Pipeline PipelineFacts Table TableFacts
               Dialects BuilderSafe MatcherTyping ShapeDefs ShapeCert C02Lemmas DeliveryInst.

Notation rP := (pipeline_params Table.table).

(* ---- concrete stack vs abstract stack ---- *)
Definition frame_rel (f : rule * list key) (n : node) : Prop :=
  node_rt n = KR (fst f) /\ node_ok n /\ Forall (has_key n) (snd f) /\ (fst f = RDocString -> docstring_ok n).

(* the root node of the builder stack stays empty until the document node is closed; once the
   abstract stack is empty nothing more is claimed (no production follows) *)
Definition ROOT : node := Node KNone [].
Definition stack_rel (stk : astk) (bstack : list node) : Prop :=
  match stk with
  | [] => True
  | _ => exists nodes, bstack = nodes ++ [ROOT] /\ Forall2 frame_rel stk nodes
  end.

Lemma kmem_in q ks : kmem q ks = true -> In q ks.
Proof. unfold kmem. rewrite existsb_exists. intros (x & Hx & E). apply key_beq_eq in E. now subst. Qed.

Lemma get_items_add n k v q : get_items (node_add n k v) q = get_items n q ++ (if key_beq k q then [v] else []).
Proof.
  destruct n as [rt items]. unfold get_items, node_add. cbn [node_items]. rewrite filter_app, map_app. f_equal.
  cbn [filter fst]. destruct (key_beq k q); reflexivity.
Qed.

Lemma has_key_add_old n k v q : has_key n q -> has_key (node_add n k v) q.
Proof. unfold has_key, get_single. rewrite get_items_add. destruct (get_items n q); [congruence | discriminate]. Qed.
Lemma has_key_add_new n k v : has_key (node_add n k v) k.
Proof. unfold has_key, get_single. rewrite get_items_add, key_beq_refl. destruct (get_items n k); discriminate. Qed.

Lemma node_rt_add n k v : node_rt (node_add n k v) = node_rt n.
Proof. destruct n; reflexivity. Qed.
Lemma node_ok_add n k v : node_ok n -> item_ok (k, v) -> node_ok (node_add n k v).
Proof. destruct n as [rt items]. unfold node_ok, node_add. cbn [node_items]. intros H I. apply Forall_app. split; auto. Qed.

Lemma get_tokens_add_other n k v kd : key_beq k (KT kd) = false -> get_tokens (node_add n k v) kd = get_tokens n kd.
Proof. intros H. unfold get_tokens. rewrite get_items_add, H, app_nil_r. reflexivity. Qed.

Lemma toks_of_app a b : toks_of (a ++ b) = match toks_of a, toks_of b with Some x, Some y => Some (x ++ y) | _, _ => None end.
Proof.
  induction a as [|v a IH]; simpl; [destruct (toks_of b); reflexivity|].
  destruct v; try reflexivity. rewrite IH. destruct (toks_of a); simpl; [destruct (toks_of b); reflexivity | reflexivity].
Qed.

(* ---- the three builder operations on related stacks ---- *)
Lemma start_rel stk b x : stk <> [] -> stack_rel stk (b_stack b) ->
  exists b', builder_start x b = BoOk b' /\ stack_rel ((x, []) :: stk) (b_stack b')
             /\ b_comments b' = b_comments b.
Proof.
  intros Ne R. destruct stk as [|f stk]; [congruence|]. destruct R as (nodes & E & F).
  eexists. split; [reflexivity|]. split; [|reflexivity].
  exists (Node (KR x) [] :: nodes). cbn [b_stack]. rewrite E. split; [reflexivity|].
  constructor; [|exact F]. repeat split; try constructor. intros _ t ts H. discriminate H.
Qed.

Lemma build_rel stk stk' b k ht t : stack_rel stk (b_stack b) -> a_prod k ht PB stk = Some stk' ->
  tok_ok k t -> (ht = true -> k = KDocStringSeparator -> m_text t <> None) ->
  exists b', builder_build t b = BoOk b' /\ stack_rel stk' (b_stack b').
Proof.
  intros R A (Ty & Tk) Ht. unfold builder_build. rewrite Ty.
  cbn [a_prod] in A. destruct stk as [|[x ks] tl]; [discriminate|]. destruct R as (nodes & E & F). set (root := ROOT) in *.
  destruct (kind_beq k KComment) eqn:Kc.
  - apply kind_beq_eq in Kc. subst k. inversion A; subst. simpl in Tk.
    destruct (m_text t) as [text|]; [|congruence]. eexists. split; [reflexivity|]. exists nodes. auto.
  - assert (Hk : match k with KComment => False | _ => True end) by (destruct k; try exact I; discriminate).
    inversion F as [|f n ? nodes' Fn Fr]; subst.
    destruct (rule_beq x RDocString && kind_beq k KDocStringSeparator && negb (kmem (KT k) ks) && negb ht) eqn:Cond; [discriminate|].
    inversion A; subst. rewrite E. cbn [app].
    assert (R : exists b', (match k with
                           | KComment => match m_text t with
                                         | Some text => BoOk (mk_bstate (n :: nodes' ++ [root]) (b_comments b ++ [mk_comment (get_location t None) text]) (b_idc b))
                                         | None => BoCrash end
                           | _ => BoOk (mk_bstate (node_add n (KT k) (VTok t) :: nodes' ++ [root]) (b_comments b) (b_idc b))
                           end) = BoOk b' /\ b_stack b' = node_add n (KT k) (VTok t) :: nodes' ++ [root]).
    { destruct k; try (eexists; split; reflexivity). destruct Hk. }
    destruct R as (b' & -> & Sb). exists b'. split; [reflexivity|]. rewrite Sb.
    exists (node_add n (KT k) (VTok t) :: nodes'). split; [reflexivity|]. constructor; [|exact Fr].
    destruct Fn as (Rt & Ok & Hk2 & Hd). cbn [fst snd] in *. repeat split.
    + rewrite node_rt_add. exact Rt.
    + apply node_ok_add; [exact Ok|]. unfold item_ok. cbn [fst snd]. exists t. split; [reflexivity | split; assumption].
    + constructor; [apply has_key_add_new|]. eapply Forall_impl; [|exact Hk2]. intros q. apply has_key_add_old.
    + intros Ex. cbn [fst] in Ex. subst x. specialize (Hd eq_refl). intros t0 ts0 G.
      destruct (kind_beq k KDocStringSeparator) eqn:Kd.
      * apply kind_beq_eq in Kd. subst k. unfold get_tokens in G. rewrite get_items_add, key_beq_refl, toks_of_app in G.
        fold (get_tokens n KDocStringSeparator) in G.
        destruct (get_tokens n KDocStringSeparator) as [old|] eqn:Go; [|discriminate]. cbn [toks_of option_map] in G.
        destruct old as [|o olds].
        -- cbn [app] in G. inversion G; subst t0.
           rewrite rule_beq_refl in Cond. cbn [andb] in Cond.
           destruct (kmem (KT KDocStringSeparator) ks) eqn:Km.
           ++ exfalso. apply kmem_in in Km. rewrite Forall_forall in Hk2. specialize (Hk2 _ Km).
              unfold has_key, get_single in Hk2. unfold get_tokens in Go.
              destruct (get_items n (KT KDocStringSeparator)) as [|v vs]; [congruence|].
              simpl in Go. destruct v; try discriminate. destruct (toks_of vs); discriminate.
           ++ cbn [negb andb] in Cond. destruct ht; [apply Ht; reflexivity | discriminate].
        -- cbn [app] in G. inversion G as [[G1 G2]]. rewrite <- G1. apply (Hd o olds). exact Go.
      * rewrite get_tokens_add_other in G; [apply (Hd t0 ts0 G)|]. cbn [key_beq]. exact Kd.
Qed.

Lemma end_rel stk stk' b k ht x : stack_rel stk (b_stack b) -> a_prod k ht (PE x) stk = Some stk' ->
  match builder_end x b with
  | BoOk b' | BoRaise _ b' => stack_rel stk' (b_stack b')
  | BoCrash => False
  end.
Proof.
  intros R A. cbn [a_prod] in A.
  destruct stk as [|[y ks] tl]; [discriminate|]. destruct R as (nodes & E & F). set (root := ROOT) in *.
  destruct (rule_beq x y && forallb (fun q => kmem q ks) (required y)) eqn:C; [|discriminate].
  apply andb_prop in C as [Cx Cr]. apply rule_beq_eq in Cx. subst y.
  inversion F as [|f n ? nodes' Fn Fr]; subst. destruct Fn as (Rt & Ok & Hk & Hd). cbn [fst snd] in *.
  assert (Req : Forall (has_key n) (required x)).
  { apply Forall_forall. intros q Hq. rewrite forallb_forall in Cr. specialize (Cr q Hq). apply kmem_in in Cr.
    rewrite Forall_forall in Hk. auto. }
  pose proof (transform_node_ok n (b_comments b) (b_idc b) x Rt Ok Req Hd) as T.
  unfold builder_end. rewrite E. cbn [app].
  destruct (transform_node n (b_comments b) (b_idc b)) as [v i|e i|]; cbn [tnode_spec] in T; [| |destruct T].
  - (* transformed: the value goes to the parent (or to the root) *)
    destruct tl as [|[p pks] tl'].
    + inversion Fr; subst. inversion A; subst. cbn [app]. exact I.
    + inversion Fr as [|f2 pn ? nodes2 Fp Fr2]; subst. inversion A; subst. cbn [app b_stack]. rewrite Rt.
      exists (node_add pn (KR x) v :: nodes2). split; [reflexivity|]. constructor; [|exact Fr2].
      destruct Fp as (Rt2 & Ok2 & Hk2 & Hd2). cbn [fst snd] in *. repeat split.
      * rewrite node_rt_add. exact Rt2.
      * apply node_ok_add; [exact Ok2|]. unfold item_ok. cbn [fst snd]. exact T.
      * destruct (may_raise x).
        -- eapply Forall_impl; [|exact Hk2]. intros q. apply has_key_add_old.
        -- constructor; [apply has_key_add_new|]. eapply Forall_impl; [|exact Hk2]. intros q. apply has_key_add_old.
      * intros Ep. specialize (Hd2 Ep). intros t0 ts0 G. rewrite get_tokens_add_other in G by reflexivity. apply (Hd2 t0 ts0 G).
  - (* ragged table: the optional child is dropped, the parent is untouched *)
    assert (Mr : may_raise x = true) by (destruct T as [-> | ->]; reflexivity).
    destruct tl as [|[p pks] tl'].
    + inversion A; subst. exact I.
    + inversion Fr as [|f2 pn ? nodes2 Fp Fr2]; subst. inversion A; subst. rewrite Mr. cbn [b_stack app].
      exists (pn :: nodes2). split; [reflexivity|]. constructor; assumption.
Qed.

(* builder_end ignores the rule name it is given *)
Lemma builder_end_irrel x y b : builder_end x b = builder_end y b.
Proof. reflexivity. Qed.

Lemma weaker_rel rec stk nodes : weaker rec stk = true -> Forall2 frame_rel stk nodes -> Forall2 frame_rel rec nodes.
Proof.
  revert stk nodes. induction rec as [|[x ks] rec IH]; intros stk nodes W F; destruct stk as [|[y ls] stk]; try discriminate.
  - inversion F. constructor.
  - cbn [weaker] in W. apply andb_prop in W as [W W3]. apply andb_prop in W as [W1 W2].
    apply rule_beq_eq in W1. subst y. inversion F as [|? n ? nodes' Fn Fr]; subst. constructor; [|eapply IH; eauto].
    destruct Fn as (Rt & Ok & Hk & Hd). cbn [fst snd] in *. repeat split; auto.
    apply Forall_forall. intros q Hq. rewrite forallb_forall in W2. specialize (W2 q Hq). apply kmem_in in W2.
    rewrite Forall_forall in Hk. auto.
Qed.

Lemma weaker_stack_rel rec stk bstack : weaker rec stk = true -> stack_rel stk bstack -> stack_rel rec bstack.
Proof.
  intros W R. destruct rec as [|fr rec]; [exact I|]. destruct stk as [|fs stk]; [destruct fr; discriminate|].
  destruct R as (nodes & E & F). exists nodes. split; [exact E | eapply weaker_rel; eauto].
Qed.

(* ---- safe: a normal return satisfies Q, a crash never happens, parser errors are fine ---- *)
Definition safe {A} (r : pres A) (Q : A -> pctx -> Prop) : Prop :=
  match r with Ok a c => Q a c | Crash _ => False | _ => True end.

Lemma safe_bind {A B} (r : pres A) (f : A -> pctx -> pres B) Q1 Q2 :
  safe r Q1 -> (forall a c, Q1 a c -> safe (f a c) Q2) -> safe (bind r f) Q2.
Proof. destruct r; simpl; auto. Qed.

Lemma safe_weaken {A} (r : pres A) (Q Q' : A -> pctx -> Prop) : safe r Q -> (forall a c, Q a c -> Q' a c) -> safe r Q'.
Proof. destruct r; simpl; auto. Qed.

Lemma add_error_safe e c : safe (add_error rP e c) (fun _ c' => bs c' = bs c /\ ms c' = ms c /\ errs c' <> []).
Proof.
  unfold add_error. destruct (existsb _ _) eqn:X; simpl.
  - repeat split. destruct (errs c); [discriminate | discriminate].
  - destruct (_ <? _); simpl; auto. repeat split. destruct (errs c); discriminate.
Qed.

(* exec: the productions of a transition, on related stacks *)
Lemma exec_safe stop t k ht : tok_ok k t -> (ht = true -> k = KDocStringSeparator -> m_text t <> None) ->
  forall ps stk stk' c, stack_rel stk (b_stack (bs c)) -> a_prods k ht ps stk = Some stk' ->
  safe (exec rP stop t k ps c) (fun _ c' => stack_rel stk' (b_stack (bs c')) /\ ms c' = ms c /\ (errs c <> [] -> errs c' <> [])).
Proof.
  intros Tk Ht. induction ps as [|p ps IH]; intros stk stk' c R A; cbn [a_prods exec] in *.
  - inversion A; subst. simpl. auto.
  - destruct (a_prod k ht p stk) as [stk1|] eqn:A1; [|discriminate].
    eapply safe_bind with (Q1 := fun _ c1 => stack_rel stk1 (b_stack (bs c1)) /\ ms c1 = ms c /\ (errs c <> [] -> errs c1 <> [])).
    + assert (G : forall (f : bstate -> bres bstate perror) ev0,
                (match f (bs c) with
                 | BOk b' | BRaise _ b' => stack_rel stk1 (b_stack b')
                 | BCrash => False end) ->
                safe (b_call rP stop f (emit ev0 c)) (fun _ c1 => stack_rel stk1 (b_stack (bs c1)) /\ ms c1 = ms c /\ (errs c <> [] -> errs c1 <> []))).
      { intros f ev0 Hf. unfold b_call. cbn [bs emit]. destruct (f (bs c)) as [b'|e b'|]; [| |destruct Hf].
        - simpl. auto.
        - destruct stop; [exact I|].
          eapply safe_weaken; [apply add_error_safe|]. intros _ c1 (B1 & M1 & E1). cbn [bs ms set_bs emit] in *.
          rewrite B1, M1. auto. }
      destruct p as [r|r|].
      * apply G. cbn [b_start pipeline_params]. unfold p_bstart.
        cbn [a_prod] in A1. destruct stk as [|f0 stk0] eqn:Es; [discriminate|]. inversion A1; subst stk1.
        destruct (start_rel (f0 :: stk0) (bs c) r ltac:(discriminate) R) as (b' & -> & R' & _). cbn [lift_bout]. exact R'.
      * apply G. cbn [b_end pipeline_params]. unfold p_bend.
        pose proof (end_rel stk stk1 (bs c) k ht r R A1) as Er. destruct (builder_end r (bs c)); cbn [lift_bout]; exact Er.
      * apply G. cbn [b_build pipeline_params]. unfold p_bbuild.
        destruct (build_rel stk stk1 (bs c) k ht t R A1 Tk Ht) as (b' & -> & R'). cbn [lift_bout]. exact R'.
    + intros _ c1 (R1 & M1 & E1). eapply safe_weaken; [apply (IH stk1 stk' c1 R1 A)|].
      intros _ c2 (R2 & M2 & E2). repeat split; auto; congruence.
Qed.

(* ---- matcher calls ---- *)
Definition sep_step (k : kind) (m m' : mstate) (t' : token) : Prop :=
  if kind_beq k KDocStringSeparator then
    match ms_sep m with
    | None => ms_sep m' <> None /\ m_text t' <> None
    | Some _ => ms_sep m' = None
    end
  else ms_sep m' = ms_sep m.

Lemma match_k_safe stop k t c :
  safe (match_k rP stop k t c)
       (fun r c' => bs c' = bs c /\ (errs c <> [] -> errs c' <> []) /\ is_eof rP (snd r) = is_eof rP t
                    /\ (if fst r then tok_ok k (snd r) /\ sep_step k (ms c) (ms c') (snd r)
                                      /\ (k = KEOF <-> is_eof rP t = true)
                        else ms_sep (ms c') = ms_sep (ms c))).
Proof.
  unfold match_k. destruct (negb (kind_beq k KEOF) && is_eof rP t) eqn:G; simpl; [auto|].
  assert (Pe : forall t' , Nesting.mtok (p_matchf k (ms c) t) = t' -> tok_is_eof t' = tok_is_eof t).
  { intros t' <-. exact (pipe_eof k (ms c) t). }
  cbn [matchf pipeline_params ms bump]. unfold p_matchf in *.
  destruct (matcher dialects k (ms c) t) as [|t' m'|e t' m'] eqn:M; simpl; specialize (Pe _ eq_refl); cbn in Pe.
  - auto.
  - cbn [fst snd ms set_ms bump bs errs]. split; [reflexivity|]. split; [auto|]. split; [exact Pe|].
    split; [eapply matcher_tok_ok; eauto|]. split; [unfold sep_step; exact (matcher_sep dialects k (ms c) t t' m' M)|].
    split.
    + intros ->. unfold matcher in M. cbn. unfold tok_is_eof. destruct (tk_line t); [discriminate | reflexivity].
    + intros Et. cbn [is_eof pipeline_params] in G, Et. rewrite Et, andb_true_r in G. apply negb_false_iff in G. now apply kind_beq_eq.
  - apply matcher_err_sep in M. subst m'. destruct stop; simpl; [exact I|].
    eapply safe_bind; [apply add_error_safe|]. intros _ c' (B & Ms & E). simpl. cbn [bs ms set_ms bump] in *.
    rewrite B, Ms. auto.
Qed.

Lemma sep_step_other k m m' t' : k <> KDocStringSeparator -> sep_step k m m' t' -> ms_sep m' = ms_sep m.
Proof. intros N. unfold sep_step. destruct (kind_beq k KDocStringSeparator) eqn:E; [apply kind_beq_eq in E; congruence | auto]. Qed.

Lemma any_match_safe stop ks : ~ In KDocStringSeparator ks -> forall t c,
  safe (any_match rP stop ks t c) (fun _ c' => bs c' = bs c /\ ms_sep (ms c') = ms_sep (ms c) /\ (errs c <> [] -> errs c' <> [])).
Proof.
  induction ks as [|k ks IH]; intros N t c; simpl; [auto|].
  eapply safe_bind; [apply match_k_safe|]. intros [b t'] c' (B & E & _ & R). cbn [fst snd] in *.
  assert (Nk : k <> KDocStringSeparator) by (intros X; apply N; now left).
  assert (Ms : ms_sep (ms c') = ms_sep (ms c)).
  { destruct b; [|exact R]. destruct R as (_ & S & _). apply (sep_step_other k _ _ _ Nk S). }
  destruct b; simpl; [auto|].
  eapply safe_weaken; [apply IH; intros X; apply N; now right|]. intros _ c'' (B2 & M2 & E2).
  repeat split; try congruence. auto.
Qed.

Lemma read_frame (c : pctx) : bs (snd (read rP c)) = bs c /\ ms (snd (read rP c)) = ms c /\ errs (snd (read rP c)) = errs c.
Proof. unfold read. destruct (queue c); [destruct (rest c)|]; auto. Qed.

Lemma la_loop_safe stop h : In h Table.lookaheads -> forall fuel c acc,
  safe (la_loop rP fuel stop h c acc) (fun _ c' => bs c' = bs c /\ ms_sep (ms c') = ms_sep (ms c) /\ (errs c <> [] -> errs c' <> [])).
Proof.
  intros Hh. destruct (la_ok_spec h Hh) as [Es Ee].
  assert (N1 : ~ In KDocStringSeparator (la_expected h)) by (intros X; destruct (Ee _ X); discriminate).
  assert (N2 : ~ In KDocStringSeparator (la_skip h)) by (rewrite Es; simpl; intuition discriminate).
  induction fuel as [|f IH]; intros c acc; simpl; [exact I|].
  destruct (read_frame c) as (B0 & M0 & E0). destruct (read rP c) as [t c1]. cbn [snd] in *.
  eapply safe_bind; [apply (any_match_safe stop _ N1)|]. intros [b t'] c2 (B2 & M2 & E2). cbn [fst snd].
  destruct b; simpl; [repeat split; try congruence; intros X; apply E2; congruence|].
  eapply safe_bind; [apply (any_match_safe stop _ N2)|]. intros [b' t''] c3 (B3 & M3 & E3). cbn [fst snd].
  destruct b'; simpl.
  - eapply safe_weaken; [apply IH|]. intros _ c4 (B4 & M4 & E4). repeat split; try congruence.
    intros X. apply E4, E3, E2. congruence.
  - repeat split; try congruence. intros X. apply E3, E2. congruence.
Qed.

Lemma lookahead_safe stop h c : find_la rP h <> None ->
  safe (lookahead rP stop h c) (fun _ c' => bs c' = bs c /\ ms_sep (ms c') = ms_sep (ms c) /\ (errs c <> [] -> errs c' <> [])).
Proof.
  intros F. unfold lookahead. destruct (find_la rP h) as [x|] eqn:Fl; [|congruence].
  assert (Hx : In x Table.lookaheads) by (unfold find_la in Fl; apply find_some in Fl; tauto).
  eapply safe_bind; [apply (la_loop_safe stop x Hx)|]. intros r c1 H. simpl. exact H.
Qed.

(* ---- facts read out of the certificate ---- *)
Definition dsb (s : nat) : bool := is_ds dstates s.

Lemma beta_start : blookup Table.start_state beta = Some [(RGherkinDocument, [])].
Proof.
  pose proof beta_ok as H. unfold shape_ok in H. apply andb_prop in H as [H _].
  destruct (blookup Table.start_state beta) as [[|[[] [|? ?]] [|? ?]]|]; try discriminate. reflexivity.
Qed.

Lemma beta_state x : In x Table.table ->
  exists stk, blookup (s_id x) beta = Some stk /\ top_final_ok stk = true /\
    forall y, In y (s_tests x) ->
      exists stk' rec, a_prods (t_kind y) (negb (dsb (s_id x))) (t_prods y) stk = Some stk'
        /\ blookup (t_tgt y) beta = Some rec /\ weaker rec stk' = true /\ top_final_ok rec = true
        /\ dsb (t_tgt y) = (if kind_beq (t_kind y) KDocStringSeparator then negb (dsb (s_id x)) else dsb (s_id x)).
Proof.
  intros Hx. pose proof beta_ok as H. unfold shape_ok in H. apply andb_prop in H as [_ H].
  rewrite forallb_forall in H. specialize (H x Hx).
  destruct (blookup (s_id x) beta) as [stk|]; [|discriminate]. apply andb_prop in H as [H1 H2].
  exists stk. split; [reflexivity|]. split; [exact H1|]. intros y Hy. rewrite forallb_forall in H2. specialize (H2 y Hy).
  fold (dsb (s_id x)) in H2.
  destruct (a_prods (t_kind y) (negb (dsb (s_id x))) (t_prods y) stk) as [stk'|]; [|discriminate].
  apply andb_prop in H2 as [H2 H3]. destruct (blookup (t_tgt y) beta) as [rec|]; [|discriminate].
  apply andb_prop in H2 as [H2 H4]. apply Bool.eqb_prop in H3. exists stk', rec. auto.
Qed.

(* ---- the invariant at a parser state ---- *)
Definition sep_ok (s : nat) (c : pctx) : Prop := (ms_sep (ms c) = None <-> dsb s = false).
Definition SI (s : nat) (c : pctx) : Prop :=
  (exists stk, blookup s beta = Some stk /\ top_final_ok stk = true /\ stack_rel stk (b_stack (bs c))) /\ sep_ok s c.

Lemma guard_has_la x y h : In x Table.table -> In y (s_tests x) -> t_guard y = Some h -> find_la rP h <> None.
Proof.
  intros Hx Hy G. pose proof guards_shape_ok as A. unfold guards_shape in A. rewrite forallb_forall in A.
  specialize (A x Hx). apply andb_prop in A as [A _]. rewrite forallb_forall in A. specialize (A y Hy). rewrite G in A.
  apply andb_prop in A as [_ A]. unfold find_la. cbn [Automaton.lookaheads pipeline_params].
  destruct (find _ Table.lookaheads); [discriminate | discriminate].
Qed.

Definition tgt_fact (tests : list test) (t : token) (s' : nat) : Prop :=
  exists y, In y tests /\ t_tgt y = s' /\ (t_kind y = KEOF <-> is_eof rP t = true).

Lemma run_tests_safe stop x : In x Table.table -> forall tests t c, incl tests (s_tests x) -> SI (s_id x) c ->
  safe (run_tests rP stop tests t c)
       (fun r c' => (errs c <> [] -> errs c' <> []) /\
          match fst r with
          | Some s' => SI s' c' /\ tgt_fact tests t s'
          | None => bs c' = bs c /\ ms_sep (ms c') = ms_sep (ms c)
          end).
Proof.
  intros Hx. destruct (beta_state x Hx) as (stk & Bs & _ & Tests).
  induction tests as [|y ys IH]; intros t c Hincl Hsi; cbn [run_tests]; [simpl; auto|].
  assert (Hy : In y (s_tests x)) by (apply Hincl; now left).
  assert (Hys : incl ys (s_tests x)) by (intros z Hz; apply Hincl; now right).
  destruct Hsi as ((stk0 & Bs0 & Tf0 & Rel) & Sep). assert (stk0 = stk) by congruence. subst stk0. unfold sep_ok in Sep.
  eapply safe_bind; [apply match_k_safe|]. intros [b t1] c1 (B1 & E1 & Ef1 & R1). cbn [fst snd] in *.
  (* going on with the remaining tests *)
  assert (Next : forall c2, bs c2 = bs c -> ms_sep (ms c2) = ms_sep (ms c) -> (errs c <> [] -> errs c2 <> []) ->
            safe (run_tests rP stop ys t1 c2)
                 (fun r c' => (errs c <> [] -> errs c' <> []) /\
                    match fst r with
                    | Some s' => SI s' c' /\ tgt_fact (y :: ys) t s'
                    | None => bs c' = bs c /\ ms_sep (ms c') = ms_sep (ms c)
                    end)).
  { intros c2 B2 M2 E2. eapply safe_weaken; [apply (IH t1 c2 Hys)|].
    - split; [exists stk; rewrite B2; auto | unfold sep_ok; rewrite M2; exact Sep].
    - intros r c' (E' & R'). split; [auto|]. destruct (fst r) as [s'|].
      + destruct R' as (S' & (z & Hz & Tz & Ez)). split; [exact S'|]. exists z. split; [now right|]. split; [exact Tz|].
        rewrite <- Ef1. exact Ez.
      + destruct R' as (B' & M'). split; congruence. }
  destruct b; [|apply Next; auto].
  destruct R1 as (Tk & Sst & Eof).
  destruct (Tests y Hy) as (stk' & rec & Ap & Br & W & Tfr & Dsy).
  (* the test fires *)
  assert (Fire : forall c2, bs c2 = bs c1 -> ms_sep (ms c2) = ms_sep (ms c1) -> (errs c <> [] -> errs c2 <> []) ->
            safe (bind (exec rP stop t1 (t_kind y) (t_prods y) c2) (fun _ c3 => Ok (Some (t_tgt y), t1) c3))
                 (fun r c' => (errs c <> [] -> errs c' <> []) /\
                    match fst r with
                    | Some s' => SI s' c' /\ tgt_fact (y :: ys) t s'
                    | None => bs c' = bs c /\ ms_sep (ms c') = ms_sep (ms c)
                    end)).
  { intros c2 B2 M2 E2.
    assert (Ht : negb (dsb (s_id x)) = true -> t_kind y = KDocStringSeparator -> m_text t1 <> None).
    { intros Hn Hk. unfold sep_step in Sst. rewrite Hk in Sst. cbn [kind_beq] in Sst.
      apply negb_true_iff in Hn. apply Sep in Hn. rewrite Hn in Sst. apply Sst. }
    eapply safe_bind; [apply (exec_safe stop t1 (t_kind y) _ Tk Ht (t_prods y) stk stk' c2); [rewrite B2, B1; exact Rel | exact Ap]|].
    intros _ c3 (R3 & M3 & E3). simpl. split; [auto|]. split.
    - split; [exists rec; split; [exact Br|]; split; [exact Tfr | eapply weaker_stack_rel; eauto]|].
      unfold sep_ok. rewrite M3, M2, Dsy. unfold sep_step in Sst.
      destruct (kind_beq (t_kind y) KDocStringSeparator).
      + destruct (ms_sep (ms c)) eqn:Ms.
        * rewrite Sst. assert (D : dsb (s_id x) = true).
          { destruct (dsb (s_id x)) eqn:D; [reflexivity|]. destruct Sep as [_ S2]. specialize (S2 eq_refl). discriminate. }
          rewrite D. simpl. tauto.
        * destruct Sst as [Sn _]. assert (D : dsb (s_id x) = false) by (apply Sep; reflexivity). rewrite D. simpl.
          split; [intros X; congruence | discriminate].
      + rewrite Sst. exact Sep.
    - exists y. split; [now left|]. split; [reflexivity | exact Eof]. }
  destruct (t_guard y) as [h|] eqn:G.
  - eapply safe_bind; [apply (lookahead_safe stop h c1 (guard_has_la x y h Hx Hy G))|].
    intros g c2 (B2 & M2 & E2). destruct g.
    + apply Fire; auto.
    + (* a failed guard: the separator state is as before the (successful, non-separator) match *)
      assert (Kg : t_kind y <> KDocStringSeparator).
      { pose proof guards_shape_ok as A. unfold guards_shape in A. rewrite forallb_forall in A.
        specialize (A x Hx). apply andb_prop in A as [A _]. rewrite forallb_forall in A. specialize (A y Hy). rewrite G in A.
        apply andb_prop in A as [A _]. apply kind_beq_eq in A. rewrite A. discriminate. }
      apply Next; try congruence; auto. rewrite M2. apply (sep_step_other _ _ _ _ Kg Sst).
  - apply Fire; auto.
Qed.

Lemma find_state_in_table s x : find_state rP s = Some x -> In x Table.table /\ s_id x = s.
Proof. unfold find_state. intros H. apply find_some in H as [H1 H2]. apply Nat.eqb_eq in H2. auto. Qed.

Lemma err_stays x : In x Table.table -> s_err x = s_id x.
Proof.
  intros Hx. pose proof error_stays_ok as K. unfold error_stays in K. rewrite forallb_forall in K.
  specialize (K x Hx). now apply Nat.eqb_eq in K.
Qed.

Lemma match_token_safe stop s t c : SI s c -> find_state rP s <> None ->
  safe (match_token rP stop s t c)
       (fun s' c' => SI s' c' /\ (errs c <> [] -> errs c' <> [])
                     /\ (is_eof rP t = false -> find_state rP s' <> None)
                     /\ (is_eof rP t = true -> find_state rP s' = None \/ errs c' <> [])).
Proof.
  intros Hsi Hs. unfold match_token. destruct (find_state rP s) as [x|] eqn:F; [|congruence].
  destruct (find_state_in_table s x F) as [Hx Hid]. subst s.
  eapply safe_bind; [apply (run_tests_safe stop x Hx (s_tests x) t c (incl_refl _) Hsi)|].
  intros [o t'] c1 (E1 & R1). cbn [fst snd] in *. destruct o as [s'|].
  - destruct R1 as (S1 & (y & Hy & <- & Ey)). simpl. cbn [is_eof pipeline_params] in Ey. split; [exact S1|]. split; [exact E1|]. split.
    + intros Et Fn. apply (total_of_states_total rP states_total_ok x y Hx Hy) in Fn. apply Ey in Fn. congruence.
    + intros Et. left. apply (total_of_states_total rP states_total_ok x y Hx Hy). now apply Ey.
  - destruct R1 as (B1 & M1).
    assert (S2 : forall c2, bs c2 = bs c1 -> ms c2 = ms c1 -> SI (s_id x) c2).
    { intros c2 B2 M2. destruct Hsi as ((stk & Bs & Tf & Rel) & Sep). split.
      - exists stk. rewrite B2, B1. auto.
      - unfold sep_ok in *. rewrite M2, M1. exact Sep. }
    destruct stop; simpl; [exact I|].
    eapply safe_bind; [apply add_error_safe|]. intros _ c3 (B3 & M3 & E3). simpl. rewrite (err_stays x Hx).
    split; [apply S2; assumption|]. split; [auto|]. split; [intros _; rewrite F; discriminate | intros _; now right].
Qed.

Lemma loop_safe stop : forall fuel s c, SI s c -> find_state rP s <> None ->
  safe (loop rP fuel stop s c)
       (fun s' c' => SI s' c' /\ (errs c <> [] -> errs c' <> []) /\ (find_state rP s' = None \/ errs c' <> [])).
Proof.
  induction fuel as [|f IH]; intros s c Hsi Hs; simpl; [exact I|].
  destruct (read_frame c) as (B0 & M0 & E0). destruct (read rP c) as [t c1]. cbn [snd] in *.
  assert (S1 : SI s c1).
  { destruct Hsi as ((stk & Bs & Tf & Rel) & Sep). split; [exists stk; rewrite B0; auto | unfold sep_ok in *; rewrite M0; exact Sep]. }
  eapply safe_bind; [apply (match_token_safe stop s t c1 S1 Hs)|].
  intros s' c2 (S2 & E2 & Kn & Ke). rewrite E0 in E2.
  change (is_eof rP t) with (tok_is_eof t) in *.
  destruct (tok_is_eof t) eqn:Et; cbn [safe].
  - split; [exact S2|]. split; [exact E2 | apply Ke; reflexivity].
  - eapply safe_weaken; [apply (IH s' c2 S2 (Kn eq_refl))|]. intros s'' c3 (S3 & E3 & K3). auto.
Qed.

(* the end state carries the finished document frame only *)
Lemma end_state_frame : forallb (fun x => forallb (fun y =>
    match find_in Table.table (t_tgt y) with
    | Some _ => true
    | None => match blookup (t_tgt y) beta with Some [(RGherkinDocument, _)] => true | _ => false end
    end) (s_tests x)) Table.table = true.
Proof. vm_compute. reflexivity. Qed.

Lemma start_not_ds : dsb Table.start_state = false.
Proof. vm_compute. reflexivity. Qed.

(* the final end_rule: whatever node is on top (the document, or Tags / a header / a doc string after an
   unexpected end of file) is transformed without a crash *)
Lemma final_end_safe s c : SI s c ->
  match builder_end RGherkinDocument (bs c) with BoCrash => False | _ => True end.
Proof.
  intros ((stk & Bs & Tf & Rel) & _). destruct stk as [|[y ks] tl]; [discriminate Tf|]. cbn [top_final_ok] in Tf.
  rewrite (builder_end_irrel RGherkinDocument y).
  assert (A : exists stk', a_prod KEOF true (PE y) ((y, ks) :: tl) = Some stk').
  { cbn [a_prod]. rewrite rule_beq_refl, Tf. cbn [andb]. destruct tl as [|[p pks] tl']; eauto. }
  destruct A as (stk' & A). pose proof (end_rel _ _ (bs c) KEOF true y Rel A) as E.
  destruct (builder_end y (bs c)); auto.
Qed.

(* states outside the table (the end state) carry the finished document frame only *)
Lemma beta_end_states : forallb (fun p =>
    match find_in Table.table (fst p) with
    | Some _ => true
    | None => match snd p with [(RGherkinDocument, _)] => true | _ => false end
    end) beta = true.
Proof. vm_compute. reflexivity. Qed.

Lemma blookup_in s b stk : blookup s b = Some stk -> In (s, stk) b.
Proof.
  induction b as [|[n st] b IH]; simpl; [discriminate|]. destruct (Nat.eqb n s) eqn:E.
  - apply Nat.eqb_eq in E. subst. intros H. inversion H. now left.
  - intros H. right. auto.
Qed.

Lemma end_state_stack s stk : blookup s beta = Some stk -> find_state rP s = None -> exists ks, stk = [(RGherkinDocument, ks)].
Proof.
  intros B F. apply blookup_in in B. pose proof beta_end_states as A. rewrite forallb_forall in A. specialize (A _ B).
  cbn [fst snd] in A. change (find_in Table.table s) with (find_state rP s) in A. rewrite F in A.
  destruct stk as [|[[] ks] [|? ?]]; try discriminate. eauto.
Qed.

(* closing the document node: the root receives the GherkinDocument *)
Lemma final_doc ks b x : stack_rel [(RGherkinDocument, ks)] (b_stack b) ->
  exists b' d, builder_end x b = BoOk b' /\ builder_result b' = Some d /\ rect_doc d.
Proof.
  intros (nodes & E & F). inversion F as [|f n ? nodes' Fn Fr]; subst. inversion Fr; subst.
  destruct Fn as (Rt & Ok & _ & _). cbn [fst] in Rt.
  pose proof (t_document n (b_comments b) (b_idc b) Rt Ok) as T.
  unfold builder_end. rewrite E. cbn [app].
  destruct (transform_node n (b_comments b) (b_idc b)) as [v i|e i|]; cbn [tnode_spec] in T; [|destruct T; discriminate|destruct T].
  unfold val_ok in T. cbn [is_inner leaf_val_ok] in T. destruct T as (d & -> & Rd).
  eexists. exists d. split; [reflexivity|]. split; [|exact Rd]. unfold builder_result. cbn [b_stack]. rewrite Rt. reflexivity.
Qed.

(* ---- Parser.parse never crashes, and a normal return comes with a document ---- *)
Theorem parse_tokens_total stop toks m b : wf_ms m ->
  match parse_tokens stop toks m b with
  | Crash _ => False
  | Ok _ c => exists d, builder_result (bs c) = Some d /\ rect_doc d
  | _ => True
  end.
Proof.
  intros W. unfold parse_tokens, parse_tokens_with, parse.
  set (m0 := reset_matcher dialects m). set (b0 := reset_builder b).
  set (c0 := emit (EvS RGherkinDocument) (init_ctx toks m0 b0)).
  (* start_rule(GherkinDocument) *)
  unfold b_call at 1. cbn [b_start pipeline_params bs emit init_ctx]. unfold p_bstart. cbn [builder_start lift_bout bind].
  set (c1 := set_bs _ c0).
  assert (S1 : SI Table.start_state c1).
  { split.
    - exists [(RGherkinDocument, [])]. split; [apply beta_start|]. split; [reflexivity|].
      exists [Node (KR RGherkinDocument) []]. split; [reflexivity|].
      constructor; [|constructor]. repeat split; try constructor. intros X. discriminate X.
    - unfold sep_ok. cbn [ms c1 set_bs c0 emit init_ctx]. rewrite start_not_ds.
      unfold m0. destruct (reset_matcher_wf m W) as (d0 & _ & Rm). rewrite Rm. cbn [ms_sep]. tauto. }
  pose proof (loop_safe stop (S (S (length toks))) Table.start_state c1 S1 pipe_start) as L.
  change (Automaton.start_state rP) with Table.start_state.
  destruct (loop rP (S (S (length toks))) stop Table.start_state c1) as [s' c2|e c2|es c2|c2|]; cbn [bind safe] in *; auto.
  destruct L as (S2 & _ & Fin).
  (* end_rule(GherkinDocument) *)
  pose proof (final_end_safe s' c2 S2) as Fe.
  unfold b_call. cbn [b_end pipeline_params bs emit]. unfold p_bend.
  destruct (builder_end RGherkinDocument (bs c2)) as [b'|e b'|] eqn:Be; cbn [lift_bout bind]; [| |destruct Fe].
  - cbn [errs set_bs emit]. destruct (errs c2) eqn:Ee; [|exact I]. cbn [bs set_bs].
    destruct Fin as [Fn|Fn]; [|congruence].
    destruct S2 as ((stk & Bs & _ & Rel) & _). destruct (end_state_stack s' stk Bs Fn) as (ks & ->).
    destruct (final_doc ks (bs c2) RGherkinDocument Rel) as (b2 & d & E2 & R2 & Rd). rewrite Be in E2. inversion E2; subst. eauto.
  - destruct stop; [exact I|].
    pose proof (add_error_safe e (set_bs b' (emit (EvE RGherkinDocument) c2))) as A.
    destruct (add_error rP e _) as [[] c3| | | |]; cbn [bind safe] in *; auto.
    destruct A as (_ & _ & A). destruct (errs c3); [congruence | exact I].
Qed.

Theorem parse_source_total stop m b src : wf_ms m ->
  parse_source stop m b src <> PCrash /\ parse_source stop m b src <> POutOfFuel.
Proof.
  intros W. pose proof (parse_tokens_total stop (scan src) m b W) as T.
  pose proof (source_delivery stop m b src W) as D. unfold parse_source.
  destruct (parse_tokens stop (scan src) m b); try (split; discriminate); [|destruct T|destruct D].
  destruct T as (d & -> & _). split; discriminate.
Qed.

(* the document Parser.parse returns has rectangular examples tables *)
Theorem parse_source_rect stop m b src d m' b' n : wf_ms m -> parse_source stop m b src = POk d m' b' n -> rect_doc d.
Proof.
  intros W. pose proof (parse_tokens_total stop (scan src) m b W) as T. unfold parse_source.
  destruct (parse_tokens stop (scan src) m b); try discriminate.
  destruct T as (d0 & -> & R). intros H. inversion H; subst. exact R.
Qed.
